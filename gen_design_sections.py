#!/usr/bin/env python3
"""Regenerates the generated blocks of DESIGN.md (between <!-- BEGIN GENERATED:x --> / <!-- END GENERATED:x -->)
from evidence/*.json (as-built rule lists, obligation counts) and seeded/*/meta.json + seeded/MATRIX.txt."""
import json,glob,os,re,textwrap
V=os.path.dirname(os.path.abspath(__file__))
props={}
for l in open(V+'/properties.jsonl'):
    l=l.strip()
    if l:
        p=json.loads(l); props[p['id']]=p
manifest=json.load(open(V+'/MANIFEST.json'))
claimed={c['property_id']:c for c in manifest.get('checks',manifest.get('properties',[]))} if isinstance(manifest.get('checks',manifest.get('properties',[])),list) else {}
matrix={}
mp=V+'/seeded/MATRIX.txt'
if os.path.exists(mp):
    for l in open(mp, errors="replace"):
        m=re.match(r'(C\d+-\d+): property=(C\d+) rc=(\d+) reports=(\d+)\s+(?:VIOLATION|UNDECIDED)?\s*(\S+): \[([^\]]+)\] (\S+)',l)
        if m: matrix[m.group(1)]=dict(rc=m.group(3),n=m.group(4),where=m.group(5),rule=m.group(6),key=m.group(7))
        else:
            m=re.match(r'(C\d+-\d+): property=(C\d+) rc=0 reports=0',l)
            if m: matrix[m.group(1)]=dict(rc='0',n='0',where='',rule='',key='')
def wrap(s,ind=''):
    return '\n'.join(textwrap.wrap(s,width=96,initial_indent=ind,subsequent_indent=ind,break_long_words=False,break_on_hyphens=False))
def gen_props():
    out=[]
    for pid in sorted(props):
        ev=V+'/evidence/%s.json'%pid
        out.append('### %s %s\n'%(pid,props[pid].get('title','')))
        if not os.path.exists(ev):
            out.append('No check registered.\n'); continue
        e=json.load(open(ev)); c=e['coverage']
        expl=c.get('explanation','')
        expl=re.sub(r'^C\d+ \([^)]*\): ','',expl)
        dec,_,nd=expl.partition(' NOT decided: ')
        out.append(wrap('**Decides** '+dec.replace('decides ','',1)))
        out.append('')
        if nd: out.append(wrap('**Not decided:** '+nd)); out.append('')
        rules=c.get('rule','').split('rules: ')[-1]
        out.append(wrap('**Rules:** '+rules.replace(' | ','; ')))
        out.append('')
        seeds=sorted(k for k in matrix if k.startswith(pid+'-'))
        out.append(wrap('**Pinned tree (after the fix commits):** %d obligations (floor %d) over configurations %s; %d known finding(s).'%(c['obligations'],c['floor'],', '.join(c['configs']),c.get('known_findings',0))))
        caught=[s for s in seeds if matrix[s]['rc']!='0']; missed=[s for s in seeds if matrix[s]['rc']=='0']
        if caught:
            out.append(wrap('**Seeded changes caught:** '+'; '.join('%s → `%s` %s'%(s,matrix[s]['rule'],matrix[s]['key']) for s in caught)+'.'))
        if missed:
            out.append(wrap('**Seeded changes not reported (outside the decided clause, see §7):** '+', '.join(missed)+'.'))
        out.append('')
    return '\n'.join(out)
def gen_seeds():
    out=['| seed | property | what was changed (sub-agent, confirmed in a scratch worktree) | needs | reported by (rule · construct) |','|---|---|---|---|---|']
    for d in sorted(glob.glob(V+'/seeded/C*-*/')):
        name=os.path.basename(d.rstrip('/'))
        m=json.load(open(d+'meta.json'))
        s=(m.get('summary') or '').replace('|','/').replace('\n',' ')
        n=(m.get('needs') or '').replace('|','/').replace('\n',' ')
        if len(s)>330: s=s[:327]+'…'
        if len(n)>200: n=n[:197]+'…'
        mx=matrix.get(name)
        if mx and mx['rc']=='0': rep='**not reported** — '+(m.get('verdict') or 'outside the decided clause')
        elif mx: rep='`%s` · %s (%s report(s), exit %s)'%(mx['rule'],mx['key'],mx['n'],mx['rc'])
        else: rep='(see MATRIX.txt)'
        out.append('| %s | %s | %s | %s | %s |'%(name,m.get('property'),s,n,rep))
    return '\n'.join(out)
blocks={'props':gen_props(),'seeds':gen_seeds()}
p=V+'/DESIGN.md'
s=open(p).read()
for k,v in blocks.items():
    b='<!-- BEGIN GENERATED:%s -->'%k; e='<!-- END GENERATED:%s -->'%k
    if b in s:
        i=s.index(b)+len(b); j=s.index(e)
        s=s[:i]+'\n'+v+'\n'+s[j:]
open(p,'w').write(s)
print('regenerated',[k for k in blocks if '<!-- BEGIN GENERATED:%s -->'%k in s])
