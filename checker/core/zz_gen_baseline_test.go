package core

import (
	"fmt"
	"os"
	"sort"
	"strings"
	"testing"
)

// TestGenBaseline regenerates baseline.go from the tree at GPVERIF_BASELINE_REPO (run manually).
func TestGenBaseline(t *testing.T) {
	repo := os.Getenv("GPVERIF_BASELINE_REPO")
	if repo == "" {
		t.Skip("set GPVERIF_BASELINE_REPO")
	}
	p, err := Load(repo, Configs["cgo"])
	if err != nil {
		t.Fatal(err)
	}
	p.NoExpand = true
	names := map[string]bool{}
	for _, f := range p.AllFuncs() {
		names[RelPkg(f.Pkg.PkgPath)+"."+f.Name] = true
	}
	for _, cfg := range []string{"nocgo"} {
		q, err := Load(repo, Configs[cfg], "./pkg/goDB/encoder/...")
		if err != nil {
			t.Fatal(err)
		}
		q.NoExpand = true
		for _, f := range q.AllFuncs() {
			names[RelPkg(f.Pkg.PkgPath)+"."+f.Name] = true
		}
	}
	var ks []string
	for k := range names {
		ks = append(ks, k)
	}
	sort.Strings(ks)
	var b strings.Builder
	b.WriteString("package core\n\n// BaselineFuncs: every function / method with a body on the reference tree (the pinned commit plus the fix commits).\n// A module function that is NOT listed here was introduced later — typically extracted from a listed one — and is\n// expanded at its call sites before the rules run (inline.go), so that the rules see the code as it was before the extraction.\n// Regenerate with: GPVERIF_BASELINE_REPO=/repo go test -run TestGenBaseline ./core\nvar BaselineFuncs = map[string]bool{\n")
	for _, k := range ks {
		fmt.Fprintf(&b, "\t%q: true,\n", k)
	}
	b.WriteString("}\n")
	if err := os.WriteFile("baseline.go", []byte(b.String()), 0o644); err != nil {
		t.Fatal(err)
	}
}
