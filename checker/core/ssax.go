package core

import (
	"go/types"

	"golang.org/x/tools/go/ssa"
	"golang.org/x/tools/go/ssa/ssautil"
)

type ssaState struct {
	prog *ssa.Program
	pkgs []*ssa.Package
}

// SSA builds (once) the SSA form of all module packages of the program.
func (p *Prog) SSA() *ssa.Program {
	if p.ssa != nil {
		return p.ssa.prog
	}
	prog, pkgs := ssautil.Packages(p.Pkgs, ssa.BuilderMode(0))
	prog.Build()
	p.ssa = &ssaState{prog: prog, pkgs: pkgs}
	return prog
}

// SSAFunc returns the SSA function of a declared function.
func (p *Prog) SSAFunc(f *Fn) *ssa.Function {
	return p.SSA().FuncValue(f.Obj)
}

// SSAPackages lists the SSA packages of the module.
func (p *Prog) SSAPackages() []*ssa.Package {
	p.SSA()
	var out []*ssa.Package
	for _, pk := range p.ssa.pkgs {
		if pk != nil {
			out = append(out, pk)
		}
	}
	return out
}

// AllSSAFuncs lists every module function including anonymous ones.
func (p *Prog) AllSSAFuncs() []*ssa.Function {
	var out []*ssa.Function
	var add func(f *ssa.Function)
	add = func(f *ssa.Function) {
		if f == nil || f.Blocks == nil {
			return
		}
		out = append(out, f)
		for _, a := range f.AnonFuncs {
			add(a)
		}
	}
	for _, pk := range p.SSAPackages() {
		for _, m := range pk.Members {
			switch x := m.(type) {
			case *ssa.Function:
				add(x)
			case *ssa.Type:
				for _, t := range []types.Type{x.Type(), types.NewPointer(x.Type())} {
					ms := p.ssa.prog.MethodSets.MethodSet(t)
					for i := 0; i < ms.Len(); i++ {
						fn := p.ssa.prog.MethodValue(ms.At(i))
						if fn != nil && fn.Synthetic == "" && fn.Pkg == pk {
							dup := false
							for _, o := range out {
								if o == fn {
									dup = true
								}
							}
							if !dup {
								add(fn)
							}
						}
					}
				}
			}
		}
	}
	return out
}
