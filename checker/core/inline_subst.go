package core

import (
	"go/ast"
	"go/token"
	"go/types"
)

// Parameter substitution for helper expansion: where a parameter of the helper is never assigned in its body and the
// argument is a side-effect-free expression, the uses of the parameter are replaced by the argument expression itself
// (copy-on-write: only the nodes on paths to a replaced identifier are copied; their types.Info entries are copied along).
// The rules then see the caller's own objects inside the expanded statements, exactly as before the extraction.

func pureExpr(info *types.Info, e ast.Expr) bool {
	switch x := ast.Unparen(e).(type) {
	case *ast.Ident, *ast.BasicLit:
		return true
	case *ast.SelectorExpr:
		return pureExpr(info, x.X)
	case *ast.StarExpr:
		return pureExpr(info, x.X)
	case *ast.UnaryExpr:
		return x.Op != token.ARROW && pureExpr(info, x.X)
	case *ast.BinaryExpr:
		return pureExpr(info, x.X) && pureExpr(info, x.Y)
	case *ast.IndexExpr:
		return pureExpr(info, x.X) && pureExpr(info, x.Index)
	case *ast.SliceExpr:
		ok := pureExpr(info, x.X)
		for _, p := range []ast.Expr{x.Low, x.High, x.Max} {
			if p != nil && !pureExpr(info, p) {
				ok = false
			}
		}
		return ok
	case *ast.CallExpr:
		if tv, ok := info.Types[x.Fun]; ok && tv.IsType() && len(x.Args) == 1 {
			return pureExpr(info, x.Args[0])
		}
		if id, ok := x.Fun.(*ast.Ident); ok && (id.Name == "len" || id.Name == "cap") && len(x.Args) == 1 {
			if _, isB := info.Uses[id].(*types.Builtin); isB {
				return pureExpr(info, x.Args[0])
			}
		}
	}
	return false
}

// assignedIn reports whether v is assigned (=, op=, ++, range key/value, address taken) anywhere in body.
func assignedIn(info *types.Info, body ast.Node, v types.Object) bool {
	found := false
	ast.Inspect(body, func(n ast.Node) bool {
		if found {
			return false
		}
		switch s := n.(type) {
		case *ast.AssignStmt:
			for _, l := range s.Lhs {
				if id, ok := ast.Unparen(l).(*ast.Ident); ok && (info.Uses[id] == v || info.Defs[id] == v) {
					found = true
				}
			}
		case *ast.IncDecStmt:
			if id, ok := ast.Unparen(s.X).(*ast.Ident); ok && info.Uses[id] == v {
				found = true
			}
		case *ast.RangeStmt:
			for _, e := range []ast.Expr{s.Key, s.Value} {
				if id, ok := e.(*ast.Ident); ok && (info.Uses[id] == v || info.Defs[id] == v) {
					found = true
				}
			}
		case *ast.UnaryExpr:
			if s.Op == token.AND {
				if id, ok := ast.Unparen(s.X).(*ast.Ident); ok && info.Uses[id] == v {
					found = true
				}
			}
		}
		return true
	})
	return found
}

type substituter struct {
	info *types.Info
	m    map[types.Object]ast.Expr
	fail bool
}

func (s *substituter) expr(e ast.Expr) (ast.Expr, bool) {
	if e == nil {
		return nil, false
	}
	keep := func(old, nw ast.Expr) ast.Expr {
		if tv, ok := s.info.Types[old]; ok {
			s.info.Types[nw] = tv
		}
		return nw
	}
	switch x := e.(type) {
	case *ast.Ident:
		if o := s.info.Uses[x]; o != nil {
			if r, ok := s.m[o]; ok {
				return r, true
			}
		}
		return e, false
	case *ast.BasicLit, *ast.ArrayType, *ast.MapType, *ast.ChanType, *ast.FuncType, *ast.StructType, *ast.InterfaceType, *ast.Ellipsis:
		return e, false
	case *ast.ParenExpr:
		if n, ch := s.expr(x.X); ch {
			c := *x
			c.X = n
			return keep(x, &c), true
		}
	case *ast.SelectorExpr:
		if n, ch := s.expr(x.X); ch {
			c := *x
			c.X = n
			if sel, ok := s.info.Selections[x]; ok {
				s.info.Selections[&c] = sel
			}
			return keep(x, &c), true
		}
	case *ast.StarExpr:
		if n, ch := s.expr(x.X); ch {
			c := *x
			c.X = n
			return keep(x, &c), true
		}
	case *ast.UnaryExpr:
		if n, ch := s.expr(x.X); ch {
			c := *x
			c.X = n
			return keep(x, &c), true
		}
	case *ast.BinaryExpr:
		a, c1 := s.expr(x.X)
		b, c2 := s.expr(x.Y)
		if c1 || c2 {
			c := *x
			c.X, c.Y = a, b
			return keep(x, &c), true
		}
	case *ast.IndexExpr:
		a, c1 := s.expr(x.X)
		b, c2 := s.expr(x.Index)
		if c1 || c2 {
			c := *x
			c.X, c.Index = a, b
			return keep(x, &c), true
		}
	case *ast.SliceExpr:
		a, ch := s.expr(x.X)
		c := *x
		c.X = a
		for _, pp := range []*ast.Expr{&c.Low, &c.High, &c.Max} {
			if *pp != nil {
				if n, c2 := s.expr(*pp); c2 {
					*pp, ch = n, true
				}
			}
		}
		if ch {
			return keep(x, &c), true
		}
	case *ast.TypeAssertExpr:
		if n, ch := s.expr(x.X); ch {
			c := *x
			c.X = n
			return keep(x, &c), true
		}
	case *ast.KeyValueExpr:
		if n, ch := s.expr(x.Value); ch {
			c := *x
			c.Value = n
			return &c, true
		}
	case *ast.CompositeLit:
		l, ch := s.exprs(x.Elts)
		if ch {
			c := *x
			c.Elts = l
			return keep(x, &c), true
		}
	case *ast.CallExpr:
		f, c1 := s.expr(x.Fun)
		l, c2 := s.exprs(x.Args)
		if c1 || c2 {
			c := *x
			c.Fun, c.Args = f, l
			return keep(x, &c), true
		}
	case *ast.FuncLit:
		if b, ch := s.block(x.Body); ch {
			c := *x
			c.Body = b
			return keep(x, &c), true
		}
	default:
		// unknown expression kind: refuse if it mentions a substituted parameter
		ast.Inspect(e, func(n ast.Node) bool {
			if id, ok := n.(*ast.Ident); ok {
				if _, sub := s.m[s.info.Uses[id]]; sub {
					s.fail = true
				}
			}
			return true
		})
	}
	return e, false
}

func (s *substituter) exprs(l []ast.Expr) ([]ast.Expr, bool) {
	ch := false
	out := make([]ast.Expr, len(l))
	for i, e := range l {
		n, c := s.expr(e)
		out[i] = n
		if c {
			ch = true
		}
	}
	if !ch {
		return l, false
	}
	return out, true
}

func (s *substituter) block(b *ast.BlockStmt) (*ast.BlockStmt, bool) {
	if b == nil {
		return nil, false
	}
	l, ch := s.stmts(b.List)
	if !ch {
		return b, false
	}
	return &ast.BlockStmt{Lbrace: b.Lbrace, List: l, Rbrace: b.Rbrace}, true
}

func (s *substituter) stmts(l []ast.Stmt) ([]ast.Stmt, bool) {
	ch := false
	out := make([]ast.Stmt, len(l))
	for i, st := range l {
		n, c := s.stmt(st)
		out[i] = n
		if c {
			ch = true
		}
	}
	if !ch {
		return l, false
	}
	return out, true
}

func (s *substituter) stmt(st ast.Stmt) (ast.Stmt, bool) {
	switch x := st.(type) {
	case nil:
		return nil, false
	case *ast.BlockStmt:
		if b, ch := s.block(x); ch {
			return b, true
		}
	case *ast.ExprStmt:
		if n, ch := s.expr(x.X); ch {
			c := *x
			c.X = n
			return &c, true
		}
	case *ast.AssignStmt:
		a, c1 := s.exprs(x.Lhs)
		b, c2 := s.exprs(x.Rhs)
		if c1 || c2 {
			c := *x
			c.Lhs, c.Rhs = a, b
			return &c, true
		}
	case *ast.IncDecStmt:
		if n, ch := s.expr(x.X); ch {
			c := *x
			c.X = n
			return &c, true
		}
	case *ast.ReturnStmt:
		if l, ch := s.exprs(x.Results); ch {
			c := *x
			c.Results = l
			return &c, true
		}
	case *ast.SendStmt:
		a, c1 := s.expr(x.Chan)
		b, c2 := s.expr(x.Value)
		if c1 || c2 {
			c := *x
			c.Chan, c.Value = a, b
			return &c, true
		}
	case *ast.IfStmt:
		c := *x
		ch := false
		if n, c1 := s.stmt(x.Init); c1 {
			c.Init, ch = n, true
		}
		if n, c1 := s.expr(x.Cond); c1 {
			c.Cond, ch = n, true
		}
		if n, c1 := s.block(x.Body); c1 {
			c.Body, ch = n, true
		}
		if n, c1 := s.stmt(x.Else); c1 {
			c.Else, ch = n, true
		}
		if ch {
			return &c, true
		}
	case *ast.ForStmt:
		c := *x
		ch := false
		if n, c1 := s.stmt(x.Init); c1 {
			c.Init, ch = n, true
		}
		if x.Cond != nil {
			if n, c1 := s.expr(x.Cond); c1 {
				c.Cond, ch = n, true
			}
		}
		if n, c1 := s.stmt(x.Post); c1 {
			c.Post, ch = n, true
		}
		if n, c1 := s.block(x.Body); c1 {
			c.Body, ch = n, true
		}
		if ch {
			return &c, true
		}
	case *ast.RangeStmt:
		c := *x
		ch := false
		if n, c1 := s.expr(x.X); c1 {
			c.X, ch = n, true
		}
		if n, c1 := s.block(x.Body); c1 {
			c.Body, ch = n, true
		}
		if ch {
			return &c, true
		}
	case *ast.SwitchStmt:
		c := *x
		ch := false
		if n, c1 := s.stmt(x.Init); c1 {
			c.Init, ch = n, true
		}
		if x.Tag != nil {
			if n, c1 := s.expr(x.Tag); c1 {
				c.Tag, ch = n, true
			}
		}
		if n, c1 := s.block(x.Body); c1 {
			c.Body, ch = n, true
		}
		if ch {
			return &c, true
		}
	case *ast.TypeSwitchStmt:
		c := *x
		ch := false
		if n, c1 := s.stmt(x.Assign); c1 {
			c.Assign, ch = n, true
		}
		if n, c1 := s.block(x.Body); c1 {
			c.Body, ch = n, true
		}
		if ch {
			return &c, true
		}
	case *ast.CaseClause:
		a, c1 := s.exprs(x.List)
		b, c2 := s.stmts(x.Body)
		if c1 || c2 {
			c := *x
			c.List, c.Body = a, b
			if o, ok := s.info.Implicits[x]; ok {
				s.info.Implicits[&c] = o
			}
			return &c, true
		}
	case *ast.DeclStmt:
		if gd, ok := x.Decl.(*ast.GenDecl); ok {
			ch := false
			ng := *gd
			ng.Specs = nil
			for _, sp := range gd.Specs {
				if vs, ok := sp.(*ast.ValueSpec); ok {
					if l, c1 := s.exprs(vs.Values); c1 {
						nv := *vs
						nv.Values = l
						ng.Specs = append(ng.Specs, &nv)
						ch = true
						continue
					}
				}
				ng.Specs = append(ng.Specs, sp)
			}
			if ch {
				return &ast.DeclStmt{Decl: &ng}, true
			}
		}
	case *ast.BranchStmt, *ast.EmptyStmt:
	default:
		ast.Inspect(st, func(n ast.Node) bool {
			if id, ok := n.(*ast.Ident); ok {
				if _, sub := s.m[s.info.Uses[id]]; sub {
					s.fail = true
				}
			}
			return true
		})
	}
	return st, false
}

// memReads: the storage an argument expression reads beyond plain locals: struct fields (by field object), package-level
// variables, and "other" for element / pointer reads that are not rooted in a field.
func memReads(info *types.Info, e ast.Expr) (objs map[types.Object]bool, other bool) {
	objs = map[types.Object]bool{}
	ast.Inspect(e, func(n ast.Node) bool {
		switch x := n.(type) {
		case *ast.SelectorExpr:
			if sel, ok := info.Selections[x]; ok && sel.Kind() == types.FieldVal {
				objs[sel.Obj()] = true
			} else if v, ok := info.Uses[x.Sel].(*types.Var); ok && !v.IsField() {
				objs[v] = true // qualified package-level variable
			}
		case *ast.Ident:
			if v, ok := info.Uses[x].(*types.Var); ok && !v.IsField() && v.Pkg() != nil && v.Parent() == v.Pkg().Scope() {
				objs[v] = true
			}
		case *ast.IndexExpr, *ast.StarExpr, *ast.SliceExpr:
			var base ast.Expr
			switch y := x.(type) {
			case *ast.IndexExpr:
				base = y.X
			case *ast.StarExpr:
				base = y.X
			case *ast.SliceExpr:
				base = y.X
			}
			if fieldRoot(info, base) == nil {
				other = true
			}
		}
		return true
	})
	return objs, other
}

// fieldRoot: the field object an lvalue / element expression is rooted in (l.data[i] -> data), nil if none.
func fieldRoot(info *types.Info, e ast.Expr) types.Object {
	for {
		switch x := ast.Unparen(e).(type) {
		case *ast.IndexExpr:
			e = x.X
		case *ast.SliceExpr:
			e = x.X
		case *ast.StarExpr:
			e = x.X
		case *ast.UnaryExpr:
			if x.Op != token.AND {
				return nil
			}
			e = x.X
		case *ast.CallExpr:
			// conversions: *(*uint32)(unsafe.Pointer(&l.data[i])) is rooted in l.data
			if tv, ok := info.Types[x.Fun]; ok && tv.IsType() && len(x.Args) == 1 {
				e = x.Args[0]
				continue
			}
			return nil
		case *ast.SelectorExpr:
			if sel, ok := info.Selections[x]; ok && sel.Kind() == types.FieldVal {
				return sel.Obj()
			}
			if v, ok := info.Uses[x.Sel].(*types.Var); ok {
				return v
			}
			return nil
		case *ast.Ident:
			if v, ok := info.Uses[x].(*types.Var); ok && !v.IsField() && v.Pkg() != nil && v.Parent() == v.Pkg().Scope() {
				return v
			}
			return nil
		default:
			return nil
		}
	}
}

// memWrites: the storage a helper body may write: fields / package variables assigned (also element-wise and through copy),
// and "other" when it stores through a plain pointer / slice variable or calls anything that is not a builtin or a conversion.
func memWrites(info *types.Info, body ast.Node) (objs map[types.Object]bool, other bool) {
	objs = map[types.Object]bool{}
	lv := func(e ast.Expr) {
		if _, isId := ast.Unparen(e).(*ast.Ident); isId {
			if o := fieldRoot(info, e); o != nil {
				objs[o] = true
			}
			return
		}
		if o := fieldRoot(info, e); o != nil {
			objs[o] = true
		} else {
			other = true
		}
	}
	ast.Inspect(body, func(n ast.Node) bool {
		switch s := n.(type) {
		case *ast.AssignStmt:
			for _, l := range s.Lhs {
				lv(l)
			}
		case *ast.IncDecStmt:
			lv(s.X)
		case *ast.RangeStmt:
			if s.Tok == token.ASSIGN {
				for _, e := range []ast.Expr{s.Key, s.Value} {
					if e != nil {
						lv(e)
					}
				}
			}
		case *ast.CallExpr:
			if tv, ok := info.Types[s.Fun]; ok && tv.IsType() {
				return true
			}
			if id, ok := ast.Unparen(s.Fun).(*ast.Ident); ok {
				if _, isB := info.Uses[id].(*types.Builtin); isB {
					if id.Name == "copy" && len(s.Args) > 0 {
						lv(s.Args[0])
					}
					if id.Name == "clear" && len(s.Args) > 0 {
						lv(s.Args[0])
					}
					return true
				}
			}
			other = true
		}
		return true
	})
	return objs, other
}

// stableDuring reports whether argument arg is certain to keep its value while body runs: it reads no storage the body
// may write. Plain locals of the caller cannot be written by the helper at all.
func stableDuring(ci *types.Info, arg ast.Expr, hi *types.Info, body ast.Node) bool {
	robjs, rother := memReads(ci, arg)
	if len(robjs) == 0 && !rother {
		return true
	}
	wobjs, wother := memWrites(hi, body)
	if wother {
		return false
	}
	if rother && len(wobjs) > 0 {
		return false
	}
	for o := range robjs {
		if wobjs[o] {
			return false
		}
	}
	return true
}
