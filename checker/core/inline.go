package core

import (
	"go/ast"
	"go/token"
	"go/types"
)

// Helper expansion.
//
// The rules are written against the functions of the reference tree (BaselineFuncs). A maintainer who extracts a few
// statements of such a function into a new helper does not change behaviour, but would hide those statements from every
// rule that reads the function. Before a function is handed to the rules, calls to module functions that do NOT exist on
// the reference tree are therefore expanded in place (two levels deep), so that the rules see the statements where they
// were before the extraction.
//
// The expansion is purely for analysis: it builds a new statement tree that re-uses the original nodes of caller and
// helper (so every types.Info lookup keeps working) and adds synthetic binding statements `param := argument` whose
// identifiers are registered in types.Info as definitions / uses of the helper's own parameter objects. A call is only
// expanded when it stands alone as a statement, is the single right-hand side of an assignment / definition, is the
// single operand of a return, is the init statement of an if, or is a direct argument of one of these (then it is hoisted
// into a temporary first). `return` statements of the helper are turned into assignments where they are in tail position;
// helpers with returns inside loops, with defer / go / labels / recover, with variadic parameters, or recursive ones are
// left alone (the call stays a call). Any unexpected shape also leaves the call alone — expansion never fails a check.

type inliner struct {
	p        *Prog
	depth    int
	stack    map[*types.Func]bool
	ntmp     int
	doneLits map[*ast.FuncLit]bool
	unified  map[*types.Var]ast.Expr // named results of the helper being expanded that are the caller's own target variables
}

// inlinable reports whether fo is a module function with a body that is not part of the reference tree.
func (p *Prog) inlinable(fo *types.Func) *Fn {
	if fo == nil || fo.Pkg() == nil {
		return nil
	}
	h := p.rawFnOf(fo)
	if h == nil || h.Decl.Body == nil {
		return nil
	}
	if BaselineFuncs[RelPkg(h.Pkg.PkgPath)+"."+h.Name] {
		return nil
	}
	sig := fo.Type().(*types.Signature)
	if sig.Variadic() || sig.TypeParams().Len() > 0 {
		return nil
	}
	return h
}

// Expanded returns fn with the helpers that are not on the reference tree expanded (fn itself if there are none).
func (p *Prog) Expanded(fn *Fn) *Fn {
	if fn == nil || fn.Decl == nil || fn.Decl.Body == nil {
		return fn
	}
	if p.expanded == nil {
		p.expanded = map[*types.Func]*Fn{}
	}
	if e, ok := p.expanded[fn.Obj]; ok {
		return e
	}
	in := &inliner{p: p, stack: map[*types.Func]bool{fn.Obj: true}, doneLits: map[*ast.FuncLit]bool{}}
	out := fn
	func() {
		defer func() {
			if recover() != nil {
				out = fn // never fail because of the expansion
			}
		}()
		body, changed := in.block(fn, fn.Decl.Body)
		if changed {
			nd := *fn.Decl
			nd.Body = body
			cp := *fn
			cp.Decl = &nd
			out = &cp
		}
	}()
	p.expanded[fn.Obj] = out
	return out
}

func (in *inliner) info(fn *Fn) *types.Info { return fn.Pkg.TypesInfo }

// block rewrites a block; returns the new block and whether anything changed.
func (in *inliner) block(fn *Fn, b *ast.BlockStmt) (*ast.BlockStmt, bool) {
	if b == nil {
		return nil, false
	}
	list, changed := in.list(fn, b.List)
	if !changed {
		return b, false
	}
	return &ast.BlockStmt{Lbrace: b.Lbrace, List: list, Rbrace: b.Rbrace}, true
}

func (in *inliner) list(fn *Fn, list []ast.Stmt) ([]ast.Stmt, bool) {
	var out []ast.Stmt
	changed := false
	for _, st := range list {
		repl, ch := in.stmt(fn, st)
		if ch {
			changed = true
		}
		out = append(out, repl...)
	}
	if !changed {
		return list, false
	}
	return out, true
}

// stmt rewrites one statement into one or more statements.
func (in *inliner) stmt(fn *Fn, st ast.Stmt) ([]ast.Stmt, bool) {
	info := in.info(fn)
	switch s := st.(type) {
	case *ast.BlockStmt:
		if b, ch := in.block(fn, s); ch {
			return []ast.Stmt{b}, true
		}
	case *ast.LabeledStmt:
		if r, ch := in.stmt(fn, s.Stmt); ch && len(r) == 1 {
			cp := *s
			cp.Stmt = r[0]
			return []ast.Stmt{&cp}, true
		} else if ch {
			cp := *s
			cp.Stmt = &ast.BlockStmt{Lbrace: s.Pos(), List: r, Rbrace: s.End()}
			return []ast.Stmt{&cp}, true
		}
	case *ast.IfStmt:
		cp := *s
		ch := false
		var pre []ast.Stmt
		if s.Init != nil {
			if r, c := in.stmt(fn, s.Init); c {
				// hoist the expanded init in front of the if (the whole thing in its own block for scoping)
				pre, cp.Init, ch = r, nil, true
			}
		}
		if b, c := in.block(fn, s.Body); c {
			cp.Body, ch = b, true
		}
		if s.Else != nil {
			if r, c := in.stmt(fn, s.Else); c && len(r) == 1 {
				cp.Else, ch = r[0], true
			}
		}
		// a helper call in the condition: hoist into a temporary
		if pre == nil {
			if hs, nc, c := in.hoist(fn, &cp, cp.Cond); c {
				if ce, ok := nc.(*ast.IfStmt); ok {
					cp = *ce
					pre, ch = hs, true
				}
			}
		}
		if ch {
			if pre != nil {
				return []ast.Stmt{&ast.BlockStmt{Lbrace: s.Pos(), List: append(pre, &cp), Rbrace: s.End()}}, true
			}
			return []ast.Stmt{&cp}, true
		}
	case *ast.ForStmt:
		if b, c := in.block(fn, s.Body); c {
			cp := *s
			cp.Body = b
			return []ast.Stmt{&cp}, true
		}
	case *ast.RangeStmt:
		if b, c := in.block(fn, s.Body); c {
			cp := *s
			cp.Body = b
			return []ast.Stmt{&cp}, true
		}
	case *ast.SwitchStmt:
		if b, c := in.clauses(fn, s.Body); c {
			cp := *s
			cp.Body = b
			return []ast.Stmt{&cp}, true
		}
	case *ast.TypeSwitchStmt:
		if b, c := in.clauses(fn, s.Body); c {
			cp := *s
			cp.Body = b
			return []ast.Stmt{&cp}, true
		}
	case *ast.SelectStmt:
		if b, c := in.clauses(fn, s.Body); c {
			cp := *s
			cp.Body = b
			return []ast.Stmt{&cp}, true
		}
	case *ast.DeferStmt, *ast.GoStmt:
		var call *ast.CallExpr
		if d, ok := s.(*ast.DeferStmt); ok {
			call = d.Call
		} else {
			call = s.(*ast.GoStmt).Call
		}
		// `defer h(args)` / `go h(args)` with an expandable helper: read it as `defer func() { <h expanded> }()`
		if _, isLit := call.Fun.(*ast.FuncLit); !isLit {
			if h := in.target(fn, call); h != nil {
				if body, ok := in.expand(fn, h, call, nil, token.ILLEGAL, "stmt"); ok {
					blk, isBlk := body.(*ast.BlockStmt)
					if !isBlk {
						blk = &ast.BlockStmt{Lbrace: call.Pos(), List: []ast.Stmt{body}, Rbrace: call.End()}
					}
					nfl := &ast.FuncLit{Type: &ast.FuncType{Func: call.Pos(), Params: &ast.FieldList{Opening: call.Pos(), Closing: call.Pos()}}, Body: blk}
					info.Types[nfl] = types.TypeAndValue{Type: types.NewSignatureType(nil, nil, nil, nil, nil, false)}
					in.doneLits[nfl] = true
					ncall := &ast.CallExpr{Fun: nfl, Lparen: call.Lparen, Rparen: call.Rparen}
					info.Types[ncall] = types.TypeAndValue{Type: types.NewTuple()}
					if d, ok := s.(*ast.DeferStmt); ok {
						cp := *d
						cp.Call = ncall
						return []ast.Stmt{&cp}, true
					}
					cp := *(s.(*ast.GoStmt))
					cp.Call = ncall
					return []ast.Stmt{&cp}, true
				}
			}
		}
		if fl, ok := call.Fun.(*ast.FuncLit); ok {
			if b, c := in.block(fn, fl.Body); c {
				nfl := *fl
				nfl.Body = b
				if tv, ok := info.Types[fl]; ok {
					info.Types[&nfl] = tv
				}
				ncall := *call
				ncall.Fun = &nfl
				if tv, ok := info.Types[call]; ok {
					info.Types[&ncall] = tv
				}
				if d, ok := s.(*ast.DeferStmt); ok {
					cp := *d
					cp.Call = &ncall
					return []ast.Stmt{&cp}, true
				}
				cp := *(s.(*ast.GoStmt))
				cp.Call = &ncall
				return []ast.Stmt{&cp}, true
			}
		}
	case *ast.ExprStmt:
		if call, ok := ast.Unparen(s.X).(*ast.CallExpr); ok {
			if h := in.target(fn, call); h != nil {
				if body, ok := in.expand(fn, h, call, nil, token.ILLEGAL, "stmt"); ok {
					return []ast.Stmt{body}, true
				}
			}
		}
		if hs, ns, c := in.hoist(fn, s, s.X); c {
			return append(hs, ns.(ast.Stmt)), true
		}
	case *ast.AssignStmt:
		if len(s.Rhs) == 1 {
			if call, ok := ast.Unparen(s.Rhs[0]).(*ast.CallExpr); ok {
				if h := in.target(fn, call); h != nil && h.Obj.Type().(*types.Signature).Results().Len() == len(s.Lhs) && (s.Tok == token.ASSIGN || s.Tok == token.DEFINE) {
					if body, ok := in.expand(fn, h, call, s.Lhs, s.Tok, "assign"); ok {
						return body.(*ast.BlockStmt).List, true // no block: definitions must stay visible to what follows
					}
				}
			}
		}
		for _, r := range s.Rhs {
			if hs, ns, c := in.hoist(fn, s, r); c {
				return append(hs, ns.(ast.Stmt)), true
			}
		}
	case *ast.ReturnStmt:
		if len(s.Results) == 1 {
			if call, ok := ast.Unparen(s.Results[0]).(*ast.CallExpr); ok {
				if h := in.target(fn, call); h != nil {
					if body, ok := in.expand(fn, h, call, nil, token.ILLEGAL, "return"); ok {
						return []ast.Stmt{body}, true
					}
				}
			}
		}
		for _, r := range s.Results {
			if hs, ns, c := in.hoist(fn, s, r); c {
				return append(hs, ns.(ast.Stmt)), true
			}
		}
	case *ast.SendStmt:
		if hs, ns, c := in.hoist(fn, s, s.Value); c {
			return append(hs, ns.(ast.Stmt)), true
		}
	}
	// function literals anywhere in a simple statement (returned / assigned / passed closures): expand inside their bodies
	switch st.(type) {
	case *ast.ExprStmt, *ast.AssignStmt, *ast.ReturnStmt, *ast.SendStmt:
		var cur ast.Node = st
		changed := false
		for guard := 0; guard < 8; guard++ {
			var fl *ast.FuncLit
			var nb *ast.BlockStmt
			Walk(cur, true, func(x ast.Node) bool {
				if fl != nil {
					return false
				}
				if f, ok := x.(*ast.FuncLit); ok && in.doneLits[f] {
					return false
				}
				if f, ok := x.(*ast.FuncLit); ok && !in.doneLits[f] {
					in.doneLits[f] = true
					if b, c := in.block(fn, f.Body); c {
						fl, nb = f, b
					}
					return false
				}
				return true
			})
			if fl == nil {
				break
			}
			nfl := *fl
			nfl.Body = nb
			in.doneLits[&nfl] = true
			if tv, ok := info.Types[fl]; ok {
				info.Types[&nfl] = tv
			}
			n2, ok := replaceNode(info, cur, fl, &nfl)
			if !ok {
				break
			}
			cur, changed = n2, true
		}
		if changed {
			return []ast.Stmt{cur.(ast.Stmt)}, true
		}
	}
	return []ast.Stmt{st}, false
}

func (in *inliner) clauses(fn *Fn, b *ast.BlockStmt) (*ast.BlockStmt, bool) {
	changed := false
	nb := &ast.BlockStmt{Lbrace: b.Lbrace, Rbrace: b.Rbrace}
	for _, c := range b.List {
		switch cc := c.(type) {
		case *ast.CaseClause:
			if l, ch := in.list(fn, cc.Body); ch {
				cp := *cc
				cp.Body = l
				nb.List = append(nb.List, &cp)
				// keep the implicit object of type switches reachable
				if o, ok := in.info(fn).Implicits[cc]; ok {
					in.info(fn).Implicits[&cp] = o
				}
				changed = true
				continue
			}
		case *ast.CommClause:
			if l, ch := in.list(fn, cc.Body); ch {
				cp := *cc
				cp.Body = l
				nb.List = append(nb.List, &cp)
				changed = true
				continue
			}
		}
		nb.List = append(nb.List, c)
	}
	if !changed {
		return b, false
	}
	return nb, true
}

// target: the helper a call should be expanded into, nil if none.
func (in *inliner) target(fn *Fn, call *ast.CallExpr) *Fn {
	if in.depth >= 2 {
		return nil
	}
	fo, _ := Callee(in.info(fn), call).(*types.Func)
	if fo == nil || in.stack[fo] {
		return nil
	}
	h := in.p.inlinable(fo)
	if h == nil {
		return nil
	}
	// only plain calls of functions and of methods through an addressable / value receiver expression
	switch f := ast.Unparen(call.Fun).(type) {
	case *ast.Ident:
	case *ast.SelectorExpr:
		if _, isPkg := in.info(fn).Uses[identOf(f.X)].(*types.PkgName); !isPkg {
			if h.Obj.Type().(*types.Signature).Recv() == nil {
				return nil
			}
		}
	default:
		return nil
	}
	if unsupportedBody(h.Decl.Body) {
		return nil
	}
	return h
}

func identOf(e ast.Expr) *ast.Ident {
	id, _ := ast.Unparen(e).(*ast.Ident)
	return id
}

func unsupportedBody(b *ast.BlockStmt) bool {
	bad := false
	ast.Inspect(b, func(n ast.Node) bool {
		switch x := n.(type) {
		case *ast.FuncLit:
			return false
		case *ast.DeferStmt, *ast.GoStmt, *ast.LabeledStmt:
			bad = true
		case *ast.BranchStmt:
			if x.Tok == token.GOTO || x.Label != nil {
				bad = true
			}
		case *ast.CallExpr:
			if id, ok := x.Fun.(*ast.Ident); ok && id.Name == "recover" {
				bad = true
			}
		}
		return !bad
	})
	return bad
}

// expand builds the statements that replace a call of h. mode: "stmt" (results dropped), "assign" (results go to lhs with tok),
// "return" (the helper's returns become the caller's returns).
func (in *inliner) expand(fn *Fn, h *Fn, call *ast.CallExpr, lhs []ast.Expr, tok token.Token, mode string) (ast.Stmt, bool) {
	ci, hi := in.info(fn), in.info(h)
	sig := h.Obj.Type().(*types.Signature)
	pos := call.Pos()
	var pre []ast.Stmt
	// parameters (and the receiver): substituted by the argument where that is safe, bound by `param := arg` otherwise
	subst := map[types.Object]ast.Expr{}
	place := func(v *types.Var, arg ast.Expr) {
		if v.Name() == "" || v.Name() == "_" {
			return
		}
		if pureExpr(ci, arg) && !assignedIn(hi, h.Decl.Body, v) && stableDuring(ci, arg, hi, h.Decl.Body) {
			subst[v] = arg
			return
		}
		// x = h(x, …): a parameter the helper modifies and hands back into the variable it came from is that variable
		if mode == "assign" && tok == token.ASSIGN && pureExpr(ci, arg) {
			for _, l := range lhs {
				if Str(l) == Str(arg) {
					subst[v] = arg
					return
				}
			}
		}
		// otherwise the argument is captured at the call, in a variable that is private to this expansion site (a fresh
		// object, so that two expansions of one helper do not look like two assignments of one variable)
		nv := types.NewVar(pos, v.Pkg(), v.Name(), v.Type())
		pre = append(pre, in.bind(hi, nv, arg, pos))
		uid := &ast.Ident{NamePos: pos, Name: v.Name()}
		hi.Uses[uid] = nv
		hi.Types[uid] = types.TypeAndValue{Type: v.Type()}
		subst[v] = uid
	}
	if rv := sig.Recv(); rv != nil {
		sel, ok := ast.Unparen(call.Fun).(*ast.SelectorExpr)
		if !ok {
			return nil, false
		}
		place(rv, sel.X)
	}
	if len(call.Args) != sig.Params().Len() {
		return nil, false
	}
	for i := 0; i < sig.Params().Len(); i++ {
		place(sig.Params().At(i), call.Args[i])
	}
	// named results: they are the caller's target variables where those are plain identifiers, otherwise declared up front
	named := false
	unified := false
	for i := 0; i < sig.Results().Len(); i++ {
		if rv := sig.Results().At(i); rv.Name() != "" && rv.Name() != "_" {
			named = true
			if mode == "assign" && i < len(lhs) {
				if lid, ok := lhs[i].(*ast.Ident); ok && lid.Name != "_" {
					var lo types.Object = ci.Defs[lid]
					if lo == nil {
						lo = ci.Uses[lid]
					}
					if lo != nil {
						if tok == token.DEFINE && ci.Defs[lid] != nil {
							nid := &ast.Ident{NamePos: pos, Name: lid.Name}
							ci.Defs[nid] = lo
							pre = append(pre, &ast.DeclStmt{Decl: &ast.GenDecl{TokPos: pos, Tok: token.VAR, Specs: []ast.Spec{&ast.ValueSpec{Names: []*ast.Ident{nid}, Type: typeExprFor(ci, lo.Type(), pos)}}}})
						}
						uid := &ast.Ident{NamePos: pos, Name: lid.Name}
						ci.Uses[uid] = lo
						ci.Types[uid] = types.TypeAndValue{Type: lo.Type()}
						subst[rv] = uid
						unified = true
						continue
					}
				}
			}
			id := &ast.Ident{NamePos: pos, Name: rv.Name()}
			hi.Defs[id] = rv
			pre = append(pre, &ast.DeclStmt{Decl: &ast.GenDecl{TokPos: pos, Tok: token.VAR, Specs: []ast.Spec{&ast.ValueSpec{Names: []*ast.Ident{id}}}}})
		}
	}
	if unified && tok == token.DEFINE {
		tok = token.ASSIGN // the variables are declared above
		nl := make([]ast.Expr, len(lhs))
		for i, l := range lhs {
			nl[i] = l
			if lid, ok := l.(*ast.Ident); ok && ci.Defs[lid] != nil {
				uid := &ast.Ident{NamePos: pos, Name: lid.Name}
				ci.Uses[uid] = ci.Defs[lid]
				nl[i] = uid
			}
		}
		lhs = nl
	}
	// the helper's own helpers first
	in.depth++
	in.stack[h.Obj] = true
	hb, _ := in.block(h, h.Decl.Body)
	delete(in.stack, h.Obj)
	in.depth--
	if len(subst) > 0 {
		sb := &substituter{info: hi, m: subst}
		nb, _ := sb.block(hb)
		if sb.fail {
			return nil, false
		}
		hb = nb
	}
	var body []ast.Stmt
	switch mode {
	case "return":
		if named && hasBareReturn(hb) {
			return nil, false
		}
		body = hb.List
	default:
		// definitions (:=) whose helper returns in more than one place need the variables declared first
		target := lhs
		atok := tok
		if mode == "assign" && tok == token.DEFINE && countReturns(hb) != 1 {
			var decls []ast.Stmt
			target = nil
			for _, l := range lhs {
				id, ok := l.(*ast.Ident)
				if !ok {
					return nil, false
				}
				if id.Name == "_" {
					target = append(target, id)
					continue
				}
				if o := ci.Defs[id]; o != nil {
					nid := &ast.Ident{NamePos: pos, Name: id.Name}
					ci.Defs[nid] = o
					decls = append(decls, &ast.DeclStmt{Decl: &ast.GenDecl{TokPos: pos, Tok: token.VAR, Specs: []ast.Spec{&ast.ValueSpec{Names: []*ast.Ident{nid}, Type: typeExprFor(ci, o.Type(), pos)}}}})
					uid := &ast.Ident{NamePos: pos, Name: id.Name}
					ci.Uses[uid] = o
					target = append(target, uid)
				} else {
					target = append(target, id)
				}
			}
			pre = append(decls, pre...)
			atok = token.ASSIGN
		}
		var ok bool
		savedU := in.unified
		in.unified = map[*types.Var]ast.Expr{}
		for i := 0; i < sig.Results().Len(); i++ {
			if e, ok := subst[sig.Results().At(i)]; ok {
				in.unified[sig.Results().At(i)] = e
			}
		}
		body, ok = in.tail(hi, hb.List, true, target, atok, sig, pos)
		in.unified = savedU
		if !ok {
			return nil, false
		}
	}
	all := append(pre, body...)
	return &ast.BlockStmt{Lbrace: pos, List: all, Rbrace: call.End()}, true
}

// typeExprFor gives a syntactic type for a synthetic `var x T`; only the object matters to the rules, so a placeholder
// identifier carrying the type in types.Info is enough.
func typeExprFor(info *types.Info, t types.Type, pos token.Pos) ast.Expr {
	id := &ast.Ident{NamePos: pos, Name: "_T"}
	info.Types[id] = types.TypeAndValue{Type: t}
	return id
}

func (in *inliner) bind(hi *types.Info, v *types.Var, arg ast.Expr, pos token.Pos) ast.Stmt {
	id := &ast.Ident{NamePos: pos, Name: v.Name()}
	hi.Defs[id] = v
	return &ast.AssignStmt{Lhs: []ast.Expr{id}, TokPos: pos, Tok: token.DEFINE, Rhs: []ast.Expr{arg}}
}

func countReturns(b *ast.BlockStmt) int {
	n := 0
	ast.Inspect(b, func(x ast.Node) bool {
		switch x.(type) {
		case *ast.FuncLit:
			return false
		case *ast.ReturnStmt:
			n++
		}
		return true
	})
	return n
}

func hasBareReturn(b *ast.BlockStmt) bool {
	bare := false
	ast.Inspect(b, func(x ast.Node) bool {
		switch r := x.(type) {
		case *ast.FuncLit:
			return false
		case *ast.ReturnStmt:
			if len(r.Results) == 0 {
				bare = true
			}
		}
		return true
	})
	return bare
}

func containsReturn(n ast.Node) bool {
	found := false
	ast.Inspect(n, func(x ast.Node) bool {
		switch x.(type) {
		case *ast.FuncLit:
			return false
		case *ast.ReturnStmt:
			found = true
		}
		return !found
	})
	return found
}

func endsInReturn(b *ast.BlockStmt) bool {
	if b == nil || len(b.List) == 0 {
		return false
	}
	_, ok := b.List[len(b.List)-1].(*ast.ReturnStmt)
	return ok
}

// tail rewrites a statement list of the helper in which `return` may only occur in tail position: returns become
// assignments to lhs (or vanish when lhs is nil).
func (in *inliner) tail(hi *types.Info, list []ast.Stmt, tailPos bool, lhs []ast.Expr, tok token.Token, sig *types.Signature, pos token.Pos) ([]ast.Stmt, bool) {
	var out []ast.Stmt
	for i, st := range list {
		last := i == len(list)-1
		if !containsReturn(st) {
			out = append(out, st)
			continue
		}
		switch s := st.(type) {
		case *ast.ReturnStmt:
			if !(last && tailPos) {
				return nil, false
			}
			results := s.Results
			lhs := lhs
			if len(results) == 0 && sig.Results().Len() > 0 {
				// bare return with named results; a result that IS the caller's target variable needs no copy
				var keep []ast.Expr
				for k := 0; k < sig.Results().Len(); k++ {
					rv := sig.Results().At(k)
					if _, same := in.unified[rv]; same && len(lhs) == sig.Results().Len() {
						continue
					}
					id := &ast.Ident{NamePos: pos, Name: rv.Name()}
					hi.Uses[id] = rv
					results = append(results, id)
					if len(lhs) == sig.Results().Len() {
						keep = append(keep, lhs[k])
					}
				}
				if len(lhs) == sig.Results().Len() {
					lhs = keep
					if len(lhs) == 0 {
						continue
					}
				}
			}
			if len(lhs) > 0 {
				if len(results) == 1 && len(lhs) > 1 {
					// return f() forwarding several values
					out = append(out, &ast.AssignStmt{Lhs: lhs, TokPos: pos, Tok: tok, Rhs: results})
				} else if len(results) == len(lhs) {
					out = append(out, &ast.AssignStmt{Lhs: lhs, TokPos: pos, Tok: tok, Rhs: results})
				} else {
					return nil, false
				}
			} else {
				// results dropped: keep calls for their effects
				for _, r := range results {
					if _, isCall := ast.Unparen(r).(*ast.CallExpr); isCall {
						out = append(out, &ast.ExprStmt{X: r})
					}
				}
			}
		case *ast.BlockStmt:
			l, ok := in.tail(hi, s.List, last && tailPos, lhs, tok, sig, pos)
			if !ok {
				return nil, false
			}
			out = append(out, &ast.BlockStmt{Lbrace: s.Lbrace, List: l, Rbrace: s.Rbrace})
		case *ast.IfStmt:
			if last && tailPos {
				cp, ok := in.tailIf(hi, s, lhs, tok, sig, pos)
				if !ok {
					return nil, false
				}
				out = append(out, cp)
				continue
			}
			// guard clause: if c { …; return }  rest…   ==>   if c { … } else { rest… }
			if s.Else == nil && endsInReturn(s.Body) && tailPos && !containsReturnInNonTail(s.Body) {
				thenL, ok := in.tail(hi, s.Body.List, true, lhs, tok, sig, pos)
				if !ok {
					return nil, false
				}
				restL, ok := in.tail(hi, list[i+1:], true, lhs, tok, sig, pos)
				if !ok {
					return nil, false
				}
				cp := *s
				cp.Body = &ast.BlockStmt{Lbrace: s.Body.Lbrace, List: thenL, Rbrace: s.Body.Rbrace}
				cp.Else = &ast.BlockStmt{Lbrace: s.End(), List: restL, Rbrace: s.End()}
				out = append(out, &cp)
				return out, true
			}
			return nil, false
		case *ast.SwitchStmt:
			if !(last && tailPos) {
				return nil, false
			}
			nb := &ast.BlockStmt{Lbrace: s.Body.Lbrace, Rbrace: s.Body.Rbrace}
			for _, c := range s.Body.List {
				cc := c.(*ast.CaseClause)
				l, ok := in.tail(hi, cc.Body, true, lhs, tok, sig, pos)
				if !ok {
					return nil, false
				}
				ncc := *cc
				ncc.Body = l
				nb.List = append(nb.List, &ncc)
			}
			cp := *s
			cp.Body = nb
			out = append(out, &cp)
		default:
			return nil, false // return inside a loop, select, type switch …
		}
	}
	return out, true
}

func containsReturnInNonTail(b *ast.BlockStmt) bool {
	for i, st := range b.List {
		if i == len(b.List)-1 {
			continue
		}
		if containsReturn(st) {
			return true
		}
	}
	return false
}

func (in *inliner) tailIf(hi *types.Info, s *ast.IfStmt, lhs []ast.Expr, tok token.Token, sig *types.Signature, pos token.Pos) (ast.Stmt, bool) {
	cp := *s
	l, ok := in.tail(hi, s.Body.List, true, lhs, tok, sig, pos)
	if !ok {
		return nil, false
	}
	cp.Body = &ast.BlockStmt{Lbrace: s.Body.Lbrace, List: l, Rbrace: s.Body.Rbrace}
	switch e := s.Else.(type) {
	case nil:
	case *ast.BlockStmt:
		l, ok := in.tail(hi, e.List, true, lhs, tok, sig, pos)
		if !ok {
			return nil, false
		}
		cp.Else = &ast.BlockStmt{Lbrace: e.Lbrace, List: l, Rbrace: e.Rbrace}
	case *ast.IfStmt:
		ne, ok := in.tailIf(hi, e, lhs, tok, sig, pos)
		if !ok {
			return nil, false
		}
		cp.Else = ne
	}
	return &cp, true
}

// hoist: if expression e (part of statement / node owner) contains, as itself or as a direct or nested call argument, a
// call of an expandable helper with exactly one result, the call is replaced by a fresh temporary and the statements that
// compute the temporary are returned. owner is returned as a shallow copy along the path to the replaced call.
func (in *inliner) hoist(fn *Fn, owner ast.Node, e ast.Expr) ([]ast.Stmt, ast.Node, bool) {
	info := in.info(fn)
	var call *ast.CallExpr
	var h *Fn
	Walk(e, false, func(x ast.Node) bool {
		if call != nil {
			return false
		}
		if c, ok := x.(*ast.CallExpr); ok {
			if t := in.target(fn, c); t != nil && t.Obj.Type().(*types.Signature).Results().Len() == 1 {
				call, h = c, t
				return false
			}
		}
		return true
	})
	if call == nil {
		return nil, nil, false
	}
	if owner == ast.Node(call) {
		return nil, nil, false
	}
	in.ntmp++
	rt := h.Obj.Type().(*types.Signature).Results().At(0).Type()
	tv := types.NewVar(call.Pos(), fn.Pkg.Types, "inl_"+h.Obj.Name(), rt)
	def := &ast.Ident{NamePos: call.Pos(), Name: tv.Name()}
	info.Defs[def] = tv
	use := &ast.Ident{NamePos: call.Pos(), Name: tv.Name()}
	info.Uses[use] = tv
	info.Types[use] = types.TypeAndValue{Type: rt}
	body, ok := in.expand(fn, h, call, []ast.Expr{def}, token.DEFINE, "assign")
	if !ok {
		return nil, nil, false
	}
	no, ok := replaceNode(info, owner, call, use)
	if !ok {
		return nil, nil, false
	}
	return body.(*ast.BlockStmt).List, no, true
}

// replaceNode returns a copy of root in which target is replaced by repl, copying only the nodes on the path.
func replaceNode(info *types.Info, root ast.Node, target ast.Expr, repl ast.Expr) (ast.Node, bool) {
	path := PathTo(root, target)
	if len(path) == 0 {
		return nil, false
	}
	var cur ast.Node = repl
	old := ast.Node(target)
	for i := len(path) - 2; i >= 0; i-- {
		par := path[i]
		var cp ast.Node
		re := func(e ast.Expr) ast.Expr {
			if ast.Node(e) == old {
				return cur.(ast.Expr)
			}
			return e
		}
		reList := func(l []ast.Expr) []ast.Expr {
			out := make([]ast.Expr, len(l))
			for k, e := range l {
				out[k] = re(e)
			}
			return out
		}
		switch x := par.(type) {
		case *ast.CallExpr:
			c := *x
			c.Fun, c.Args = re(x.Fun), reList(x.Args)
			cp = &c
		case *ast.ParenExpr:
			c := *x
			c.X = re(x.X)
			cp = &c
		case *ast.UnaryExpr:
			c := *x
			c.X = re(x.X)
			cp = &c
		case *ast.StarExpr:
			c := *x
			c.X = re(x.X)
			cp = &c
		case *ast.BinaryExpr:
			c := *x
			c.X, c.Y = re(x.X), re(x.Y)
			cp = &c
		case *ast.SelectorExpr:
			c := *x
			c.X = re(x.X)
			cp = &c
		case *ast.IndexExpr:
			c := *x
			c.X, c.Index = re(x.X), re(x.Index)
			cp = &c
		case *ast.SliceExpr:
			c := *x
			c.X = re(x.X)
			if x.Low != nil {
				c.Low = re(x.Low)
			}
			if x.High != nil {
				c.High = re(x.High)
			}
			cp = &c
		case *ast.KeyValueExpr:
			c := *x
			c.Value = re(x.Value)
			cp = &c
		case *ast.CompositeLit:
			c := *x
			c.Elts = reList(x.Elts)
			cp = &c
		case *ast.ExprStmt:
			c := *x
			c.X = re(x.X)
			cp = &c
		case *ast.AssignStmt:
			c := *x
			c.Rhs = reList(x.Rhs)
			cp = &c
		case *ast.ReturnStmt:
			c := *x
			c.Results = reList(x.Results)
			cp = &c
		case *ast.SendStmt:
			c := *x
			c.Value = re(x.Value)
			cp = &c
		case *ast.IfStmt:
			c := *x
			c.Cond = re(x.Cond)
			cp = &c
		default:
			return nil, false
		}
		if oe, ok := par.(ast.Expr); ok {
			if tv, has := info.Types[oe]; has {
				info.Types[cp.(ast.Expr)] = tv
			}
			if sel, ok := par.(*ast.SelectorExpr); ok {
				if s, has := info.Selections[sel]; has {
					info.Selections[cp.(*ast.SelectorExpr)] = s
				}
			}
		}
		old, cur = par, cp
	}
	return cur, true
}
