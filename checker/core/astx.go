package core

import (
	"go/ast"
	"go/constant"
	"go/token"
	"go/types"
	"strings"

	"golang.org/x/tools/go/types/typeutil"
)

// Callee resolves the called function / method / builtin of a call (nil for
// calls of function values and conversions).
func Callee(info *types.Info, call *ast.CallExpr) types.Object {
	return typeutil.Callee(info, call)
}

// ObjName renders a function object as "pkgpath.Func" or "pkgpath.Type.Method"
// (module prefix stripped, pointer receivers not distinguished).
func ObjName(o types.Object) string {
	if o == nil {
		return ""
	}
	if _, ok := o.(*types.Builtin); ok {
		return "builtin." + o.Name()
	}
	f, ok := o.(*types.Func)
	if !ok {
		if o.Pkg() != nil {
			return RelPkg(o.Pkg().Path()) + "." + o.Name()
		}
		return o.Name()
	}
	sig := f.Type().(*types.Signature)
	if r := sig.Recv(); r != nil {
		t := r.Type()
		if p, ok := t.(*types.Pointer); ok {
			t = p.Elem()
		}
		if n, ok := t.(*types.Named); ok {
			pk := ""
			if n.Obj().Pkg() != nil {
				pk = RelPkg(n.Obj().Pkg().Path()) + "."
			}
			return pk + n.Obj().Name() + "." + f.Name()
		}
		if a, ok := t.(*types.Alias); ok {
			return a.Obj().Name() + "." + f.Name()
		}
		return "?." + f.Name()
	}
	if f.Pkg() != nil {
		return RelPkg(f.Pkg().Path()) + "." + f.Name()
	}
	return f.Name()
}

// CallName is ObjName(Callee(call)); "" if unresolved.
func CallName(info *types.Info, call *ast.CallExpr) string {
	return ObjName(Callee(info, call))
}

// IsCall reports whether n is a call whose callee name equals one of names.
func IsCall(info *types.Info, n ast.Node, names ...string) (*ast.CallExpr, bool) {
	call, ok := n.(*ast.CallExpr)
	if !ok {
		return nil, false
	}
	cn := CallName(info, call)
	for _, x := range names {
		if cn == x {
			return call, true
		}
	}
	return call, false
}

// MethodCall returns (receiver expression, method name) for x.M(...) calls on values.
func MethodCall(info *types.Info, call *ast.CallExpr) (ast.Expr, string) {
	sel, ok := ast.Unparen(call.Fun).(*ast.SelectorExpr)
	if !ok {
		return nil, ""
	}
	if s, ok := info.Selections[sel]; ok && s.Kind() == types.MethodVal {
		return sel.X, sel.Sel.Name
	}
	return nil, ""
}

// Str renders an expression.
func Str(e ast.Expr) string {
	if e == nil {
		return ""
	}
	return types.ExprString(e)
}

// Walk visits n's subtree; closures (FuncLit bodies) are skipped unless into is true.
func Walk(n ast.Node, into bool, f func(ast.Node) bool) {
	if n == nil {
		return
	}
	ast.Inspect(n, func(x ast.Node) bool {
		if x == nil {
			return false
		}
		if _, ok := x.(*ast.FuncLit); ok && !into && x != n {
			return false
		}
		return f(x)
	})
}

// Calls lists the calls in n's subtree (outside closures) in source order.
func Calls(n ast.Node, into bool) []*ast.CallExpr {
	var out []*ast.CallExpr
	Walk(n, into, func(x ast.Node) bool {
		if c, ok := x.(*ast.CallExpr); ok {
			out = append(out, c)
		}
		return true
	})
	return out
}

// FieldObj looks up field fname of struct type tname in package rel.
func (p *Prog) FieldObj(rel, tname, fname string) *types.Var {
	n := p.Type(rel, tname)
	if n == nil {
		return nil
	}
	st, ok := n.Underlying().(*types.Struct)
	if !ok {
		return nil
	}
	for i := 0; i < st.NumFields(); i++ {
		if st.Field(i).Name() == fname {
			return st.Field(i)
		}
	}
	return nil
}

// SelField returns the field object selected by e (x.f), or nil.
func SelField(info *types.Info, e ast.Expr) *types.Var {
	sel, ok := ast.Unparen(e).(*ast.SelectorExpr)
	if !ok {
		return nil
	}
	if v, ok := info.Uses[sel.Sel].(*types.Var); ok && v.IsField() {
		return v
	}
	return nil
}

// MentionsField reports whether e's subtree selects the given field object.
func MentionsField(info *types.Info, n ast.Node, f *types.Var) bool {
	found := false
	Walk(n, true, func(x ast.Node) bool {
		if id, ok := x.(*ast.Ident); ok && info.Uses[id] == f {
			found = true
		}
		return !found
	})
	return found
}

// MentionsObj reports whether n's subtree uses or defines object o.
func MentionsObj(info *types.Info, n ast.Node, o types.Object) bool {
	found := false
	Walk(n, true, func(x ast.Node) bool {
		if id, ok := x.(*ast.Ident); ok && (info.Uses[id] == o || info.Defs[id] == o) {
			found = true
		}
		return !found
	})
	return found
}

// ConstInt evaluates e as a constant integer through the type checker.
func ConstInt(info *types.Info, e ast.Expr) (int64, bool) {
	tv, ok := info.Types[e]
	if !ok || tv.Value == nil {
		return 0, false
	}
	v := constant.ToInt(tv.Value)
	if v.Kind() != constant.Int {
		return 0, false
	}
	i, exact := constant.Int64Val(v)
	return i, exact
}

// ConstStr evaluates e as a constant string.
func ConstStr(info *types.Info, e ast.Expr) (string, bool) {
	tv, ok := info.Types[e]
	if !ok || tv.Value == nil || tv.Value.Kind() != constant.String {
		return "", false
	}
	return constant.StringVal(tv.Value), true
}

// IsNil reports whether e is the predeclared nil.
func IsNil(info *types.Info, e ast.Expr) bool {
	id, ok := ast.Unparen(e).(*ast.Ident)
	if !ok {
		return false
	}
	_, isNil := info.Uses[id].(*types.Nil)
	return isNil
}

// ObjOf returns the object an identifier expression refers to.
func ObjOf(info *types.Info, e ast.Expr) types.Object {
	id, ok := ast.Unparen(e).(*ast.Ident)
	if !ok {
		return nil
	}
	if o := info.Uses[id]; o != nil {
		return o
	}
	return info.Defs[id]
}

// NamedOf returns the named type behind t (through pointers), or nil.
func NamedOf(t types.Type) *types.Named {
	for {
		switch x := t.(type) {
		case *types.Pointer:
			t = x.Elem()
		case *types.Alias:
			t = types.Unalias(x)
		case *types.Named:
			return x
		default:
			return nil
		}
	}
}

// TypeName renders the named type behind t as "relpkg.Name".
func TypeName(t types.Type) string {
	n := NamedOf(t)
	if n == nil {
		return t.String()
	}
	if n.Obj().Pkg() == nil {
		return n.Obj().Name()
	}
	return RelPkg(n.Obj().Pkg().Path()) + "." + n.Obj().Name()
}

// IsErrorType reports whether t is the predeclared error interface.
func IsErrorType(t types.Type) bool {
	return types.Identical(t, types.Universe.Lookup("error").Type())
}

// BinOp matches a binary expression with operator op.
func BinOp(e ast.Expr, ops ...token.Token) (*ast.BinaryExpr, bool) {
	b, ok := ast.Unparen(e).(*ast.BinaryExpr)
	if !ok {
		return nil, false
	}
	for _, o := range ops {
		if b.Op == o {
			return b, true
		}
	}
	return b, false
}

// Conjuncts splits e on && (or on || when or is true).
func Conjuncts(e ast.Expr, or bool) []ast.Expr {
	op := token.LAND
	if or {
		op = token.LOR
	}
	if b, ok := ast.Unparen(e).(*ast.BinaryExpr); ok && b.Op == op {
		return append(Conjuncts(b.X, or), Conjuncts(b.Y, or)...)
	}
	return []ast.Expr{ast.Unparen(e)}
}

// HasSuffixAny reports whether s ends with one of the suffixes.
func HasSuffixAny(s string, suf ...string) bool {
	for _, x := range suf {
		if strings.HasSuffix(s, x) {
			return true
		}
	}
	return false
}

// EnclosingStmtList finds the statement list that directly contains stmt s
// within root, returning the list and s's index (nil, -1 if not found).
func EnclosingStmtList(root ast.Node, s ast.Stmt) ([]ast.Stmt, int) {
	var rl []ast.Stmt
	ri := -1
	ast.Inspect(root, func(n ast.Node) bool {
		if ri >= 0 || n == nil {
			return false
		}
		var list []ast.Stmt
		switch x := n.(type) {
		case *ast.BlockStmt:
			list = x.List
		case *ast.CaseClause:
			list = x.Body
		case *ast.CommClause:
			list = x.Body
		}
		for i, st := range list {
			if st == s {
				rl, ri = list, i
				return false
			}
		}
		return true
	})
	return rl, ri
}

// PathTo returns the chain of AST nodes from root down to target (inclusive).
func PathTo(root, target ast.Node) []ast.Node {
	var path, out []ast.Node
	ast.Inspect(root, func(n ast.Node) bool {
		if out != nil {
			return false
		}
		if n == nil {
			path = path[:len(path)-1]
			return false
		}
		path = append(path, n)
		if n == target {
			out = append([]ast.Node(nil), path...)
			return false
		}
		return true
	})
	return out
}
