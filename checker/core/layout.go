package core

import (
	"go/ast"
	"go/token"
	"go/types"
	"strings"
)

// Access is one fixed-offset access to a packed byte buffer.
type Access struct {
	Node   ast.Node // the index / slice expression
	Base   string   // "" for absolute offsets, else the single non-constant term of the index
	Off    int64    // constant part of the offset
	Width  int64    // bytes touched
	Write  bool
	Value  ast.Expr // for writes: the value stored (nil for copy destinations: see Src)
	Src    ast.Expr // for copy(dst=buf[..], src): the source expression
	Ctx    ast.Node // for reads: the outermost expression the loaded value flows into without arithmetic (conversion chain)
	Decl   int64    // width implied by the accessor function (PutUint32 -> 4), 0 if none
	Undec  string   // non-empty if the index could not be decomposed
	InCond bool
}

// SplitIndex decomposes an integer expression into (single non-constant term, constant sum).
func SplitIndex(info *types.Info, e ast.Expr) (base string, off int64, ok bool) {
	var terms []ast.Expr
	var flat func(e ast.Expr) bool
	flat = func(e ast.Expr) bool {
		e = ast.Unparen(e)
		if b, isBin := e.(*ast.BinaryExpr); isBin && b.Op == token.ADD {
			return flat(b.X) && flat(b.Y)
		}
		terms = append(terms, e)
		return true
	}
	flat(e)
	n := 0
	for _, t := range terms {
		if c, isC := ConstInt(info, t); isC {
			off += c
			continue
		}
		// conversions of constants / idents: int(x)
		n++
		base = Str(t)
	}
	if n > 1 {
		return "", 0, false
	}
	return base, off, true
}

// Layout extracts all accesses to the buffer identified by isBuf within root.
func Layout(info *types.Info, root ast.Node, isBuf func(ast.Expr) bool) []Access {
	var out []Access
	sizes := types.SizesFor("gc", "amd64")
	parents := map[ast.Node]ast.Node{}
	var stack []ast.Node
	ast.Inspect(root, func(n ast.Node) bool {
		if n == nil {
			stack = stack[:len(stack)-1]
			return false
		}
		if len(stack) > 0 {
			parents[n] = stack[len(stack)-1]
		}
		stack = append(stack, n)
		return true
	})
	isAssignLHS := func(e ast.Node) (*ast.AssignStmt, int) {
		p := parents[e]
		for {
			if pe, ok := p.(*ast.ParenExpr); ok {
				e, p = pe, parents[pe]
				continue
			}
			break
		}
		if a, ok := p.(*ast.AssignStmt); ok {
			for i, l := range a.Lhs {
				if l == e {
					return a, i
				}
			}
		}
		return nil, -1
	}
	ast.Inspect(root, func(n ast.Node) bool {
		switch x := n.(type) {
		case *ast.SliceExpr:
			if !isBuf(x.X) {
				return true
			}
			a := Access{Node: x}
			var lb, hb string
			var lo, hi int64
			okl, okh := true, true
			if x.Low != nil {
				lb, lo, okl = SplitIndex(info, x.Low)
			}
			if x.High != nil {
				hb, hi, okh = SplitIndex(info, x.High)
			} else {
				okh = false
			}
			if !okl || !okh || lb != hb {
				a.Undec = "slice bounds " + Str(x) + " are not base+const with a common base"
				out = append(out, a)
				return true
			}
			a.Base, a.Off, a.Width = lb, lo, hi-lo
			// context
			if call, ok := parents[x].(*ast.CallExpr); ok {
				name := CallName(info, call)
				switch {
				case strings.HasPrefix(name, "encoding/binary.bigEndian.PutUint") || strings.HasPrefix(name, "encoding/binary.littleEndian.PutUint") || strings.HasPrefix(name, "encoding/binary.ByteOrder.PutUint"):
					a.Write = true
					a.Decl = declWidth(name)
					if len(call.Args) == 2 {
						a.Value = call.Args[1]
					}
				case strings.HasPrefix(name, "encoding/binary.bigEndian.Uint") || strings.HasPrefix(name, "encoding/binary.littleEndian.Uint") || strings.HasPrefix(name, "encoding/binary.ByteOrder.Uint"):
					a.Decl = declWidth(name)
					a.Ctx = flowTop(info, parents, call)
				case name == "builtin.copy" && len(call.Args) == 2 && call.Args[0] == ast.Expr(x):
					a.Write = true
					a.Src = call.Args[1]
				default:
					a.Ctx = flowTop(info, parents, x)
				}
			} else {
				a.Ctx = flowTop(info, parents, x)
			}
			out = append(out, a)
			return true
		case *ast.IndexExpr:
			if !isBuf(x.X) {
				return true
			}
			a := Access{Node: x, Width: 1}
			b, off, ok := SplitIndex(info, x.Index)
			if !ok {
				a.Undec = "index " + Str(x) + " is not base+const"
				out = append(out, a)
				return true
			}
			a.Base, a.Off = b, off
			// &buf[i] under unsafe cast?
			var top ast.Node = x
			if u, ok := parents[x].(*ast.UnaryExpr); ok && u.Op == token.AND {
				// (*T)(unsafe.Pointer(&buf[i]))
				if c1, ok := parents[u].(*ast.CallExpr); ok {
					if c2, ok := parents[c1].(*ast.CallExpr); ok {
						if tv, ok := info.Types[c2.Fun]; ok && tv.IsType() {
							if pt, ok := tv.Type.Underlying().(*types.Pointer); ok {
								a.Width = sizes.Sizeof(pt.Elem())
								top = c2
								if st, ok := parents[c2].(*ast.StarExpr); ok {
									top = st
								}
							}
						}
					}
				}
				if top == ast.Node(x) {
					a.Undec = "address of " + Str(x) + " taken in an unrecognised way"
				}
			}
			if asg, i := isAssignLHS(top); asg != nil {
				a.Write = true
				if len(asg.Rhs) == len(asg.Lhs) {
					a.Value = asg.Rhs[i]
				}
			} else {
				a.Ctx = flowTop(info, parents, top)
			}
			out = append(out, a)
			return true
		}
		return true
	})
	return out
}

func declWidth(name string) int64 {
	switch {
	case strings.HasSuffix(name, "Uint64"):
		return 8
	case strings.HasSuffix(name, "Uint32"):
		return 4
	case strings.HasSuffix(name, "Uint16"):
		return 2
	}
	return 0
}

// flowTop climbs through parens and type conversions and returns the outermost such expression.
func flowTop(info *types.Info, parents map[ast.Node]ast.Node, n ast.Node) ast.Node {
	for {
		p := parents[n]
		switch x := p.(type) {
		case *ast.ParenExpr:
			n = x
			continue
		case *ast.CallExpr:
			if tv, ok := info.Types[x.Fun]; ok && tv.IsType() && len(x.Args) == 1 {
				n = x
				continue
			}
		}
		return n
	}
}

// Parents builds a child->parent map for root's subtree.
func Parents(root ast.Node) map[ast.Node]ast.Node {
	parents := map[ast.Node]ast.Node{}
	var stack []ast.Node
	ast.Inspect(root, func(n ast.Node) bool {
		if n == nil {
			stack = stack[:len(stack)-1]
			return false
		}
		if len(stack) > 0 {
			parents[n] = stack[len(stack)-1]
		}
		stack = append(stack, n)
		return true
	})
	return parents
}
