package core

import (
	"go/ast"
	"go/token"
	"go/types"

	"golang.org/x/tools/go/cfg"
)

// Graph is a statement-level control-flow graph of one function body
// (closures are separate graphs). Node 0 is ENTRY, node 1 is EXIT.
type Graph struct {
	Info  *types.Info
	Body  *ast.BlockStmt
	CFG   *cfg.CFG
	Nodes []ast.Node // nil for synthetic nodes
	Succ  [][]int
	Pred  [][]int
	blk   []int // first graph node of each block
	Defer []*ast.DeferStmt
}

// Entry and Exit are the synthetic node ids.
const (
	Entry = 0
	Exit  = 1
)

var noReturn = map[string]bool{
	"builtin.panic": true, "os.Exit": true, "log.Fatal": true, "log.Fatalf": true, "log.Fatalln": true,
	"log.Panic": true, "log.Panicf": true, "runtime.Goexit": true,
}

// NewGraph builds the graph for a function body.
func NewGraph(info *types.Info, body *ast.BlockStmt) *Graph {
	g := &Graph{Info: info, Body: body}
	g.CFG = cfg.New(body, func(c *ast.CallExpr) bool { return !noReturn[CallName(info, c)] })
	g.Nodes = []ast.Node{nil, nil}
	g.Succ = [][]int{nil, nil}
	g.blk = make([]int, len(g.CFG.Blocks))
	last := make([]int, len(g.CFG.Blocks))
	for i, b := range g.CFG.Blocks {
		// synthetic block-entry node
		id := len(g.Nodes)
		g.Nodes = append(g.Nodes, nil)
		g.Succ = append(g.Succ, nil)
		g.blk[i] = id
		prev := id
		for _, n := range b.Nodes {
			nid := len(g.Nodes)
			// go/cfg appends a synthetic `return` at the closing brace of bodies that fall off their end
			if rs, ok := n.(*ast.ReturnStmt); ok && len(rs.Results) == 0 && rs.Return == body.End()-1 {
				n = nil
			}
			g.Nodes = append(g.Nodes, n)
			g.Succ = append(g.Succ, nil)
			g.Succ[prev] = append(g.Succ[prev], nid)
			prev = nid
			if d, ok := n.(*ast.DeferStmt); ok {
				g.Defer = append(g.Defer, d)
			}
		}
		last[i] = prev
	}
	for i, b := range g.CFG.Blocks {
		if !b.Live {
			continue
		}
		if len(b.Succs) == 0 {
			g.Succ[last[i]] = append(g.Succ[last[i]], Exit)
			continue
		}
		for _, s := range b.Succs {
			g.Succ[last[i]] = append(g.Succ[last[i]], g.blk[s.Index])
		}
	}
	if len(g.CFG.Blocks) > 0 {
		g.Succ[Entry] = []int{g.blk[0]}
	} else {
		g.Succ[Entry] = []int{Exit}
	}
	g.Pred = make([][]int, len(g.Nodes))
	for a, ss := range g.Succ {
		for _, b := range ss {
			g.Pred[b] = append(g.Pred[b], a)
		}
	}
	return g
}

// GraphOf builds the graph of a declared function.
func GraphOf(f *Fn) *Graph { return NewGraph(f.Info(), f.Decl.Body) }

// Find returns the graph nodes whose own AST (closures and deferred calls
// excluded) contains a node satisfying pred.
func (g *Graph) Find(pred func(ast.Node) bool) []int {
	var out []int
	for id, n := range g.Nodes {
		if n == nil {
			continue
		}
		if _, ok := n.(*ast.DeferStmt); ok {
			continue
		}
		hit := false
		Walk(n, false, func(x ast.Node) bool {
			if _, isGo := x.(*ast.GoStmt); isGo {
				return false
			}
			if pred(x) {
				hit = true
			}
			return !hit
		})
		if hit {
			out = append(out, id)
		}
	}
	return out
}

// FindCalls returns nodes containing a call to one of the named callees.
func (g *Graph) FindCalls(names ...string) []int {
	return g.Find(func(n ast.Node) bool {
		_, ok := IsCall(g.Info, n, names...)
		return ok
	})
}

// Returns lists the nodes that are return statements.
func (g *Graph) Returns() []int {
	var out []int
	for id, n := range g.Nodes {
		if _, ok := n.(*ast.ReturnStmt); ok && g.Live(id) {
			out = append(out, id)
		}
	}
	return out
}

// Live reports whether node id is reachable from entry.
func (g *Graph) Live(id int) bool { return g.Reach(Entry, id, nil) }

// Reach reports whether a path from a to b exists that does not pass through a
// node in avoid (a and b themselves are not subject to avoid; a path of length
// zero counts only if a == b).
func (g *Graph) Reach(a, b int, avoid map[int]bool) bool {
	if a == b {
		return true
	}
	seen := make([]bool, len(g.Nodes))
	stack := []int{a}
	seen[a] = true
	for len(stack) > 0 {
		n := stack[len(stack)-1]
		stack = stack[:len(stack)-1]
		for _, s := range g.Succ[n] {
			if s == b {
				return true
			}
			if seen[s] || avoid[s] {
				continue
			}
			seen[s] = true
			stack = append(stack, s)
		}
	}
	return false
}

// ReachStrict is Reach but requires at least one edge (so a loop back to a counts).
func (g *Graph) ReachStrict(a, b int, avoid map[int]bool) bool {
	for _, s := range g.Succ[a] {
		if s == b {
			return true
		}
		if avoid[s] {
			continue
		}
		if g.Reach(s, b, avoid) {
			return true
		}
	}
	return false
}

// Set builds a node set.
func Set(ids ...[]int) map[int]bool {
	m := map[int]bool{}
	for _, l := range ids {
		for _, i := range l {
			m[i] = true
		}
	}
	return m
}

// AllPathsThrough reports whether every path from a to b passes through a node of via.
func (g *Graph) AllPathsThrough(a, b int, via map[int]bool) bool {
	if via[a] || via[b] {
		return true
	}
	return !g.Reach(a, b, via)
}

// Dominated reports whether every path from entry to b passes through a node of via.
func (g *Graph) Dominated(b int, via map[int]bool) bool { return g.AllPathsThrough(Entry, b, via) }

// NodeOf returns the graph node whose AST contains target (closures excluded), or -1.
func (g *Graph) NodeOf(target ast.Node) int {
	for id, n := range g.Nodes {
		if n == nil {
			continue
		}
		if n.Pos() <= target.Pos() && target.End() <= n.End() {
			found := false
			Walk(n, false, func(x ast.Node) bool {
				if x == target {
					found = true
				}
				return !found
			})
			if found {
				return id
			}
		}
	}
	return -1
}

// CondEdges: for a node that is the condition of an if statement, returns the
// first node of the then-branch and of the else/fallthrough branch.
// go/cfg puts the condition last in its block with Succs[0]=then, Succs[1]=else.
func (g *Graph) CondEdges(id int) (thenN, elseN int, ok bool) {
	if len(g.Succ[id]) != 2 {
		return 0, 0, false
	}
	return g.Succ[id][0], g.Succ[id][1], true
}

// ErrUse classifies what happens to the error result of a call.
type ErrUse int

// Error-result dispositions.
const (
	ErrNone        ErrUse = iota // callee returns no error
	ErrReturned                  // part of a return statement
	ErrChecked                   // assigned to a variable that is tested against nil before any reassignment, non-nil branch leaves
	ErrCheckedSoft               // tested, but the non-nil branch continues (logs, sets flag)
	ErrDiscarded                 // assigned to _ or expression statement
	ErrDeferred                  // inside defer
	ErrUnknown                   // passed along in a way this rule does not follow
)

// ErrDisposition determines how the error returned by call is treated in fn body.
func ErrDisposition(info *types.Info, body *ast.BlockStmt, call *ast.CallExpr) (ErrUse, string) {
	tv, ok := info.Types[call]
	if !ok {
		return ErrUnknown, "untyped call"
	}
	errIdx := -1
	n := 1
	switch t := tv.Type.(type) {
	case *types.Tuple:
		n = t.Len()
		for i := 0; i < t.Len(); i++ {
			if IsErrorType(t.At(i).Type()) {
				errIdx = i
			}
		}
	default:
		if IsErrorType(tv.Type) {
			errIdx = 0
		}
	}
	if errIdx < 0 {
		return ErrNone, ""
	}
	path := PathTo(body, call)
	if path == nil {
		return ErrUnknown, "call not in body"
	}
	// find nearest enclosing statement
	var stmt ast.Stmt
	si := -1
	for i := len(path) - 1; i >= 0; i-- {
		if s, ok := path[i].(ast.Stmt); ok {
			stmt, si = s, i
			break
		}
	}
	for i := 0; i < si; i++ {
		if _, ok := path[i].(*ast.DeferStmt); ok {
			return ErrDeferred, ""
		}
		if _, ok := path[i].(*ast.FuncLit); ok {
			// evaluate relative to the closure body instead
			fl := path[i].(*ast.FuncLit)
			_ = fl
		}
	}
	switch s := stmt.(type) {
	case *ast.ReturnStmt:
		return ErrReturned, ""
	case *ast.ExprStmt:
		return ErrDiscarded, "result not used"
	case *ast.DeferStmt:
		return ErrDeferred, ""
	case *ast.GoStmt:
		return ErrDiscarded, "go statement"
	case *ast.AssignStmt:
		// locate LHS receiving the error
		var lhs ast.Expr
		if len(s.Rhs) == 1 && ast.Unparen(s.Rhs[0]) == call && len(s.Lhs) == n {
			lhs = s.Lhs[errIdx]
		} else {
			for i, r := range s.Rhs {
				if ast.Unparen(r) == call && i < len(s.Lhs) {
					lhs = s.Lhs[i]
				}
			}
		}
		if lhs == nil {
			return ErrUnknown, "call nested in assignment"
		}
		if id, ok := lhs.(*ast.Ident); ok && id.Name == "_" {
			return ErrDiscarded, "assigned to _"
		}
		obj := ObjOf(info, lhs)
		if obj == nil {
			return ErrUnknown, "error stored in " + Str(lhs)
		}
		return errVarChecked(info, body, s, obj)
	case *ast.IfStmt:
		// call directly in the condition: if f() != nil
		return ErrChecked, ""
	}
	if vs, ok := path[si].(*ast.DeclStmt); ok {
		_ = vs
	}
	return ErrUnknown, "unsupported statement form"
}

var graphCache = map[*ast.BlockStmt]*Graph{}

func graphFor(info *types.Info, body *ast.BlockStmt) *Graph {
	if g, ok := graphCache[body]; ok {
		return g
	}
	g := NewGraph(info, body)
	graphCache[body] = g
	return g
}

// errVarChecked follows the control flow from the assignment: on every path the first node that
// mentions obj must test it against nil (or return it) before it is overwritten or forgotten.
func errVarChecked(info *types.Info, body *ast.BlockStmt, asg *ast.AssignStmt, obj types.Object) (ErrUse, string) {
	// the innermost function body containing the assignment
	for _, n := range PathTo(body, asg) {
		if fl, ok := n.(*ast.FuncLit); ok {
			body = fl.Body
		}
	}
	g := graphFor(info, body)
	start := g.NodeOf(asg)
	if start < 0 {
		return ErrUnknown, "assignment not found in the control-flow graph"
	}
	worst := ErrChecked
	why := ""
	rank := func(u ErrUse) int {
		switch u {
		case ErrChecked, ErrReturned:
			return 0
		case ErrCheckedSoft:
			return 1
		case ErrUnknown:
			return 2
		}
		return 3
	}
	note := func(u ErrUse, w string) {
		if rank(u) > rank(worst) {
			worst, why = u, w
		}
	}
	isNamedResult := false
	if v, ok := obj.(*types.Var); ok {
		isNamedResult = isResultVar(info, v)
	}
	seen := map[int]bool{}
	var visit func(n int)
	visit = func(n int) {
		if seen[n] {
			return
		}
		seen[n] = true
		if n == Exit {
			if !isNamedResult {
				note(ErrDiscarded, "error variable "+obj.Name()+" is never looked at on some path to the function exit")
			}
			return
		}
		node := g.Nodes[n]
		if node != nil && n != start && MentionsObj(info, node, obj) {
			switch x := node.(type) {
			case *ast.ReturnStmt:
				note(ErrReturned, "")
			case *ast.AssignStmt:
				reads := false
				for _, r := range x.Rhs {
					if MentionsObj(info, r, obj) {
						reads = true
					}
				}
				if !reads {
					note(ErrDiscarded, "error variable "+obj.Name()+" is overwritten before it is tested")
				} else {
					note(ErrCheckedSoft, "error flows into "+Str(x.Lhs[0]))
				}
			case ast.Expr:
				if len(g.Succ[n]) == 2 {
					hard := false
					for _, d := range Conjuncts(x, true) {
						if b, ok := BinOp(d, token.NEQ); ok && ObjOf(info, b.X) == obj && IsNil(info, b.Y) {
							// hard if the error branch cannot rejoin the success branch
							if !g.Reach(g.Succ[n][0], g.Succ[n][1], nil) {
								hard = true
							}
						}
					}
					if hard {
						note(ErrChecked, "")
					} else {
						note(ErrCheckedSoft, "tested, but execution continues on the error branch")
					}
				} else {
					note(ErrCheckedSoft, "used in an expression")
				}
			default:
				note(ErrCheckedSoft, "used")
			}
			return
		}
		for _, s := range g.Succ[n] {
			visit(s)
		}
	}
	for _, s := range g.Succ[start] {
		visit(s)
	}
	return worst, why
}

// isResultVar reports whether v is a named result parameter.
func isResultVar(info *types.Info, v *types.Var) bool {
	for n, s := range info.Scopes {
		if ft, ok := n.(*ast.FuncType); ok && ft.Results != nil && s == v.Parent() {
			for _, f := range ft.Results.List {
				for _, nm := range f.Names {
					if info.Defs[nm] == v {
						return true
					}
				}
			}
		}
	}
	return false
}

// Leaves reports whether a block always ends in return / break / continue / goto / panic.
func Leaves(b *ast.BlockStmt) bool {
	if b == nil || len(b.List) == 0 {
		return false
	}
	switch s := b.List[len(b.List)-1].(type) {
	case *ast.ReturnStmt, *ast.BranchStmt:
		return true
	case *ast.ExprStmt:
		if c, ok := s.X.(*ast.CallExpr); ok {
			if id, ok := c.Fun.(*ast.Ident); ok && id.Name == "panic" {
				return true
			}
		}
	case *ast.IfStmt:
		if s.Else != nil {
			if eb, ok := s.Else.(*ast.BlockStmt); ok {
				return Leaves(s.Body) && Leaves(eb)
			}
		}
	}
	return false
}

// Paths enumerates simple paths (no node twice) from a to b; ok is false if
// more than limit paths exist (the caller must then report "undecided").
func (g *Graph) Paths(a, b, limit int) (paths [][]int, ok bool) {
	// prune: only nodes that can reach b
	can := make([]bool, len(g.Nodes))
	can[b] = true
	stack := []int{b}
	for len(stack) > 0 {
		n := stack[len(stack)-1]
		stack = stack[:len(stack)-1]
		for _, p := range g.Pred[n] {
			if !can[p] {
				can[p] = true
				stack = append(stack, p)
			}
		}
	}
	if !can[a] {
		return nil, true
	}
	on := make([]bool, len(g.Nodes))
	cur := []int{}
	ok = true
	var dfs func(n int)
	dfs = func(n int) {
		if !ok {
			return
		}
		cur = append(cur, n)
		on[n] = true
		if n == b {
			if len(paths) >= limit {
				ok = false
			} else {
				paths = append(paths, append([]int(nil), cur...))
			}
		} else {
			for _, s := range g.Succ[n] {
				if can[s] && !on[s] {
					dfs(s)
				}
			}
		}
		on[n] = false
		cur = cur[:len(cur)-1]
	}
	dfs(a)
	return paths, ok
}

// Taken reports, for path[i] being a two-way condition node, whether the path
// follows the true edge.
func (g *Graph) Taken(path []int, i int) (taken, isCond bool) {
	n := path[i]
	if i+1 >= len(path) || len(g.Succ[n]) != 2 || g.Nodes[n] == nil {
		return false, false
	}
	if _, ok := g.Nodes[n].(ast.Expr); !ok {
		return false, false
	}
	if g.Succ[n][0] == g.Succ[n][1] {
		return false, false
	}
	return path[i+1] == g.Succ[n][0], true
}

// ReturnsNilError reports whether the return statement's last result is the nil literal
// (i.e. a success return for a function whose last result is error).
func ReturnsNilError(info *types.Info, rs *ast.ReturnStmt) (isNil, known bool) {
	if len(rs.Results) == 0 {
		return false, false
	}
	last := rs.Results[len(rs.Results)-1]
	if IsNil(info, last) {
		return true, true
	}
	if tv, ok := info.Types[last]; ok {
		if _, isCall := ast.Unparen(last).(*ast.CallExpr); isCall && (IsErrorType(tv.Type) || isTupleWithError(tv.Type)) {
			// propagates another call's verdict: neither definitely nil nor definitely failing
			return false, false
		}
		if IsErrorType(tv.Type) {
			if id, ok := ast.Unparen(last).(*ast.Ident); ok {
				_ = id
				return false, false // a variable: unknown
			}
			return false, true
		}
	}
	return false, false
}

func isTupleWithError(t types.Type) bool {
	tu, ok := t.(*types.Tuple)
	if !ok {
		return false
	}
	for i := 0; i < tu.Len(); i++ {
		if IsErrorType(tu.At(i).Type()) {
			return true
		}
	}
	return false
}

// Str0 names a statement kind briefly.
func Str0(s ast.Stmt) string {
	switch x := s.(type) {
	case *ast.IfStmt:
		return "if"
	case *ast.ExprStmt:
		return "call " + Str(x.X)
	case *ast.IncDecStmt:
		return Str(x.X) + x.Tok.String()
	case *ast.AssignStmt:
		return "assignment to " + Str(x.Lhs[0])
	}
	return "statement"
}

// LoopHead returns the synthetic entry node of the loop-header block of a for / range statement (the target of
// `continue` and of the back edge), or -1.
func (g *Graph) LoopHead(s ast.Stmt) int {
	for i, b := range g.CFG.Blocks {
		if b.Stmt != s {
			continue
		}
		switch b.Kind {
		case cfg.KindRangeLoop, cfg.KindForLoop:
			return g.blk[i]
		}
	}
	return -1
}
