package core

import (
	"encoding/json"
	"fmt"
	"os"
	"path/filepath"
	"sort"
	"strings"
	"time"
)

// Ob is one obligation: a construct a rule had to decide.
type Ob struct {
	Rule   string `json:"rule"`
	Key    string `json:"key"`    // rule-local, position-free identity of the construct
	Where  string `json:"where"`  // file:line (diagnostic only, not part of the identity)
	Status string `json:"status"` // ok | violation | undecided | known
	Detail string `json:"detail,omitempty"`
	Cfg    string `json:"config,omitempty"`
}

// Run collects the obligations of one property check.
type Run struct {
	Prop   string
	Tier   string
	Seed   int
	Verif  string // /verif
	Repo   string
	Obs    []Ob
	Notes  []string
	Floor  int
	Expl   string
	Rules  []string
	Assume []string
	progs  map[string]*Prog
	cur    *Prog
	start  time.Time
	seen   map[string]bool
	stats  map[string]int

	// Remap substitutes build configurations (thorough tier: second pass of the same rules under the CI tags).
	Remap map[string]string
}

// NewRun creates a run.
func NewRun(prop, tier string, seed int, verif, repo string) *Run {
	return &Run{Prop: prop, Tier: tier, Seed: seed, Verif: verif, Repo: repo,
		progs: map[string]*Prog{}, start: time.Now(), seen: map[string]bool{}, stats: map[string]int{}}
}

// Thorough reports whether the thorough tier is running.
func (r *Run) Thorough() bool { return r.Tier == "thorough" }

// Prog loads (once) and returns the program under configuration name; it also
// becomes the "current" program whose name is attached to obligations.
func (r *Run) Prog(cfg string) *Prog { return r.ProgFor(cfg) }

// ProgFor is Prog restricted to the packages matching patterns (default ./...).
func (r *Run) ProgFor(cfg string, patterns ...string) *Prog {
	if m, ok := r.Remap[cfg]; ok {
		cfg = m
	}
	key := cfg + "|" + strings.Join(patterns, ",")
	if p, ok := r.progs[key]; ok {
		r.cur = p
		return p
	}
	c, ok := Configs[cfg]
	if !ok {
		panic("unknown config " + cfg)
	}
	p, err := Load(r.Repo, c, patterns...)
	if err != nil {
		r.add(Ob{Rule: "load", Key: "config:" + cfg, Where: r.Repo, Status: "violation", Detail: err.Error()})
		r.Finish() // does not return
	}
	r.progs[key] = p
	r.cur = p
	r.stats["packages_loaded"] += len(p.Pkgs)
	r.stats["functions_parsed"] += p.NFuncs
	return p
}

func (r *Run) add(o Ob) {
	if r.cur != nil && o.Cfg == "" {
		o.Cfg = r.cur.Cfg.Name
	}
	id := o.Rule + "|" + o.Key + "|" + o.Cfg
	if r.seen[id] {
		// the same construct decided twice under one config: keep the worse verdict
		for i := range r.Obs {
			if r.Obs[i].Rule+"|"+r.Obs[i].Key+"|"+r.Obs[i].Cfg == id {
				if r.Obs[i].Status == "ok" && o.Status != "ok" {
					r.Obs[i] = o
				}
			}
		}
		return
	}
	r.seen[id] = true
	r.Obs = append(r.Obs, o)
}

// Check records an obligation decided as ok / violation.
func (r *Run) Check(rule, key, where string, ok bool, detail string) bool {
	st := "ok"
	if !ok {
		st = "violation"
	}
	r.add(Ob{Rule: rule, Key: key, Where: where, Status: st, Detail: detail})
	return ok
}

// Undecided records an obligation the rule could not decide (fails the run).
func (r *Run) Undecided(rule, key, where, detail string) {
	r.add(Ob{Rule: rule, Key: key, Where: where, Status: "undecided", Detail: detail})
}

// Missing records an anchor that could not be resolved.
func (r *Run) Missing(rule, what string) {
	r.add(Ob{Rule: rule, Key: "anchor:" + what, Where: "-", Status: "undecided", Detail: "anchor not found in the analysed tree: " + what})
}

// Note adds a free-text line to the evidence.
func (r *Run) Note(format string, a ...any) { r.Notes = append(r.Notes, fmt.Sprintf(format, a...)) }

// Stat adds to a named counter in the evidence.
func (r *Run) Stat(name string, n int) { r.stats[name] += n }

// MustFunc resolves a function in the current program or records a missing anchor.
func (r *Run) MustFunc(rule, rel, name string) *Fn {
	f := r.cur.Func(rel, name)
	if f == nil {
		r.Missing(rule, rel+"."+name)
		return nil
	}
	r.stats["functions_analysed"]++
	return f
}

// KnownFinding is one entry of /verif/known_findings.json.
type KnownFinding struct {
	Property string `json:"property"`
	Rule     string `json:"rule"`
	Key      string `json:"key"`
	Status   string `json:"status"` // known | fixed
	What     string `json:"what"`
	Commit   string `json:"commit,omitempty"`
}

func loadKnown(verif string) []KnownFinding {
	b, err := os.ReadFile(filepath.Join(verif, "known_findings.json"))
	if err != nil {
		return nil
	}
	var f struct {
		Findings []KnownFinding `json:"findings"`
	}
	if json.Unmarshal(b, &f) != nil {
		return nil
	}
	return f.Findings
}

// Finish writes evidence and the violation report, prints the verdict and exits.
func (r *Run) Finish() {
	known := loadKnown(r.Verif)
	isKnown := func(o Ob) *KnownFinding {
		for i := range known {
			k := &known[i]
			if k.Status == "known" && k.Property == r.Prop && k.Rule == o.Rule && k.Key == o.Key {
				return k
			}
		}
		return nil
	}
	sort.SliceStable(r.Obs, func(i, j int) bool {
		a, b := r.Obs[i], r.Obs[j]
		if a.Rule != b.Rule {
			return a.Rule < b.Rule
		}
		if a.Key != b.Key {
			return a.Key < b.Key
		}
		return a.Cfg < b.Cfg
	})
	var bad []Ob
	nOK, nKnown, nUndec := 0, 0, 0
	printed := map[string]bool{}
	for i := range r.Obs {
		o := &r.Obs[i]
		switch o.Status {
		case "ok":
			nOK++
		case "violation":
			if k := isKnown(*o); k != nil {
				o.Status = "known"
				nKnown++
				line := fmt.Sprintf("KNOWN-FINDING: property=%s %s [%s %s]", r.Prop, k.What, o.Rule, o.Key)
				if !printed[line] {
					fmt.Println(line)
					printed[line] = true
				}
			} else {
				bad = append(bad, *o)
			}
		case "undecided":
			nUndec++
			bad = append(bad, *o)
		}
	}
	distinct := map[string]bool{}
	for _, o := range r.Obs {
		distinct[o.Rule+"|"+o.Key] = true
	}
	if len(distinct) < r.Floor {
		bad = append(bad, Ob{Rule: "floor", Key: "obligation-count", Where: "-", Status: "violation",
			Detail: fmt.Sprintf("only %d distinct obligations were generated, the hand-confirmed floor is %d: a rule matched fewer constructs than exist on the reference tree (vacuous pass refused)", len(distinct), r.Floor)})
	}
	// samples: up to 12 obligations spread over rules
	var samples []Ob
	perRule := map[string]int{}
	for _, o := range r.Obs {
		if perRule[o.Rule] < 2 && len(samples) < 14 {
			samples = append(samples, o)
			perRule[o.Rule]++
		}
	}
	cfgs := []string{}
	for c := range r.progs {
		cfgs = append(cfgs, strings.TrimSuffix(c, "|"))
	}
	sort.Strings(cfgs)
	cov := map[string]any{
		"explanation":         r.Expl,
		"obligations":         len(r.Obs),
		"discharged":          nOK,
		"known_findings":      nKnown,
		"undecided":           nUndec,
		"evaluations":         len(r.Obs),
		"distinct_nontrivial": len(distinct),
		"rule":                "one obligation per (rule, construct, build configuration); distinct = distinct (rule, construct); constructs are resolved through go/types, never by text or position; rules: " + strings.Join(r.Rules, " | "),
		"samples":             samples,
		"configs":             cfgs,
		"floor":               r.Floor,
		"exhaustive":          false,
		"notes":               r.Notes,
		"checker_cmd":         fmt.Sprintf("bin/gpcheck -prop %s -tier %s", r.Prop, r.Tier),
		"trusted_base":        []string{"go/types, go/ssa, go/cfg (x/tools v0.29.0)", "frozen instance tables in checker/props", "documented semantics of the third-party calls named in the rules"},
	}
	for k, v := range r.stats {
		cov[k] = v
	}
	ev := map[string]any{
		"property_id": r.Prop,
		"tier":        r.Tier,
		"seed":        r.Seed,
		"level":       "other",
		"coverage":    cov,
		"assumptions": append([]string{"static analysis of the source only: decides the structural clauses listed in coverage.explanation, not the run-time behaviour of the property"}, r.Assume...),
		"wall_s":      time.Since(r.start).Seconds(),
		"violations":  len(bad),
	}
	evdir := filepath.Join(r.Verif, "evidence")
	_ = os.MkdirAll(filepath.Join(evdir, "violations"), 0o755)
	b, _ := json.MarshalIndent(ev, "", " ")
	if err := os.WriteFile(filepath.Join(evdir, r.Prop+".json"), append(b, '\n'), 0o644); err != nil {
		fmt.Fprintln(os.Stderr, "cannot write evidence:", err)
		os.Exit(2)
	}
	fmt.Printf("%s tier=%s configs=%v obligations=%d ok=%d known=%d undecided=%d violations=%d floor=%d wall=%.1fs\n",
		r.Prop, r.Tier, cfgs, len(r.Obs), nOK, nKnown, nUndec, len(bad), r.Floor, time.Since(r.start).Seconds())
	vpath := filepath.Join(evdir, "violations", r.Prop+".json")
	if len(bad) == 0 {
		_ = os.Remove(vpath)
		os.Exit(0)
	}
	rep := map[string]any{"property_id": r.Prop, "tier": r.Tier, "repo": r.Repo, "violations": bad,
		"replay": fmt.Sprintf("bin/gpcheck -prop %s -tier %s", r.Prop, r.Tier)}
	vb, _ := json.MarshalIndent(rep, "", " ")
	_ = os.WriteFile(vpath, append(vb, '\n'), 0o644)
	for _, o := range bad {
		fmt.Printf("  %s %s: [%s] %s (%s) %s\n", strings.ToUpper(o.Status), o.Where, o.Rule, o.Key, o.Cfg, o.Detail)
	}
	fmt.Printf("VIOLATION property=%s replay=%s\n", r.Prop, vpath)
	os.Exit(1)
}
