// Package core holds the loader, the obligation recorder and the analysis
// helpers (AST matching, CFG reachability, SSA access) shared by all rules.
package core

import (
	"fmt"
	"go/ast"
	"go/printer"
	"go/token"
	"go/types"
	"os"
	"path/filepath"
	"sort"
	"strings"

	"golang.org/x/tools/go/packages"
)

// ModPath is the import path prefix of the analysed module.
const ModPath = "github.com/els0r/goProbe/v4"

// Config is one build configuration of the analysed tree.
type Config struct {
	Name string
	Env  []string
	Tags string
}

// Configs is the build-configuration matrix (DESIGN §1).
var Configs = map[string]Config{
	"cgo":    {Name: "cgo", Env: []string{"CGO_ENABLED=1"}},
	"nocgo":  {Name: "nocgo", Env: []string{"CGO_ENABLED=0"}},
	"nolz4":  {Name: "nolz4", Env: []string{"CGO_ENABLED=1"}, Tags: "goprobe_noliblz4"},
	"nozstd": {Name: "nozstd", Env: []string{"CGO_ENABLED=1"}, Tags: "goprobe_nolibzstd"},
	"ci":     {Name: "ci", Env: []string{"CGO_ENABLED=1"}, Tags: "jsoniter,slimcap_nomock"},
}

// Prog is the type-checked module under one configuration.
type Prog struct {
	Cfg    Config
	Repo   string
	Fset   *token.FileSet
	Pkgs   []*packages.Package
	byPath map[string]*packages.Package
	ssa    *ssaState
	NFuncs int

	expanded map[*types.Func]*Fn // functions with later-added helpers expanded (inline.go)
	rawIndex map[*types.Func]*Fn
	// NoExpand switches the helper expansion off (used to generate the baseline)
	NoExpand bool
}

// Fn is a resolved function or method declaration.
type Fn struct {
	Prog *Prog
	Pkg  *packages.Package
	Decl *ast.FuncDecl
	Obj  *types.Func
	Name string // "Recv.Method" or "func"
}

// Load parses and type-checks every package of the module rooted at repo.
func Load(repo string, cfg Config, patterns ...string) (*Prog, error) {
	if len(patterns) == 0 {
		patterns = []string{"./..."}
	}
	env := []string{}
	for _, e := range os.Environ() {
		k := strings.SplitN(e, "=", 2)[0]
		switch k {
		case "GOWORK", "GOFLAGS", "GOPROXY", "CGO_ENABLED", "GOSUMDB", "GOTOOLCHAIN", "GOOS", "GOARCH":
			continue
		}
		env = append(env, e)
	}
	env = append(env, "GOWORK=off", "GOFLAGS=-mod=mod", "GOPROXY=off", "GOOS=linux", "GOARCH=amd64")
	env = append(env, cfg.Env...)
	pc := &packages.Config{
		Mode:  packages.LoadSyntax,
		Dir:   repo,
		Env:   env,
		Tests: false,
	}
	if cfg.Tags != "" {
		pc.BuildFlags = []string{"-tags=" + cfg.Tags}
	}
	pkgs, err := packages.Load(pc, patterns...)
	if err != nil {
		return nil, fmt.Errorf("load %s [%s]: %w", repo, cfg.Name, err)
	}
	if len(pkgs) == 0 {
		return nil, fmt.Errorf("load %s [%s]: zero packages", repo, cfg.Name)
	}
	p := &Prog{Cfg: cfg, Repo: repo, byPath: map[string]*packages.Package{}}
	var errs []string
	for _, pk := range pkgs {
		if p.Fset == nil {
			p.Fset = pk.Fset
		}
		for _, e := range pk.Errors {
			errs = append(errs, e.Error())
		}
		if pk.Types == nil || pk.TypesInfo == nil {
			errs = append(errs, pk.PkgPath+": no type information")
		}
		p.byPath[pk.PkgPath] = pk
		for _, f := range pk.Syntax {
			for _, d := range f.Decls {
				if fd, ok := d.(*ast.FuncDecl); ok && fd.Body != nil {
					p.NFuncs++
				}
			}
		}
	}
	sort.Slice(pkgs, func(i, j int) bool { return pkgs[i].PkgPath < pkgs[j].PkgPath })
	p.Pkgs = pkgs
	if len(errs) > 0 {
		if len(errs) > 8 {
			errs = errs[:8]
		}
		return nil, fmt.Errorf("analysed tree does not type-check under config %s: %s", cfg.Name, strings.Join(errs, "; "))
	}
	return p, nil
}

// Pkg returns the package with module-relative path rel ("pkg/goDB") or nil.
func (p *Prog) Pkg(rel string) *packages.Package {
	if pk, ok := p.byPath[ModPath+"/"+rel]; ok {
		return pk
	}
	return p.byPath[rel]
}

// Func resolves "Recv.Method" / "func" in package rel; nil if absent.
func (p *Prog) Func(rel, name string) *Fn {
	pk := p.Pkg(rel)
	if pk == nil {
		return nil
	}
	recv, fname := "", name
	if i := strings.Index(name, "."); i >= 0 {
		recv, fname = name[:i], name[i+1:]
	}
	for _, f := range pk.Syntax {
		for _, d := range f.Decls {
			fd, ok := d.(*ast.FuncDecl)
			if !ok || fd.Name.Name != fname {
				continue
			}
			if RecvName(fd) != recv {
				continue
			}
			obj, _ := pk.TypesInfo.Defs[fd.Name].(*types.Func)
			if obj == nil || fd.Body == nil {
				continue
			}
			return p.maybeExpand(&Fn{Prog: p, Pkg: pk, Decl: fd, Obj: obj, Name: name})
		}
	}
	return nil
}

func (p *Prog) maybeExpand(fn *Fn) *Fn {
	if p.NoExpand {
		return fn
	}
	ex := p.Expanded(fn)
	if d := os.Getenv("GPV_DUMP"); d != "" && d == fn.Name && !dumped[fn.Name] {
		// debugging aid: print the function as the rules see it
		dumped[fn.Name] = true
		printer.Fprint(os.Stderr, token.NewFileSet(), ex.Decl)
		fmt.Fprintln(os.Stderr)
	}
	return ex
}

var dumped = map[string]bool{}

// rawFnOf finds the (unexpanded) declaration of a module function.
func (p *Prog) rawFnOf(fo *types.Func) *Fn {
	if p.rawIndex == nil {
		p.rawIndex = map[*types.Func]*Fn{}
		for _, pk := range p.Pkgs {
			for _, f := range pk.Syntax {
				for _, d := range f.Decls {
					fd, ok := d.(*ast.FuncDecl)
					if !ok || fd.Body == nil {
						continue
					}
					obj, _ := pk.TypesInfo.Defs[fd.Name].(*types.Func)
					if obj == nil {
						continue
					}
					n := fd.Name.Name
					if r := RecvName(fd); r != "" {
						n = r + "." + n
					}
					p.rawIndex[obj] = &Fn{Prog: p, Pkg: pk, Decl: fd, Obj: obj, Name: n}
				}
			}
		}
	}
	return p.rawIndex[fo]
}

// Funcs returns all function declarations with bodies in package rel.
func (p *Prog) Funcs(rel string) []*Fn {
	pk := p.Pkg(rel)
	if pk == nil {
		return nil
	}
	var out []*Fn
	for _, f := range pk.Syntax {
		for _, d := range f.Decls {
			fd, ok := d.(*ast.FuncDecl)
			if !ok || fd.Body == nil {
				continue
			}
			obj, _ := pk.TypesInfo.Defs[fd.Name].(*types.Func)
			if obj == nil {
				continue
			}
			n := fd.Name.Name
			if r := RecvName(fd); r != "" {
				n = r + "." + n
			}
			out = append(out, p.maybeExpand(&Fn{Prog: p, Pkg: pk, Decl: fd, Obj: obj, Name: n}))
		}
	}
	return out
}

// AllFuncs returns every function declaration of the module (all packages).
func (p *Prog) AllFuncs() []*Fn {
	var out []*Fn
	for _, pk := range p.Pkgs {
		out = append(out, p.Funcs(pk.PkgPath)...)
	}
	return out
}

// RecvName is the receiver's named type ("" for plain functions).
func RecvName(fd *ast.FuncDecl) string {
	if fd.Recv == nil || len(fd.Recv.List) == 0 {
		return ""
	}
	t := fd.Recv.List[0].Type
	for {
		switch x := t.(type) {
		case *ast.StarExpr:
			t = x.X
		case *ast.ParenExpr:
			t = x.X
		case *ast.IndexExpr:
			t = x.X
		case *ast.IndexListExpr:
			t = x.X
		case *ast.Ident:
			return x.Name
		default:
			return ""
		}
	}
}

// Rel renders a position as module-relative file:line.
func (p *Prog) Rel(pos token.Pos) string {
	if !pos.IsValid() {
		return "?"
	}
	ps := p.Fset.Position(pos)
	f := ps.Filename
	if r, err := filepath.Rel(p.Repo, f); err == nil && !strings.HasPrefix(r, "..") {
		f = r
	}
	return fmt.Sprintf("%s:%d", f, ps.Line)
}

// RelPkg strips the module prefix from a package path.
func RelPkg(path string) string {
	return strings.TrimPrefix(strings.TrimPrefix(path, ModPath), "/")
}

// Info is shorthand for the function's package type info.
func (f *Fn) Info() *types.Info { return f.Pkg.TypesInfo }

// Where is "pkg/rel.Recv.Method".
func (f *Fn) Where() string { return RelPkg(f.Pkg.PkgPath) + "." + f.Name }

// Type looks up a named type in package rel.
func (p *Prog) Type(rel, name string) *types.Named {
	pk := p.Pkg(rel)
	if pk == nil {
		return nil
	}
	o := pk.Types.Scope().Lookup(name)
	if o == nil {
		return nil
	}
	n, _ := o.Type().(*types.Named)
	return n
}

// Const looks up a package-level constant's value in package rel (as string).
func (p *Prog) Const(rel, name string) (string, bool) {
	pk := p.Pkg(rel)
	if pk == nil {
		return "", false
	}
	c, ok := pk.Types.Scope().Lookup(name).(*types.Const)
	if !ok {
		return "", false
	}
	return c.Val().ExactString(), true
}

// FnOf returns the declaration of a module function object; nil for functions without source in the load.
func (p *Prog) FnOf(fo *types.Func) *Fn {
	if fo == nil || fo.Pkg() == nil {
		return nil
	}
	fn := p.rawFnOf(fo)
	if fn == nil {
		return nil
	}
	cp := *fn
	return p.maybeExpand(&cp)
}
