// gpcheck decides the structural clauses of goProbe properties C01..C31 from
// the source of the repository (static analysis only; nothing is executed).
package main

import (
	"flag"
	"fmt"
	"os"
	"path/filepath"
	"runtime/debug"
	"sort"
	"strconv"

	"gpverif/core"
	"gpverif/props"
)

func main() {
	prop := flag.String("prop", "", "property id (C01..C31) or 'list'")
	tier := flag.String("tier", "", "quick | thorough (default: $VERIF_TIER or quick)")
	repo := flag.String("repo", "/repo", "tree to analyse")
	verif := flag.String("verif", "", "verif directory (default: parent of the binary's dir)")
	flag.Parse()
	if *tier == "" {
		*tier = os.Getenv("VERIF_TIER")
	}
	if *tier != "thorough" {
		*tier = "quick"
	}
	if *verif == "" {
		exe, _ := os.Executable()
		*verif = filepath.Dir(filepath.Dir(exe))
	}
	seed, _ := strconv.Atoi(os.Getenv("VERIF_SEED"))
	if *prop == "list" || *prop == "" {
		ids := []string{}
		for id := range props.Registry {
			ids = append(ids, id)
		}
		sort.Strings(ids)
		for _, id := range ids {
			fmt.Println(id)
		}
		return
	}
	fn, ok := props.Registry[*prop]
	if !ok {
		fmt.Fprintln(os.Stderr, "unknown property", *prop)
		os.Exit(2)
	}
	r := core.NewRun(*prop, *tier, seed, *verif, *repo)
	defer func() {
		if e := recover(); e != nil {
			// a crash of the analysis is a failure of the check, never a pass
			r.Undecided("checker", "panic", "-", fmt.Sprintf("analysis panicked: %v\n%s", e, debug.Stack()))
			r.Finish()
		}
	}()
	fn(r)
	if r.Thorough() && *prop != "C02" && *prop != "C07" {
		// thorough tier: the same rules once more on the tree as the CI builds it (tags jsoniter, slimcap_nomock:
		// capture_nomock.go instead of capture_mock.go); obligations are keyed by configuration and united
		r.Remap = map[string]string{"cgo": "ci"}
		fn(r)
	}
	r.Finish()
}
