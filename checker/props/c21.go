package props

import (
	"fmt"
	"go/ast"
	"go/token"
	"go/types"
	"strings"

	"gpverif/core"
)

func init() { register("C21", c21) }

func c21(r *core.Run) {
	r.Expl = "C21 (packets seen while the capture is paused are counted once and unaltered): decides, in Capture.bufferPackets, (1) type-directed agreement at every LocalBuffer.Add call: the isIPv4 argument is the constant true iff the hash passed is an EPHashV4, the hash/aux/errno come from the ParsePacket call of the same IP version, packet type and size from the packet source, in the callee's parameter order; (2) the drain loop forwards every item returned by Next exactly once: items with a parse error to the error counters, IPv4 items to addToFlowLogV4 and IPv6 items to addToFlowLogV6 with (hash, type, size, aux) in order, Processed++ exactly once per forwarded item, deciding by Next's own isIPv4 result; (3) a refused Add reports ErrLocalBufferOverflow and leaves the buffering loop; (4) every path that leaves the buffering loop consumed the unlock request exactly once, and releasing / resetting the buffer is deferred; (5) the packed buffer layout itself (C23 rules). NOT decided: interleavings with the three-point lock (third-party), timing of pauses."
	r.Floor = 11
	r.Rules = append(r.Rules, "typed-argument-agreement", "drain-path-rule (P2)", "unlock-consumed-once (P2)", "packed-layout (C23)")
	p := r.Prog("cgo")
	const rule = "typed-argument-agreement"
	f := r.MustFunc(rule, pkgCapture, "Capture.bufferPackets")
	if f == nil {
		return
	}
	info := f.Info()
	where := p.Rel(f.Decl.Pos())
	// (1) Add call sites
	nAdd := 0
	var srcType, srcSize types.Object
	core.Walk(f.Decl.Body, false, func(x ast.Node) bool {
		if a, ok := x.(*ast.AssignStmt); ok && len(a.Rhs) == 1 && len(a.Lhs) == 4 {
			if c, ok := a.Rhs[0].(*ast.CallExpr); ok {
				if _, m := core.MethodCall(info, c); m == "NextIPPacketZeroCopy" {
					srcType, srcSize = core.ObjOf(info, a.Lhs[1]), core.ObjOf(info, a.Lhs[2])
				}
			}
		}
		return true
	})
	core.Walk(f.Decl.Body, false, func(x ast.Node) bool {
		c, ok := x.(*ast.CallExpr)
		if !ok || core.CallName(info, c) != pkgCapture+".LocalBuffer.Add" || len(c.Args) != 6 {
			return true
		}
		nAdd++
		// hash argument: <v>[:] with v of type EPHashV4 / EPHashV6
		fam := ""
		var hashObj types.Object
		if se, ok := ast.Unparen(c.Args[0]).(*ast.SliceExpr); ok {
			hashObj = core.ObjOf(info, se.X)
			tn := core.TypeName(info.TypeOf(se.X))
			switch {
			case strings.HasSuffix(tn, ".EPHashV4"):
				fam = "v4"
			case strings.HasSuffix(tn, ".EPHashV6"):
				fam = "v6"
			}
		}
		key := fmt.Sprintf("bufferPackets:Add#%d(%s)", nAdd, fam)
		if fam == "" {
			r.Undecided(rule, key, p.Rel(c.Pos()), "hash argument is not a slice of an EPHashV4 / EPHashV6 value")
			return true
		}
		tv, okc := info.Types[c.Args[3]]
		flagOK := okc && tv.Value != nil && (tv.Value.String() == "true") == (fam == "v4")
		r.Check(rule, key+":ip-version-flag", p.Rel(c.Args[3].Pos()), flagOK,
			fmt.Sprintf("an %s hash is buffered with isIPv4=%s: the buffer keeps %d bytes of the key and the drain loop adds the packet to the %s flow map under that truncated / padded key", map[string]string{"v4": "EPHashV4", "v6": "EPHashV6"}[fam], core.Str(c.Args[3]), map[string]int{"v4": 13, "v6": 13}[fam], map[string]string{"v4": "IPv6", "v6": "IPv4"}[fam]))
		// provenance of hash / aux / errno: the ParsePacket call of the same family
		var parse *ast.AssignStmt
		core.Walk(f.Decl.Body, false, func(y ast.Node) bool {
			if a, ok := y.(*ast.AssignStmt); ok && len(a.Lhs) == 3 && len(a.Rhs) == 1 && core.ObjOf(info, a.Lhs[0]) == hashObj {
				parse = a
			}
			return true
		})
		okParse := false
		if parse != nil {
			if pc, ok := parse.Rhs[0].(*ast.CallExpr); ok {
				want := pkgCapture + ".ParsePacketV4"
				if fam == "v6" {
					want = pkgCapture + ".ParsePacketV6"
				}
				okParse = core.CallName(info, pc) == want &&
					core.ObjOf(info, c.Args[4]) == core.ObjOf(info, parse.Lhs[1]) && core.ObjOf(info, c.Args[5]) == core.ObjOf(info, parse.Lhs[2])
			}
		}
		r.Check(rule, key+":parse-results-forwarded", p.Rel(c.Pos()), okParse, "hash, auxiliary byte and parse status must be the three results of ParsePacketV4/V6 for this packet, in that order")
		r.Check(rule, key+":packet-type-and-size", p.Rel(c.Pos()), srcType != nil && core.ObjOf(info, c.Args[1]) == srcType && core.ObjOf(info, c.Args[2]) == srcSize, "packet type and size must be the values delivered by the packet source for this packet")
		// (3) refusal handling, read off the paths that leave the insert: the result must be tested (directly or through
		// the local it is stored in) before the next packet, and every path on which it is known to be false must send
		// ErrLocalBufferOverflow, consume the unlock request and leave the buffering loop.
		okRef, whyRef := c21Refusal(info, core.GraphOf(f), c)
		r.Check(rule, key+":refusal-reported", p.Rel(c.Pos()), okRef, "a refused insert must report ErrLocalBufferOverflow, consume the pending unlock request and stop buffering (the only permitted loss is an explicitly reported overflow): "+whyRef)
		return true
	})
	if nAdd < 2 {
		r.Undecided(rule, "bufferPackets:Add-sites", where, fmt.Sprintf("%d LocalBuffer.Add calls (one per IP version expected)", nAdd))
	}
	c21Drain(r, p, f)
	c21Unlock(r, p, f)
	c21Siblings(r, p)
	ruleLocalBufferLayout(r, p)
}

func c21Drain(r *core.Run, p *core.Prog, f *core.Fn) {
	const rule = "drain-path-rule"
	info := f.Info()
	var loop *ast.ForStmt
	var res []types.Object
	core.Walk(f.Decl.Body, false, func(x ast.Node) bool {
		fs, ok := x.(*ast.ForStmt)
		if !ok {
			return true
		}
		core.Walk(fs.Body, false, func(y ast.Node) bool {
			if a, ok := y.(*ast.AssignStmt); ok && len(a.Rhs) == 1 && len(a.Lhs) == 7 {
				if c, ok := a.Rhs[0].(*ast.CallExpr); ok && core.CallName(info, c) == pkgCapture+".LocalBuffer.Next" {
					loop = fs
					res = nil
					for _, l := range a.Lhs {
						res = append(res, core.ObjOf(info, l))
					}
				}
			}
			return true
		})
		return true
	})
	if loop == nil {
		r.Undecided(rule, "bufferPackets:drain-loop", p.Rel(f.Decl.Pos()), "no loop draining LocalBuffer.Next")
		return
	}
	hash, ptype, psize, isV4, aux, errno, okv := res[0], res[1], res[2], res[3], res[4], res[5], res[6]
	fProc := p.FieldObj("pkg/capture/capturetypes", "CaptureStats", "Processed")
	g := core.NewGraph(info, loop.Body)
	argsOK := func(c *ast.CallExpr, conv string) bool {
		if len(c.Args) != 4 {
			return false
		}
		cc, ok := ast.Unparen(c.Args[0]).(*ast.CallExpr)
		if !ok || len(cc.Args) != 1 || core.ObjOf(info, cc.Args[0]) != hash || !strings.HasSuffix(core.Str(cc.Fun), conv) {
			return false
		}
		return core.ObjOf(info, c.Args[1]) == ptype && core.ObjOf(info, c.Args[2]) == psize && core.ObjOf(info, c.Args[3]) == aux
	}
	cl := func(n ast.Node, cond *bool) []ev {
		var out []ev
		if cond != nil {
			e := ast.Unparen(n.(ast.Expr))
			switch {
			case core.ObjOf(info, e) == isV4:
				out = append(out, ev{label: map[bool]string{true: "is-v4", false: "is-v6"}[*cond]})
			case core.ObjOf(info, e) == okv:
				out = append(out, ev{label: map[bool]string{true: "has-item", false: "empty"}[*cond]})
			default:
				if u, ok := e.(*ast.UnaryExpr); ok && u.Op == token.NOT {
					switch core.ObjOf(info, u.X) {
					case okv:
						out = append(out, ev{label: map[bool]string{true: "empty", false: "has-item"}[*cond]})
					case isV4:
						out = append(out, ev{label: map[bool]string{true: "is-v6", false: "is-v4"}[*cond]})
					}
				}
				if b, ok := core.BinOp(e, token.GTR, token.NEQ); ok && core.ObjOf(info, b.X) == errno {
					out = append(out, ev{label: map[bool]string{true: "parse-error", false: "parse-ok"}[*cond]})
				}
			}
		}
		for _, c := range core.Calls(n, false) {
			switch core.CallName(info, c) {
			case pkgCapture + ".Capture.addToFlowLogV4":
				out = append(out, ev{label: map[bool]string{true: "add-v4", false: "add-v4?"}[argsOK(c, "EPHashV4")]})
			case pkgCapture + ".Capture.addToFlowLogV6":
				out = append(out, ev{label: map[bool]string{true: "add-v6", false: "add-v6?"}[argsOK(c, "EPHashV6")]})
			case pkgCapture + ".Capture.updateParsingErrorCounters":
				out = append(out, ev{label: "count-error"})
			}
		}
		if inc, ok := n.(*ast.IncDecStmt); ok && inc.Tok == token.INC && core.SelField(info, inc.X) == fProc {
			out = append(out, ev{label: "processed"})
		}
		return out
	}
	fake := &core.Fn{Prog: p, Pkg: f.Pkg, Decl: &ast.FuncDecl{Body: loop.Body, Name: f.Decl.Name, Type: &ast.FuncType{}}, Obj: f.Obj, Name: f.Name}
	ts, ok := traces(fake, g, cl, 5000)
	if !ok {
		r.Undecided(rule, "bufferPackets:drain-paths", p.Rel(loop.Pos()), "too many paths")
		return
	}
	bad := ""
	nItem := 0
	for _, t := range ts {
		pl := pathLines(p, g, t.path)
		if t.has("empty") {
			if t.has("add-v4") || t.has("add-v6") || t.has("processed") {
				bad = "flow log updated although the buffer returned no item: " + pl
			}
			continue
		}
		nItem++
		adds := t.count("add-v4") + t.count("add-v6") + t.count("add-v4?") + t.count("add-v6?")
		switch {
		case t.has("add-v4?") || t.has("add-v6?"):
			bad = "a buffered item is added to the flow log with arguments other than (hash converted to its own EPHash type, packet type, size, aux) as returned by Next: " + pl
		case t.has("parse-error"):
			if adds != 0 || !t.has("count-error") || t.has("processed") {
				bad = "an item with a parse error must only be counted as such: " + pl
			}
		default:
			if adds != 1 || t.count("processed") != 1 {
				bad = fmt.Sprintf("a buffered packet is added to the flow log %d times and counted as processed %d times (exactly once each): %s", adds, t.count("processed"), pl)
			}
			if t.has("add-v4") && !t.has("is-v4") || t.has("add-v6") && !t.has("is-v6") {
				bad = "the flow map is chosen without (or against) the IP version returned by Next: " + pl
			}
		}
	}
	r.Check(rule, "bufferPackets:every-buffered-item-forwarded-once", p.Rel(loop.Pos()), bad == "" && nItem > 0, bad)
}

func c21Unlock(r *core.Run, p *core.Prog, f *core.Fn) {
	const rule = "unlock-consumed-once"
	info := f.Info()
	// the buffering loop: the first `for { … }` containing HasUnlockRequest
	var loop *ast.ForStmt
	core.Walk(f.Decl.Body, false, func(x ast.Node) bool {
		if fs, ok := x.(*ast.ForStmt); ok && loop == nil && strings.Contains(nodeStr(fs.Body), "HasUnlockRequest") {
			loop = fs
		}
		return true
	})
	if loop == nil {
		r.Undecided(rule, "bufferPackets:buffering-loop", p.Rel(f.Decl.Pos()), "no buffering loop testing HasUnlockRequest")
		return
	}
	// graph of the whole loop statement: entry→exit paths are exactly the ways of leaving the loop
	// (break / return); `continue` and falling off the body lead back to the loop head
	wrap := &ast.BlockStmt{List: []ast.Stmt{loop}}
	g := core.NewGraph(info, wrap)
	cl := func(n ast.Node, cond *bool) []ev {
		var out []ev
		for _, c := range core.Calls(n, false) {
			if _, m := core.MethodCall(info, c); m == "ConsumeUnlockRequest" {
				out = append(out, ev{label: "consume"})
			}
		}
		return out
	}
	fake := &core.Fn{Prog: p, Pkg: f.Pkg, Decl: &ast.FuncDecl{Body: wrap, Name: f.Decl.Name, Type: &ast.FuncType{}}, Obj: f.Obj, Name: f.Name}
	ts, ok := traces(fake, g, cl, 20000)
	if !ok {
		r.Undecided(rule, "bufferPackets:buffering-paths", p.Rel(loop.Pos()), "too many paths")
		return
	}
	bad, nLeave := "", 0
	for _, t := range ts {
		nLeave++
		if t.count("consume") != 1 {
			bad = fmt.Sprintf("a path leaving the buffering loop consumes the unlock request %d times: the lock holder waits forever (0) or the next request is swallowed (2): %s", t.count("consume"), pathLines(p, g, t.path))
		}
	}
	// a consume must not be followed by another iteration
	for id, n := range g.Nodes {
		if n == nil {
			continue
		}
		isConsume := false
		for _, c := range core.Calls(n, false) {
			if _, m := core.MethodCall(info, c); m == "ConsumeUnlockRequest" {
				isConsume = true
			}
		}
		if isConsume && g.ReachStrict(id, id, nil) {
			bad = "the unlock request is consumed on a path that keeps buffering (" + p.Rel(n.Pos()) + ")"
		}
	}
	r.Check(rule, "bufferPackets:every-exit-consumes-unlock-once", p.Rel(loop.Pos()), bad == "" && nLeave > 0, bad)
	// deferred release + reset
	rel, rst := false, false
	for _, st := range f.Decl.Body.List {
		if d, ok := st.(*ast.DeferStmt); ok {
			for _, c := range core.Calls(d, true) {
				_, m := core.MethodCall(info, c)
				if m == "Release" {
					rel = true
				}
				if core.CallName(info, c) == pkgCapture+".LocalBuffer.Reset" {
					rst = true
				}
			}
		}
	}
	r.Check(rule, "bufferPackets:buffer-released-on-every-exit", p.Rel(f.Decl.Pos()), rel && rst, "resetting the buffer and releasing its memory to the lock's pool must be deferred, otherwise an early return leaks the only buffer and every later pause blocks")
}

// c21Siblings: process() and the drain loop treat parse errors the same way (errno > OK -> count, skip; Processed++ after).
func c21Siblings(r *core.Run, p *core.Prog) {
	const rule = "typed-argument-agreement"
	f := r.MustFunc(rule, pkgCapture, "Capture.process")
	if f == nil {
		return
	}
	info := f.Info()
	n := 0
	core.Walk(f.Decl.Body, true, func(x ast.Node) bool {
		c, ok := x.(*ast.CallExpr)
		if !ok {
			return true
		}
		cn := core.CallName(info, c)
		if cn != pkgCapture+".Capture.addToFlowLogV4" && cn != pkgCapture+".Capture.addToFlowLogV6" {
			return true
		}
		n++
		fam := cn[len(cn)-2:]
		okT := len(c.Args) == 4 && strings.HasSuffix(core.TypeName(info.TypeOf(c.Args[0])), ".EPHash"+fam)
		r.Check(rule, fmt.Sprintf("process:addToFlowLog%s:hash-type", fam), p.Rel(c.Pos()), okT, "the live path must hand an EPHash"+fam+" to addToFlowLog"+fam)
		return true
	})
	if n != 2 {
		r.Undecided(rule, "process:addToFlowLog-sites", p.Rel(f.Decl.Pos()), fmt.Sprintf("%d addToFlowLog calls in process (2 expected)", n))
	}
}

// c21Refusal follows every path that leaves the LocalBuffer.Add call c. The boolean result is carried either by the
// call expression itself (when it is the branch condition) or by the local it is assigned to. A path is fine once the
// result is known to be true. A path on which it is known to be false must send ErrLocalBufferOverflow and call
// ConsumeUnlockRequest before the function ends, and must not come back to the insert. A path that reaches the next
// iteration, the end of the loop or a reassignment of the carrier without having tested the result drops the refusal.
func c21Refusal(info *types.Info, g *core.Graph, c *ast.CallExpr) (bool, string) {
	start := g.NodeOf(c)
	if start < 0 {
		return false, "insert not found in the control-flow graph"
	}
	var carrier types.Object
	if a, ok := g.Nodes[start].(*ast.AssignStmt); ok && len(a.Lhs) == 1 && len(a.Rhs) == 1 && ast.Unparen(a.Rhs[0]) == ast.Expr(c) {
		carrier = core.ObjOf(info, a.Lhs[0])
	}
	type state struct {
		n                   int
		known               int // 0 unknown, 1 true, 2 false
		sent, consumed, off bool
	}
	seen := map[state]bool{}
	why := ""
	var walk func(st state)
	step := func(st state, next int) {
		ns := st
		ns.n = next
		walk(ns)
	}
	walk = func(st state) {
		if why != "" || seen[st] {
			return
		}
		seen[st] = true
		if st.n != start || st.off {
			if st.n == start {
				if st.known == 2 {
					why = "a refused insert is followed by another iteration"
				} else if st.known == 0 {
					why = "the result of the insert is not tested before the next packet is buffered"
				}
				return
			}
			if st.n == core.Exit {
				switch {
				case st.known == 0:
					why = "the result of the insert is not tested"
				case st.known == 2 && !(st.sent && st.consumed):
					why = "a path on which the insert was refused reaches the end of the function without reporting the overflow and consuming the unlock request"
				}
				return
			}
		}
		st.off = true
		n := g.Nodes[st.n]
		if n != nil && st.n != start {
			if a, ok := n.(*ast.AssignStmt); ok && carrier != nil && st.known == 0 {
				for _, l := range a.Lhs {
					if core.ObjOf(info, l) == carrier {
						why = "the result of the insert is overwritten before it is tested"
						return
					}
				}
			}
			if s, ok := n.(*ast.SendStmt); ok {
				if o := core.ObjOf(info, selOrIdent(s.Value)); o != nil && o.Name() == "ErrLocalBufferOverflow" {
					st.sent = true
				}
			}
			for _, cc := range core.Calls(n, false) {
				if _, m := core.MethodCall(info, cc); m == "ConsumeUnlockRequest" {
					st.consumed = true
				}
			}
		}
		if t, e, ok := g.CondEdges(st.n); ok {
			if cond, isExpr := n.(ast.Expr); isExpr && st.known == 0 {
				for bi, next := range []int{t, e} {
					ns := st
					atoms, truths := atomsOf(cond, bi == 0)
					for i, at := range atoms {
						at = ast.Unparen(at)
						if at == ast.Expr(c) || (carrier != nil && core.ObjOf(info, at) == carrier) {
							if truths[i] {
								ns.known = 1
							} else {
								ns.known = 2
							}
						}
					}
					if ns.known == 1 {
						continue
					}
					step(ns, next)
				}
				return
			}
		}
		for _, next := range g.Succ[st.n] {
			step(st, next)
		}
	}
	walk(state{n: start})
	return why == "", why
}
