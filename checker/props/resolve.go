package props

import (
	"go/ast"
	"go/types"

	"gpverif/core"
)

// resolveLocal follows an identifier that names a local variable with exactly one definition in body (`x := e`,
// `var x = e`) to that definition, repeatedly (depth-bounded). Parameters, results, range variables, package-level
// variables and multiply assigned locals are returned unchanged. This is what makes a rule indifferent to a
// maintainer hoisting an expression into a named local.
func resolveLocal(info *types.Info, body ast.Node, e ast.Expr) ast.Expr {
	for depth := 0; depth < 6; depth++ {
		id, ok := ast.Unparen(e).(*ast.Ident)
		if !ok {
			return e
		}
		v, isVar := info.Uses[id].(*types.Var)
		if !isVar || v.IsField() || v.Pkg() == nil || v.Parent() == v.Pkg().Scope() {
			return e
		}
		if v.Pos() < body.Pos() || v.Pos() >= body.End() {
			// a parameter / result of the analysed function or a variable captured from an enclosing function stays as it
			// is (its other assignments are not in body). A variable of a helper that core.Expanded spliced in is declared
			// in a scope that does not enclose body: its definitions are all in body, so it can be followed.
			if sc := v.Parent(); sc == nil || (sc.Pos() <= body.Pos() && body.End() <= sc.End()) || !splicedScope(sc, body) {
				return e
			}
		}
		d := singleDef(info, body, v)
		if d == nil {
			return e
		}
		// `x := range-expr` yields the container, not a value
		isRangeVal := false
		core.Walk(body, true, func(n ast.Node) bool {
			if rs, ok := n.(*ast.RangeStmt); ok && (core.ObjOf(info, rs.Value) == types.Object(v) || core.ObjOf(info, rs.Key) == types.Object(v)) {
				isRangeVal = true
			}
			return true
		})
		if isRangeVal {
			return e
		}
		e = d
	}
	return e
}

// normCond strips negations from a branch condition: for `!c` taken=true it returns (c, false); `a != b` is reported as
// (`a == b`-shaped operands, flipped) through eqOperands. Rules use it to be indifferent to inverted conditions with
// swapped branches.
func normCond(e ast.Expr, truth bool) (ast.Expr, bool) {
	for {
		e = ast.Unparen(e)
		u, ok := e.(*ast.UnaryExpr)
		if !ok || u.Op.String() != "!" {
			return e, truth
		}
		e, truth = u.X, !truth
	}
}

// eqTest: e is a branch condition and taken says which way the branch went. If e is an equality test — `a == b`,
// `a != b`, possibly under negations — eqTest returns its operands and whether a equals b on this branch.
func eqTest(e ast.Expr, taken bool) (x, y ast.Expr, equal bool, ok bool) {
	e, taken = normCond(e, taken)
	b, isBin := e.(*ast.BinaryExpr)
	if !isBin {
		return nil, nil, false, false
	}
	switch b.Op.String() {
	case "==":
		return b.X, b.Y, taken, true
	case "!=":
		return b.X, b.Y, !taken, true
	}
	return nil, nil, false, false
}

// defCall: the call that defines local variable obj in a (possibly multi-value) assignment `obj, … := f(…)` — the only
// definition of obj in body — and the position of obj among the results.
func defCall(info *types.Info, body ast.Node, obj types.Object) (*ast.CallExpr, int) {
	var call *ast.CallExpr
	idx, n := -1, 0
	core.Walk(body, true, func(x ast.Node) bool {
		a, ok := x.(*ast.AssignStmt)
		if !ok {
			return true
		}
		for i, l := range a.Lhs {
			if core.ObjOf(info, l) != obj {
				continue
			}
			n++
			if len(a.Rhs) == 1 {
				if c, ok := ast.Unparen(a.Rhs[0]).(*ast.CallExpr); ok {
					call, idx = c, i
				}
			}
		}
		return true
	})
	if n != 1 {
		return nil, -1
	}
	return call, idx
}

// funcBodyOf returns the body (and the types.Info to read it with) of a function-valued expression: a function
// literal, a local bound once to a function literal, or the name of a function / method declared in the module.
func funcBodyOf(p *core.Prog, info *types.Info, body ast.Node, e ast.Expr) (*ast.BlockStmt, *types.Info) {
	e = resolveLocal(info, body, e)
	switch x := ast.Unparen(e).(type) {
	case *ast.FuncLit:
		return x.Body, info
	case *ast.Ident:
		if fo, ok := info.Uses[x].(*types.Func); ok {
			if fn := p.FnOf(fo); fn != nil {
				return fn.Decl.Body, fn.Info()
			}
		}
	case *ast.SelectorExpr:
		if fo, ok := info.Uses[x.Sel].(*types.Func); ok {
			if fn := p.FnOf(fo); fn != nil {
				return fn.Decl.Body, fn.Info()
			}
		}
	}
	return nil, nil
}

// mentionsNameDeep reports whether expression e mentions an identifier called name, looking through locals with a
// single definition and through the returned expressions of module functions it calls (depth-bounded). It makes
// "the refused branch answers with status X" indifferent to the status literal being hoisted into a local or built
// by a small helper.
func mentionsNameDeep(p *core.Prog, info *types.Info, body ast.Node, e ast.Node, name string, depth int) bool {
	if e == nil || depth > 3 {
		return false
	}
	found := false
	core.Walk(e, true, func(x ast.Node) bool {
		if found {
			return false
		}
		switch n := x.(type) {
		case *ast.Ident:
			if n.Name == name {
				found = true
				return false
			}
			if d := resolveLocal(info, body, n); d != ast.Expr(n) {
				if mentionsNameDeep(p, info, body, d, name, depth+1) {
					found = true
				}
			}
		case *ast.CallExpr:
			if fo, ok := core.Callee(info, n).(*types.Func); ok {
				if h := p.FnOf(fo); h != nil {
					core.Walk(h.Decl.Body, false, func(y ast.Node) bool {
						if rs, ok := y.(*ast.ReturnStmt); ok {
							for _, res := range rs.Results {
								if mentionsNameDeep(p, h.Info(), h.Decl.Body, res, name, depth+1) {
									found = true
								}
							}
						}
						return true
					})
				}
			}
		}
		return true
	})
	return found
}

// governingConsts: the constant values K such that statement st executes only when a tested subject equals K — the
// nearest enclosing `case K1, K2:` clause of a tagged switch, or the then-branch of `if subject == K` (else-branch of
// `if subject != K`). Used to read unit / opcode tables independently of whether they are written as a switch or an
// if-chain.
func governingConsts(info *types.Info, body ast.Node, st ast.Node) []string {
	path := core.PathTo(body, st)
	for i := len(path) - 2; i >= 0; i-- {
		switch par := path[i].(type) {
		case *ast.CaseClause:
			var out []string
			for _, e := range par.List {
				if tv, ok := info.Types[e]; ok && tv.Value != nil {
					out = append(out, tv.Value.String())
				}
			}
			if len(out) > 0 {
				return out
			}
		case *ast.IfStmt:
			child := path[i+1]
			inThen := child == ast.Node(par.Body)
			inElse := par.Else != nil && child == ast.Node(par.Else)
			if !inThen && !inElse {
				continue
			}
			if _, y, eq, ok := eqTest(par.Cond, inThen); ok && eq {
				if tv, ok := info.Types[y]; ok && tv.Value != nil {
					return []string{tv.Value.String()}
				}
			}
		}
	}
	return nil
}

// mentionsFieldR: does expression e mention struct field fld, directly or through locals with a single definition
// (`max := l.pool.MaxBufferSize; if n >= max`)?
func mentionsFieldR(info *types.Info, body ast.Node, e ast.Node, fld *types.Var) bool {
	if e == nil || fld == nil {
		return false
	}
	found := false
	var visit func(n ast.Node, depth int)
	visit = func(n ast.Node, depth int) {
		if found || depth > 5 {
			return
		}
		core.Walk(n, true, func(x ast.Node) bool {
			if found {
				return false
			}
			switch t := x.(type) {
			case *ast.SelectorExpr:
				if core.SelField(info, t) == fld {
					found = true
					return false
				}
			case *ast.Ident:
				if d := resolveLocal(info, body, t); d != ast.Expr(t) {
					visit(d, depth+1)
				}
			}
			return true
		})
	}
	visit(e, 0)
	return found
}

// rootExpr strips selectors, indexing, dereferences, address-of and parentheses: a.b[i].c, (*a).b, &a -> a.
func rootExpr(e ast.Expr) ast.Expr {
	for {
		switch x := e.(type) {
		case *ast.ParenExpr:
			e = x.X
		case *ast.SelectorExpr:
			e = x.X
		case *ast.IndexExpr:
			e = x.X
		case *ast.StarExpr:
			e = x.X
		case *ast.UnaryExpr:
			if x.Op.String() != "&" {
				return e
			}
			e = x.X
		default:
			return e
		}
	}
}

// splicedScope reports whether scope sc (where a variable is declared) lies entirely outside body, i.e. belongs to
// another function declaration whose statements were spliced into body by the helper expansion.
func splicedScope(sc *types.Scope, body ast.Node) bool {
	return sc.End() <= body.Pos() || sc.Pos() >= body.End()
}

// boolLeaves splits a boolean expression at &&, || and ! into its atomic tests (go/cfg keeps a compound condition as one node).
func boolLeaves(e ast.Expr) []ast.Expr {
	switch x := ast.Unparen(e).(type) {
	case *ast.BinaryExpr:
		if s := x.Op.String(); s == "&&" || s == "||" {
			return append(boolLeaves(x.X), boolLeaves(x.Y)...)
		}
	case *ast.UnaryExpr:
		if x.Op.String() == "!" {
			return boolLeaves(x.X)
		}
	}
	return []ast.Expr{ast.Unparen(e)}
}
