package props

import (
	"fmt"
	"go/ast"
	"go/token"
	"go/types"

	"gpverif/core"
)

// staleCarry: per-iteration state kept in variables that outlive the iteration.
//
// A variable declared outside a loop and assigned inside it from per-iteration values (the range variables or anything
// declared in the body) holds "the state for this item". If such an assignment sits under a condition that itself depends
// on per-iteration values, then in an iteration where the condition is false the variable still holds the previous item's
// state; every use of the variable outside that conditional branch then works on stale data. A loop-invariant guard
// (a query flag) is harmless: either every iteration refreshes the variable or none does.
//
// Returned: one line per hazard (position: assignment; use position).
func staleCarryHazards(p *core.Prog, f *core.Fn, loop *ast.RangeStmt) []string {
	info := f.Info()
	inLoop := func(o types.Object) bool {
		return o != nil && o.Pos() >= loop.Pos() && o.Pos() < loop.End()
	}
	variant := func(e ast.Expr) bool {
		v := false
		core.Walk(e, true, func(x ast.Node) bool {
			if id, ok := x.(*ast.Ident); ok {
				if o, isVar := info.Uses[id].(*types.Var); isVar && !o.IsField() && inLoop(o) {
					v = true
				}
			}
			return true
		})
		return v
	}
	parents := core.Parents(loop.Body)
	var out []string
	core.Walk(loop.Body, false, func(x ast.Node) bool {
		as, ok := x.(*ast.AssignStmt)
		if !ok || as.Tok != token.ASSIGN {
			return true
		}
		for i, l := range as.Lhs {
			id, ok := ast.Unparen(l).(*ast.Ident)
			if !ok {
				continue
			}
			o, isVar := info.Uses[id].(*types.Var)
			if !isVar || inLoop(o) || o.IsField() || o.Parent() == o.Pkg().Scope() {
				continue
			}
			var rhs ast.Expr
			if len(as.Rhs) == len(as.Lhs) {
				rhs = as.Rhs[i]
			} else if len(as.Rhs) == 1 {
				rhs = as.Rhs[0]
			}
			if rhs == nil || !variant(rhs) {
				continue
			}
			// self-referential refresh (x = f(x, item): accumulators, buffer reuse) carries state on purpose
			if core.MentionsObj(info, rhs, o) {
				continue
			}
			// enclosing conditional branches between the assignment and the loop body
			var n ast.Node = as
			for n != nil && n != ast.Node(loop.Body) {
				par := parents[n]
				ifs, isIf := par.(*ast.IfStmt)
				if isIf && (ast.Node(ifs.Body) == n || ifs.Else == n) && variant(ifs.Cond) && !core.MentionsObj(info, ifs.Cond, o) { // a guard on the variable itself is a running min / max
					// every use of the variable in the loop body must lie inside this branch
					branch := n
					core.Walk(loop.Body, true, func(u ast.Node) bool {
						uid, ok := u.(*ast.Ident)
						if !ok || info.Uses[uid] != types.Object(o) {
							return true
						}
						if uid.Pos() >= branch.Pos() && uid.End() <= branch.End() {
							return true
						}
						// a (re)definition elsewhere is not a use
						if pa, ok := parents[uid].(*ast.AssignStmt); ok {
							for _, ll := range pa.Lhs {
								if ll == ast.Expr(uid) {
									return true
								}
							}
						}
						out = append(out, fmt.Sprintf("%s: %s is refreshed from the current item only if %s (a per-item condition) but used at %s regardless: when the condition is false the value of an earlier item is used",
							p.Rel(as.Pos()), o.Name(), core.Str(ifs.Cond), p.Rel(uid.Pos())))
						return false
					})
				}
				if cc, isCase := par.(*ast.CaseClause); isCase {
					_ = cc // switch-guarded refreshes are treated like if: find the switch tag / case expressions
					for _, ce := range cc.List {
						if variant(ce) {
							out = append(out, fmt.Sprintf("%s: %s is refreshed from the current item only in one case of a per-item switch", p.Rel(as.Pos()), o.Name()))
						}
					}
				}
				n = par
			}
		}
		return true
	})
	// one report per (assignment, variable) is enough
	seen := map[string]bool{}
	var uniq []string
	for _, h := range out {
		k := h[:len(h)/2]
		if !seen[k] {
			seen[k] = true
			uniq = append(uniq, h)
		}
	}
	return uniq
}
