package props

import (
	"fmt"
	"go/ast"
	"go/constant"
	"go/token"
	"go/types"

	"gpverif/core"
)

// mini is an interpreter for the comparison-only helper functions of the repository (port and flag
// heuristics, table lookups, plan selection): integers, booleans, fixed arrays / slices of
// integers, if / switch / return, calls of other module functions of the same kind. It walks the
// syntax tree on one assignment of representative inputs; it does not build or run the program.
// Anything outside this fragment makes the evaluation "undecided".
type mini struct {
	p      *core.Prog
	undec  string
	depth  int
	opaque map[string]func(args []mval) mval // callee name -> stub
	fields map[string]mval                   // struct fields of locals / parameters, keyed by the rendered selector
	trace  []string                          // appends / increments encountered (for accumulator-style code)
}

type mval struct {
	kind string // "int" | "bool" | "arr" | "str"
	i    int64
	b    bool
	s    string
	arr  []int64
	off  int64
}

func mInt(i int64) mval   { return mval{kind: "int", i: i} }
func mBool(b bool) mval   { return mval{kind: "bool", b: b} }
func mStr(s string) mval  { return mval{kind: "str", s: s} }
func mArr(a []int64) mval { return mval{kind: "arr", arr: a} }

type menv struct {
	info *types.Info
	vars map[types.Object]mval
}

func (m *mini) fail(format string, a ...any) mval {
	if m.undec == "" {
		m.undec = fmt.Sprintf(format, a...)
	}
	return mval{}
}

func (m *mini) eval(env *menv, e ast.Expr) mval {
	if m.undec != "" {
		return mval{}
	}
	e = ast.Unparen(e)
	if tv, ok := env.info.Types[e]; ok && tv.Value != nil {
		switch tv.Value.Kind() {
		case constant.Int:
			v, _ := constant.Int64Val(tv.Value)
			return mInt(v)
		case constant.Bool:
			return mBool(constant.BoolVal(tv.Value))
		case constant.String:
			return mStr(constant.StringVal(tv.Value))
		}
	}
	switch x := e.(type) {
	case *ast.Ident:
		if o := env.info.Uses[x]; o != nil {
			if v, ok := env.vars[o]; ok {
				return v
			}
		}
		return m.fail("unbound identifier %s", x.Name)
	case *ast.SelectorExpr:
		if o := env.info.Uses[x.Sel]; o != nil {
			if v, ok := env.vars[o]; ok {
				return v
			}
		}
		if v, ok := m.fields[core.Str(x)]; ok {
			return v
		}
		// zero value of an unset boolean / integer field
		if t := env.info.TypeOf(x); t != nil {
			if b, ok := t.Underlying().(*types.Basic); ok {
				if b.Kind() == types.Bool {
					return mBool(false)
				}
				if b.Info()&types.IsInteger != 0 {
					return mInt(0)
				}
			}
		}
		return m.fail("unbound selector %s", core.Str(x))
	case *ast.CompositeLit:
		// struct literal: record its keyed fields under the literal's own rendering; the assignment copies them
		return mval{kind: "struct"}
	case *ast.IndexExpr:
		a := m.eval(env, x.X)
		i := m.eval(env, x.Index)
		if a.kind != "arr" || i.kind != "int" {
			return m.fail("index of non-array %s", core.Str(x))
		}
		k := a.off + i.i
		if k < 0 || k >= int64(len(a.arr)) {
			return m.fail("index %d out of range in %s", k, core.Str(x))
		}
		return mInt(a.arr[k])
	case *ast.SliceExpr:
		a := m.eval(env, x.X)
		if a.kind != "arr" {
			return m.fail("slice of non-array %s", core.Str(x))
		}
		lo := int64(0)
		if x.Low != nil {
			lo = m.eval(env, x.Low).i
		}
		return mval{kind: "arr", arr: a.arr, off: a.off + lo}
	case *ast.UnaryExpr:
		v := m.eval(env, x.X)
		switch x.Op {
		case token.NOT:
			return mBool(!v.b)
		case token.SUB:
			return mInt(-v.i)
		case token.XOR:
			return mInt(^v.i & 0xff)
		}
	case *ast.BinaryExpr:
		if x.Op == token.LAND {
			a := m.eval(env, x.X)
			if !a.b {
				return mBool(false)
			}
			return m.eval(env, x.Y)
		}
		if x.Op == token.LOR {
			a := m.eval(env, x.X)
			if a.b {
				return mBool(true)
			}
			return m.eval(env, x.Y)
		}
		a, b := m.eval(env, x.X), m.eval(env, x.Y)
		if a.kind == "str" || b.kind == "str" {
			switch x.Op {
			case token.EQL:
				return mBool(a.s == b.s)
			case token.NEQ:
				return mBool(a.s != b.s)
			}
			return m.fail("string operator %s", x.Op)
		}
		if a.kind == "bool" && b.kind == "bool" {
			switch x.Op {
			case token.EQL:
				return mBool(a.b == b.b)
			case token.NEQ:
				return mBool(a.b != b.b)
			}
		}
		switch x.Op {
		case token.EQL:
			return mBool(a.i == b.i)
		case token.NEQ:
			return mBool(a.i != b.i)
		case token.LSS:
			return mBool(a.i < b.i)
		case token.GTR:
			return mBool(a.i > b.i)
		case token.LEQ:
			return mBool(a.i <= b.i)
		case token.GEQ:
			return mBool(a.i >= b.i)
		case token.ADD:
			return mInt(a.i + b.i)
		case token.SUB:
			return mInt(a.i - b.i)
		case token.MUL:
			return mInt(a.i * b.i)
		case token.AND:
			return mInt(a.i & b.i)
		case token.OR:
			return mInt(a.i | b.i)
		case token.XOR:
			return mInt(a.i ^ b.i)
		case token.AND_NOT:
			return mInt(a.i &^ b.i)
		case token.SHL:
			return mInt(a.i << uint(b.i))
		case token.SHR:
			return mInt(a.i >> uint(b.i))
		}
	case *ast.CallExpr:
		// conversion
		if tv, ok := env.info.Types[x.Fun]; ok && tv.IsType() && len(x.Args) == 1 {
			v := m.eval(env, x.Args[0])
			if b, ok := tv.Type.Underlying().(*types.Basic); ok && v.kind == "int" {
				switch b.Kind() {
				case types.Uint8:
					v.i &= 0xff
				case types.Uint16:
					v.i &= 0xffff
				}
			}
			return v
		}
		name := core.CallName(env.info, x)
		var args []mval
		for _, a := range x.Args {
			args = append(args, m.eval(env, a))
		}
		if st, ok := m.opaque[name]; ok {
			return st(args)
		}
		if name == "builtin.len" && len(args) == 1 && args[0].kind == "arr" {
			return mInt(int64(len(args[0].arr)) - args[0].off)
		}
		if fo, ok := core.Callee(env.info, x).(*types.Func); ok && fo.Pkg() != nil {
			var callee *core.Fn
			for _, fn := range m.p.Funcs(fo.Pkg().Path()) {
				if fn.Obj == fo {
					callee = fn
				}
			}
			if callee != nil {
				var recvVal *mval
				if rx, _ := core.MethodCall(env.info, x); rx != nil {
					v := m.eval(env, rx)
					recvVal = &v
				}
				rs := m.call(callee, recvVal, args)
				if len(rs) >= 1 {
					return rs[0]
				}
				return mval{}
			}
		}
		return m.fail("call of %s cannot be interpreted", name)
	}
	return m.fail("unsupported expression %s", core.Str(e))
}

// call interprets fn on the given arguments and returns its results.
func (m *mini) call(fn *core.Fn, recv *mval, args []mval) []mval {
	m.depth++
	defer func() { m.depth-- }()
	if m.depth > 6 {
		m.fail("call depth")
		return nil
	}
	env := &menv{info: fn.Info(), vars: map[types.Object]mval{}}
	sig := fn.Obj.Type().(*types.Signature)
	if sig.Recv() != nil && recv != nil {
		env.vars[sig.Recv()] = *recv
	}
	for i := 0; i < sig.Params().Len() && i < len(args); i++ {
		env.vars[sig.Params().At(i)] = args[i]
	}
	rs, _ := m.block(env, fn.Decl.Body.List)
	return rs
}

func (m *mini) block(env *menv, list []ast.Stmt) (ret []mval, returned bool) {
	for _, st := range list {
		if m.undec != "" {
			return nil, true
		}
		switch s := st.(type) {
		case *ast.ReturnStmt:
			for _, r := range s.Results {
				ret = append(ret, m.eval(env, r))
			}
			return ret, true
		case *ast.IfStmt:
			if s.Init != nil {
				if _, rt := m.block(env, []ast.Stmt{s.Init}); rt {
					return nil, true
				}
			}
			c := m.eval(env, s.Cond)
			if c.b {
				if r, rt := m.block(env, s.Body.List); rt {
					return r, true
				}
			} else if s.Else != nil {
				var r []mval
				var rt bool
				if eb, ok := s.Else.(*ast.BlockStmt); ok {
					r, rt = m.block(env, eb.List)
				} else {
					r, rt = m.block(env, []ast.Stmt{s.Else})
				}
				if rt {
					return r, true
				}
			}
		case *ast.SwitchStmt:
			if s.Init != nil {
				m.block(env, []ast.Stmt{s.Init})
			}
			var tag *mval
			if s.Tag != nil {
				v := m.eval(env, s.Tag)
				tag = &v
			}
			var def *ast.CaseClause
			matched := false
			for _, cs := range s.Body.List {
				cc := cs.(*ast.CaseClause)
				if cc.List == nil {
					def = cc
					continue
				}
				for _, ce := range cc.List {
					v := m.eval(env, ce)
					hit := false
					if tag == nil {
						hit = v.b
					} else if tag.kind == "str" {
						hit = v.s == tag.s
					} else if tag.kind == "bool" {
						hit = v.b == tag.b
					} else {
						hit = v.i == tag.i
					}
					if hit {
						matched = true
						break
					}
				}
				if matched {
					if r, rt := m.block(env, cc.Body); rt {
						return r, true
					}
					break
				}
			}
			if !matched && def != nil {
				if r, rt := m.block(env, def.Body); rt {
					return r, true
				}
			}
		case *ast.IncDecStmt:
			m.trace = append(m.trace, core.Str(s.X)+s.Tok.String())
		case *ast.AssignStmt:
			if len(s.Lhs) == len(s.Rhs) {
				for i, l := range s.Lhs {
					if id, ok := l.(*ast.Ident); ok && id.Name == "_" {
						continue
					}
					if c, ok := ast.Unparen(s.Rhs[i]).(*ast.CallExpr); ok && core.CallName(env.info, c) == "builtin.append" && len(c.Args) == 2 {
						m.trace = append(m.trace, "append("+core.Str(c.Args[0])+","+core.Str(c.Args[1])+")")
						continue
					}
					if sel, ok := ast.Unparen(l).(*ast.SelectorExpr); ok {
						if m.fields == nil {
							m.fields = map[string]mval{}
						}
						m.fields[core.Str(sel)] = m.eval(env, s.Rhs[i])
						continue
					}
					if cl, ok := ast.Unparen(s.Rhs[i]).(*ast.CompositeLit); ok {
						// x := T{F: v, ...}: record x.F
						if m.fields == nil {
							m.fields = map[string]mval{}
						}
						for _, el := range cl.Elts {
							if kv, ok := el.(*ast.KeyValueExpr); ok {
								if t := env.info.TypeOf(kv.Value); t != nil {
									if b, ok := t.Underlying().(*types.Basic); ok && b.Info()&(types.IsBoolean|types.IsInteger) != 0 {
										m.fields[core.Str(l)+"."+core.Str(kv.Key)] = m.eval(env, kv.Value)
									}
								}
							}
						}
						if o := core.ObjOf(env.info, l); o != nil {
							env.vars[o] = mval{kind: "struct"}
						}
						continue
					}
					v := m.eval(env, s.Rhs[i])
					o := core.ObjOf(env.info, l)
					if o == nil {
						m.fail("assignment to %s", core.Str(l))
						return nil, true
					}
					switch s.Tok {
					case token.ASSIGN, token.DEFINE:
						env.vars[o] = v
					case token.ADD_ASSIGN:
						env.vars[o] = mInt(env.vars[o].i + v.i)
					default:
						m.fail("assignment operator %s", s.Tok)
					}
				}
			} else {
				m.fail("multi-value assignment")
			}
		case *ast.DeclStmt, *ast.EmptyStmt:
		case *ast.BlockStmt:
			if r, rt := m.block(env, s.List); rt {
				return r, true
			}
		case *ast.ExprStmt:
			// pure expression statements (compiler hints) are ignored
		default:
			m.fail("unsupported statement %T", st)
			return nil, true
		}
	}
	return nil, false
}
