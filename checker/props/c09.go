package props

import (
	"fmt"
	"go/ast"
	"go/token"
	"go/types"
	"sort"
	"strings"

	"gpverif/core"
)

func init() { register("C09", c09) }

const pkgNode = "pkg/goDB/conditions/node"

type condLeaf struct {
	attr, cmp string
	branch    int
	fn        *ast.FuncLit
}

// expected getter per attribute of the instrumented condition language
var leafGetter = map[string]string{"sip": "GetSIP", "dip": "GetDIP", "snet": "GetSIP", "dnet": "GetDIP", "dport": "GetDport", "proto": "GetProto"}
var ipAttr = map[string]bool{"sip": true, "dip": true, "snet": true, "dnet": true}

// expected truth of a comparator for the relation lt/eq/gt of (flow value, condition value)
func cmpTruth(cmp string, rel int) bool {
	switch cmp {
	case "=":
		return rel == 0
	case "!=":
		return rel != 0
	case "<":
		return rel < 0
	case ">":
		return rel > 0
	case "<=":
		return rel <= 0
	case ">=":
		return rel >= 0
	}
	return false
}

func c09(r *core.Run) {
	r.Expl = "C09 (conditions follow Boolean logic): decides, exhaustively over the finite abstraction of each function (its control flow only compares bytes / byte strings and lengths, so behaviour depends only on the order type lt/eq/gt of each compared pair and on length equality): (1) for every (attribute, comparator) leaf closure built by generateCompareValue: it reads the attribute's own getter, its truth table equals the comparator's meaning ('=' all compared parts equal, '!=' the exact complement, '<' '>' '<=' '>=' on the single compared pair), address/network closures that compare a prefix are false ('=') / true ('!=') when the key's address length differs from the condition's (IP family guard); (2) no leaf closure and no Evaluate method stores through the key it is given (no assignment through an alias of a getter result, no mutating method, no copy into it); (3) andNode/orNode/notNode.Evaluate are exactly &&, ||, ! of their children; transformComparator is the complement table; negationNormalForm maps (and,¬)->or, (or,¬)->and, (not)->flip; (4) desugaring table src/dst/port/ipproto/protocol/host/net; (5) the prefix length parsed from text is bounded below and above before it is used as index or shift count. NOT decided: the truth of whole formulas on concrete keys, DNS resolution, the masking arithmetic of conditionBytesAndNetmask."
	r.Floor = 60
	r.Rules = append(r.Rules, "leaf-table: abstract truth-table enumeration of every comparison closure (P7)", "evaluation-pure (P8, syntactic alias tracking inside closures)", "pruning-soundness (P7: the version restriction derived per connective is implied by the condition)", "connectives", "complement-table", "desugar-table", "parsed-int-bounds (P13b)")
	p := r.Prog("cgo")
	c09Leaves(r, p)
	c09Connectives(r, p)
	c09Desugar(r, p)
	ruleNetmaskBounds(r, p)
	ruleFamilyDecidedOnce(r, p)
	// the IP-version restriction a query derives from its condition decides which part of a block is evaluated at all:
	// it must be implied by the condition for every connective (shared with C08), otherwise `a | b` evaluated over a
	// database is no longer the union of `a` and `b`
	c08Pruning(r, p)
}

func c09Leaves(r *core.Run, p *core.Prog) {
	const rule = "leaf-table"
	f := r.MustFunc(rule, pkgNode, "generateCompareValue")
	if f == nil {
		return
	}
	info := f.Info()
	fldAttr := p.FieldObj(pkgNode, "conditionNode", "attribute")
	fldCmp := p.FieldObj(pkgNode, "conditionNode", "comparator")
	fldFn := p.FieldObj(pkgNode, "conditionNode", "compareValue")
	if fldAttr == nil || fldCmp == nil || fldFn == nil {
		r.Missing(rule, "conditionNode.{attribute,comparator,compareValue}")
		return
	}
	var leaves []condLeaf
	var outer *ast.SwitchStmt
	core.Walk(f.Decl.Body, false, func(x ast.Node) bool {
		if s, ok := x.(*ast.SwitchStmt); ok && outer == nil && s.Tag != nil && core.SelField(info, s.Tag) == fldAttr {
			outer = s
		}
		return true
	})
	if outer == nil {
		r.Undecided(rule, "generateCompareValue:attribute-switch", p.Rel(f.Decl.Pos()), "no switch over condition.attribute")
		return
	}
	for _, cs := range outer.Body.List {
		cc := cs.(*ast.CaseClause)
		for _, ce := range cc.List {
			attr, ok := core.ConstStr(info, ce)
			if !ok {
				r.Undecided(rule, "generateCompareValue:case", p.Rel(ce.Pos()), "non-constant attribute case")
				continue
			}
			branch := 0
			for _, st := range cc.Body {
				core.Walk(st, false, func(x ast.Node) bool {
					s, ok := x.(*ast.SwitchStmt)
					if !ok || s.Tag == nil || core.SelField(info, s.Tag) != fldCmp {
						return true
					}
					branch++
					for _, ics := range s.Body.List {
						icc := ics.(*ast.CaseClause)
						for _, ice := range icc.List {
							cmp, ok := core.ConstStr(info, ice)
							if !ok {
								continue
							}
							var fl *ast.FuncLit
							for _, b := range icc.Body {
								if a, ok := b.(*ast.AssignStmt); ok && len(a.Lhs) == 1 && core.SelField(info, a.Lhs[0]) == fldFn {
									fl, _ = a.Rhs[0].(*ast.FuncLit)
								}
							}
							if fl == nil {
								r.Undecided(rule, fmt.Sprintf("leaf:%s:%s#%d", attr, cmp, branch), p.Rel(icc.Pos()), "case does not assign a closure to compareValue")
								continue
							}
							leaves = append(leaves, condLeaf{attr, cmp, branch, fl})
						}
					}
					return false
				})
			}
		}
	}
	r.Stat("leaf_closures", len(leaves))
	tables := map[string]*boolFn{}
	for _, lf := range leaves {
		id := fmt.Sprintf("%s:%s#%d", lf.attr, lf.cmp, lf.branch)
		where := p.Rel(lf.fn.Pos())
		if lf.fn.Type.Params == nil || len(lf.fn.Type.Params.List) != 1 || len(lf.fn.Type.Params.List[0].Names) != 1 {
			r.Undecided(rule, "leaf:"+id, where, "closure signature")
			continue
		}
		keyParam := info.Defs[lf.fn.Type.Params.List[0].Names[0]]
		// (2) purity
		imp := keyStores(info, lf.fn.Body, keyParam)
		r.Check("evaluation-pure", "leaf:"+id, where, len(imp) == 0, "evaluating the condition stores through the flow key it is given: "+strings.Join(imp, "; "))
		shared := closureSharedWrites(info, lf.fn)
		r.Check("evaluation-pure", "leaf:"+id+":no-shared-state", where, len(shared) == 0, "the closure writes to state captured from the enclosing function ("+strings.Join(shared, "; ")+"): the instrumented condition is evaluated concurrently by every query worker, so evaluations overwrite each other's scratch data and results depend on the schedule")
		bf := abstractBoolFn(info, lf.fn.Body)
		if bf.undec != "" {
			r.Undecided(rule, "leaf:"+id, where, "closure is not of the comparison-only shape: "+bf.undec)
			continue
		}
		tables[id] = bf
		// getter
		want := leafGetter[lf.attr]
		if want == "" {
			r.Check(rule, "leaf:"+id+":getter", where, false, "attribute "+lf.attr+" has no known key getter")
			continue
		}
		okG, got := len(bf.rels) > 0, []string{}
		for _, k := range bf.rels {
			gs := gettersIn(info, bf, bf.relX[k], keyParam)
			got = append(got, gs...)
			if len(gs) != 1 || gs[0] != want {
				okG = false
			}
			if len(gettersIn(info, bf, bf.relY[k], keyParam)) != 0 {
				okG = false
			}
		}
		r.Check(rule, "leaf:"+id+":getter", where, okG, fmt.Sprintf("condition on %q must compare the key's %s() with the condition value; compares %v", lf.attr, want, got))
		// truth table against the comparator's meaning
		bad := ""
		for _, env := range bf.envs() {
			v := bf.table[env.key(bf.rels, bf.bools)]
			opaque := false
			fam := true
			for _, b := range bf.bools {
				if strings.HasPrefix(b, "OPAQUE:") {
					opaque = true
				} else if !env.b[b] {
					fam = false
				}
			}
			if opaque {
				bad = "closure depends on something other than byte comparisons and length equality: " + strings.Join(bf.bools, ", ")
				break
			}
			var want bool
			switch lf.cmp {
			case "=", "!=":
				allEq := fam
				for _, k := range bf.rels {
					if env.rel[k] != 0 {
						allEq = false
					}
				}
				want = allEq == (lf.cmp == "=")
			default:
				if len(bf.rels) != 1 || !fam {
					if len(bf.rels) != 1 {
						bad = "ordering comparator over more than one compared pair"
					}
					continue
				}
				want = cmpTruth(lf.cmp, env.rel[bf.rels[0]])
			}
			if v != want && bad == "" {
				bad = fmt.Sprintf("for %s the closure yields %v, the comparator %q means %v", strings.TrimSuffix(env.key(bf.rels, bf.bools), ";"), v, lf.cmp, want)
			}
		}
		r.Check(rule, "leaf:"+id+":truth-table", where, bad == "", bad)
		// family guard for partial comparisons of addresses
		if ipAttr[lf.attr] {
			partial := false
			for _, k := range bf.rels {
				if isPartial(bf, bf.relX[k]) {
					partial = true
				}
			}
			hasFam := false
			for _, b := range bf.bools {
				if strings.HasPrefix(b, "FAM:") {
					hasFam = true
				}
			}
			r.Check(rule, "leaf:"+id+":ip-family-guard", where, !partial || hasFam,
				"the closure compares only a prefix / single byte of the address and never relates the key's address length to the condition's: it can be true ('=') for a flow of the other IP family")
		}
	}
	// sibling completeness: every attribute branch offers '=' and '!=' and they are complements (already implied by the tables); ordering comparators come in complement pairs
	byBranch := map[string]map[string]bool{}
	for _, lf := range leaves {
		k := fmt.Sprintf("%s#%d", lf.attr, lf.branch)
		if byBranch[k] == nil {
			byBranch[k] = map[string]bool{}
		}
		byBranch[k][lf.cmp] = true
	}
	keys := []string{}
	for k := range byBranch {
		keys = append(keys, k)
	}
	sort.Strings(keys)
	for _, k := range keys {
		m := byBranch[k]
		okPairs := m["="] == m["!="] && m["<"] == m[">="] && m[">"] == m["<="]
		r.Check(rule, "leaf:"+k+":complement-pairs-present", p.Rel(f.Decl.Pos()), okPairs && m["="], fmt.Sprintf("comparators offered: %v; each of =/!=, </>=, >/<= must come with its complement so that negation normal form can flip it", mapKeys(m)))
	}
	for _, a := range []string{"sip", "dip", "snet", "dnet", "dport", "proto"} {
		found := false
		for k := range byBranch {
			if strings.HasPrefix(k, a+"#") {
				found = true
			}
		}
		r.Check(rule, "attribute:"+a+":instrumented", p.Rel(outer.Pos()), found, "no comparison closures are generated for attribute "+a)
	}
}

func mapKeys(m map[string]bool) []string {
	var ks []string
	for k, v := range m {
		if v {
			ks = append(ks, k)
		}
	}
	sort.Strings(ks)
	return ks
}

// gettersIn lists the key getter methods mentioned (after local substitution) in e.
func gettersIn(info *types.Info, bf *boolFn, e ast.Expr, key types.Object) []string {
	seen := map[string]bool{}
	var visit func(e ast.Expr)
	visit = func(e ast.Expr) {
		core.Walk(e, false, func(x ast.Node) bool {
			if id, ok := x.(*ast.Ident); ok {
				if d, ok := bf.subst[info.Uses[id]]; ok {
					visit(d)
				}
			}
			if c, ok := x.(*ast.CallExpr); ok {
				if rx, m := core.MethodCall(info, c); rx != nil && core.ObjOf(info, rx) == key {
					seen[m] = true
				}
			}
			return true
		})
	}
	visit(e)
	var out []string
	for k := range seen {
		out = append(out, k)
	}
	sort.Strings(out)
	return out
}

// isPartial: after substitution, e is a slice / index of a getter result rather than the whole result.
func isPartial(bf *boolFn, e ast.Expr) bool {
	e = ast.Unparen(e)
	for {
		if id, ok := e.(*ast.Ident); ok {
			if d, ok := bf.subst[bf.info.Uses[id]]; ok {
				e = ast.Unparen(d)
				continue
			}
		}
		break
	}
	switch x := e.(type) {
	case *ast.SliceExpr, *ast.IndexExpr:
		return true
	case *ast.BinaryExpr:
		return isPartial(bf, x.X) || isPartial(bf, x.Y)
	}
	return false
}

// keyStores reports stores through the key parameter (or a local alias of a slice obtained from it).
func keyStores(info *types.Info, body *ast.BlockStmt, key types.Object) []string {
	alias := map[types.Object]bool{key: true}
	derives := func(e ast.Expr) bool {
		hit := false
		core.Walk(e, false, func(x ast.Node) bool {
			if id, ok := x.(*ast.Ident); ok && alias[info.Uses[id]] {
				hit = true
			}
			return !hit
		})
		if !hit {
			return false
		}
		// only slice / pointer typed values can alias the key's memory
		t := info.TypeOf(e)
		if t == nil {
			return true
		}
		switch t.Underlying().(type) {
		case *types.Slice, *types.Pointer, *types.Map:
			return true
		}
		return false
	}
	// fixed point over local definitions
	for changed := true; changed; {
		changed = false
		core.Walk(body, false, func(x ast.Node) bool {
			if a, ok := x.(*ast.AssignStmt); ok && len(a.Lhs) == len(a.Rhs) {
				for i, l := range a.Lhs {
					if o := core.ObjOf(info, l); o != nil && !alias[o] && derives(a.Rhs[i]) {
						alias[o] = true
						changed = true
					}
				}
			}
			return true
		})
	}
	var out []string
	baseIsAlias := func(e ast.Expr) bool {
		for {
			switch x := ast.Unparen(e).(type) {
			case *ast.IndexExpr:
				e = x.X
				continue
			case *ast.SliceExpr:
				e = x.X
				continue
			case *ast.StarExpr:
				e = x.X
				continue
			case *ast.CallExpr:
				return derives(x)
			case *ast.Ident:
				return alias[info.Uses[x]]
			}
			return false
		}
	}
	core.Walk(body, false, func(x ast.Node) bool {
		switch s := x.(type) {
		case *ast.AssignStmt:
			for _, l := range s.Lhs {
				switch ast.Unparen(l).(type) {
				case *ast.IndexExpr, *ast.StarExpr:
					if baseIsAlias(l) {
						out = append(out, core.Str(l)+" "+s.Tok.String()+" … writes into the key")
					}
				}
			}
		case *ast.IncDecStmt:
			if _, ok := ast.Unparen(s.X).(*ast.IndexExpr); ok && baseIsAlias(s.X) {
				out = append(out, core.Str(s.X)+s.Tok.String())
			}
		case *ast.CallExpr:
			name := core.CallName(info, s)
			if name == "builtin.copy" && len(s.Args) == 2 && baseIsAlias(s.Args[0]) {
				out = append(out, "copy into "+core.Str(s.Args[0]))
			}
			if rx, m := core.MethodCall(info, s); rx != nil && baseIsAlias(rx) {
				if !(strings.HasPrefix(m, "Get") || strings.HasPrefix(m, "Is") || m == "Len" || m == "String" || m == "Key") {
					out = append(out, "calls "+m+" on the key")
				}
			}
		}
		return true
	})
	return out
}

func c09Connectives(r *core.Run, p *core.Prog) {
	const rule = "connectives"
	type conn struct {
		typ  string
		want func(a, b bool) bool
		n    int
	}
	for _, c := range []conn{
		{"andNode", func(a, b bool) bool { return a && b }, 2},
		{"orNode", func(a, b bool) bool { return a || b }, 2},
		{"notNode", func(a, _ bool) bool { return !a }, 1},
	} {
		f := r.MustFunc(rule, pkgNode, c.typ+".Evaluate")
		if f == nil {
			continue
		}
		info := f.Info()
		sig := f.Obj.Type().(*types.Signature)
		key := sig.Params().At(0)
		imp := keyStores(info, f.Decl.Body, key)
		r.Check("evaluation-pure", c.typ+".Evaluate", p.Rel(f.Decl.Pos()), len(imp) == 0, strings.Join(imp, "; "))
		bf := abstractBoolFn(info, f.Decl.Body)
		where := p.Rel(f.Decl.Pos())
		if bf.undec != "" || len(bf.rels) != 0 || len(bf.bools) != c.n {
			r.Check(rule, c.typ+".Evaluate", where, false, fmt.Sprintf("expected a Boolean combination of exactly %d child evaluations, found atoms %v (%s)", c.n, bf.bools, bf.undec))
			continue
		}
		// each atom must be <child>.Evaluate(key) on distinct children
		okAtoms := true
		for _, b := range bf.bools {
			if !strings.HasPrefix(b, "OPAQUE:") || !strings.HasSuffix(b, ".Evaluate("+key.Name()+")") {
				okAtoms = false
			}
		}
		bad := ""
		for _, env := range bf.envs() {
			a := env.b[bf.bools[0]]
			b := a
			if c.n == 2 {
				b = env.b[bf.bools[1]]
			}
			if bf.table[env.key(bf.rels, bf.bools)] != c.want(a, b) {
				bad = fmt.Sprintf("for children (%v,%v) Evaluate yields %v", a, b, bf.table[env.key(bf.rels, bf.bools)])
			}
		}
		r.Check(rule, c.typ+".Evaluate", where, okAtoms && bad == "", orStr(bad, "atoms: "+strings.Join(bf.bools, ", ")))
	}
	if f := r.MustFunc(rule, pkgNode, "conditionNode.Evaluate"); f != nil {
		info := f.Info()
		fldFn := p.FieldObj(pkgNode, "conditionNode", "compareValue")
		okE := false
		core.Walk(f.Decl.Body, false, func(x ast.Node) bool {
			if rs, ok := x.(*ast.ReturnStmt); ok && len(rs.Results) == 1 {
				if c, ok := ast.Unparen(rs.Results[0]).(*ast.CallExpr); ok && core.SelField(info, c.Fun) == fldFn {
					okE = true
				}
			}
			return true
		})
		r.Check(rule, "conditionNode.Evaluate", p.Rel(f.Decl.Pos()), okE, "a leaf must evaluate to its instrumented comparison closure, unnegated")
	}
	// complement table
	if f := r.MustFunc("complement-table", pkgNode, "transformComparator"); f != nil {
		info := f.Info()
		got := map[string]string{}
		core.Walk(f.Decl.Body, false, func(x ast.Node) bool {
			cc, ok := x.(*ast.CaseClause)
			if !ok || cc.List == nil {
				return true
			}
			for _, st := range cc.Body {
				if rs, ok := st.(*ast.ReturnStmt); ok && len(rs.Results) == 2 {
					if v, ok := core.ConstStr(info, rs.Results[0]); ok {
						for _, ce := range cc.List {
							if k, ok := core.ConstStr(info, ce); ok {
								got[k] = v
							}
						}
					}
				}
			}
			return true
		})
		want := map[string]string{"=": "!=", "!=": "=", "<": ">=", ">": "<=", "<=": ">", ">=": "<"}
		for k, v := range want {
			r.Check("complement-table", "transformComparator:"+k, p.Rel(f.Decl.Pos()), got[k] == v, fmt.Sprintf("negating %q must give %q, the table gives %q", k, v, got[k]))
		}
		for k := range got {
			if _, ok := want[k]; !ok {
				r.Check("complement-table", "transformComparator:"+k, p.Rel(f.Decl.Pos()), false, "unknown comparator in the complement table")
			}
		}
	}
	// negation normal form: in the type switch, the andNode case returns orNode under `negate`, andNode otherwise; dual for orNode; notNode flips negate; conditionNode transforms the comparator iff negate
	if f := r.MustFunc("complement-table", pkgNode, "negationNormalForm"); f != nil {
		info := f.Info()
		var ts *ast.TypeSwitchStmt
		core.Walk(f.Decl.Body, true, func(x ast.Node) bool {
			if s, ok := x.(*ast.TypeSwitchStmt); ok && ts == nil {
				ts = s
			}
			return true
		})
		if ts == nil {
			r.Undecided("complement-table", "negationNormalForm:type-switch", p.Rel(f.Decl.Pos()), "no type switch found")
			return
		}
		// the boolean parameter of the helper closure
		var negate types.Object
		core.Walk(f.Decl.Body, true, func(x ast.Node) bool {
			if fl, ok := x.(*ast.FuncLit); ok && negate == nil {
				for _, fld := range fl.Type.Params.List {
					for _, nm := range fld.Names {
						if b, ok := info.Defs[nm].Type().Underlying().(*types.Basic); ok && b.Kind() == types.Bool {
							negate = info.Defs[nm]
						}
					}
				}
			}
			return true
		})
		litType := func(e ast.Expr) string {
			if cl, ok := ast.Unparen(e).(*ast.CompositeLit); ok {
				return core.Str(cl.Type)
			}
			return ""
		}
		fldComparator := p.FieldObj(pkgNode, "conditionNode", "comparator")
		for _, cs := range ts.Body.List {
			cc := cs.(*ast.CaseClause)
			if len(cc.List) != 1 {
				continue
			}
			tn := core.Str(cc.List[0])
			where := p.Rel(cc.Pos())
			if tn != "andNode" && tn != "orNode" && tn != "notNode" && tn != "conditionNode" {
				continue
			}
			// every path through the case body, with the outcome of each test of the negation flag (any polarity / branch
			// order) and what is returned
			wrap := &ast.BlockStmt{Lbrace: cc.Colon, List: cc.Body, Rbrace: cc.End()}
			g := core.NewGraph(info, wrap)
			caseVar := info.Implicits[cc]
			cl := func(n ast.Node, cond *bool) []ev {
				var out []ev
				if cond != nil {
					if atom, truth := normCond(n.(ast.Expr), *cond); negate != nil && core.ObjOf(info, atom) == negate {
						out = append(out, ev{label: map[bool]string{true: "neg", false: "plain"}[truth]})
					}
				}
				for _, c := range core.Calls(n, false) {
					if core.CallName(info, c) == pkgNode+".transformComparator" {
						out = append(out, ev{label: "transform"})
					}
					if len(c.Args) == 3 && negate != nil {
						if core.ObjOf(info, c.Args[1]) == negate {
							out = append(out, ev{label: "child-same-flag"})
						} else if atom, truth := normCond(c.Args[1], true); core.ObjOf(info, atom) == negate && !truth {
							out = append(out, ev{label: "child-flipped-flag"})
						} else if fl, ok := c.Fun.(*ast.Ident); ok && info.Uses[fl] != nil && info.Uses[fl].Name() == "helper" {
							out = append(out, ev{label: "child-other-flag"})
						}
					}
				}
				if a, ok := n.(*ast.AssignStmt); ok {
					for _, l := range a.Lhs {
						if core.SelField(info, l) == fldComparator {
							out = append(out, ev{label: "set-comparator"})
						}
					}
				}
				if rs, ok := n.(*ast.ReturnStmt); ok && len(rs.Results) >= 1 {
					switch {
					case core.IsNil(info, rs.Results[0]):
						out = append(out, ev{label: "ret:nil"})
					case litType(rs.Results[0]) != "":
						out = append(out, ev{label: "ret:" + litType(rs.Results[0])})
					case caseVar != nil && core.ObjOf(info, rs.Results[0]) == caseVar:
						out = append(out, ev{label: "ret:casevar"})
					default:
						if _, isCall := ast.Unparen(rs.Results[0]).(*ast.CallExpr); isCall {
							out = append(out, ev{label: "ret:call"})
						} else {
							out = append(out, ev{label: "ret:value"})
						}
					}
				}
				return out
			}
			fake := &core.Fn{Prog: p, Pkg: f.Pkg, Decl: &ast.FuncDecl{Body: wrap, Name: f.Decl.Name, Type: &ast.FuncType{}}, Obj: f.Obj, Name: f.Name}
			trs, ok := traces(fake, g, cl, 4000)
			if !ok {
				r.Undecided("complement-table", "negationNormalForm:"+tn, where, "too many paths")
				continue
			}
			bad, nNeg, nPlain := "", 0, 0
			dual := map[string]string{"andNode": "orNode", "orNode": "andNode"}[tn]
			for _, t := range trs {
				if t.has("ret:nil") || (t.has("neg") && t.has("plain")) {
					continue // error return / infeasible
				}
				pl := pathLines(p, g, t.path)
				switch tn {
				case "andNode", "orNode":
					switch {
					case t.has("neg"):
						nNeg++
						if !t.has("ret:" + dual) {
							bad = fmt.Sprintf("De Morgan: a negated %s must become %s: %s", tn, dual, pl)
						}
					case t.has("plain"):
						nPlain++
						if !t.has("ret:" + tn) {
							bad = fmt.Sprintf("an unnegated %s must stay %s: %s", tn, tn, pl)
						}
					default:
						bad = fmt.Sprintf("a %s is rebuilt without consulting the negation flag: %s", tn, pl)
					}
					if t.count("child-same-flag") != 2 || t.has("child-flipped-flag") || t.has("child-other-flag") {
						bad = fmt.Sprintf("both children of a %s must be normalised with the current negation flag (found %d such calls): %s", tn, t.count("child-same-flag"), pl)
					}
				case "notNode":
					nNeg, nPlain = 1, 1
					if t.count("child-flipped-flag") != 1 || t.has("child-same-flag") || !t.has("ret:call") {
						bad = "a not-node must be replaced by its child normalised with the flipped negation flag: " + pl
					}
				case "conditionNode":
					// the by-value copy of the leaf is "unchanged" only if its comparator was not assigned on the path
					unchanged := t.has("ret:casevar") && !t.has("set-comparator")
					_ = unchanged
					switch {
					case t.has("plain"):
						nPlain++
						if !unchanged {
							bad = "a leaf that is not negated must be returned unchanged: " + pl
						}
					case t.has("neg"):
						nNeg++
						if !t.has("transform") || !t.has("set-comparator") || unchanged {
							bad = "a negated leaf must get the complement comparator (transformComparator): " + pl
						}
					default:
						bad = "a leaf is handled without consulting the negation flag: " + pl
					}
				}
			}
			r.Check("complement-table", "negationNormalForm:"+tn, where, bad == "" && nNeg > 0 && nPlain > 0, orStr(bad, fmt.Sprintf("%d negated / %d plain paths", nNeg, nPlain)))
		}
	}
}

func c09Desugar(r *core.Run, p *core.Prog) {
	const rule = "desugar-table"
	f := r.MustFunc(rule, pkgNode, "desugarConditionNode")
	if f == nil {
		return
	}
	info := f.Info()
	fldAttr := p.FieldObj(pkgNode, "conditionNode", "attribute")
	alias := map[string]string{}
	pair := map[string][2]string{}
	core.Walk(f.Decl.Body, false, func(x ast.Node) bool {
		cc, ok := x.(*ast.CaseClause)
		if !ok {
			return true
		}
		for _, ce := range cc.List {
			k, ok := core.ConstStr(info, ce)
			if !ok {
				continue
			}
			for _, st := range cc.Body {
				if a, ok := st.(*ast.AssignStmt); ok && len(a.Lhs) == 1 && core.SelField(info, a.Lhs[0]) == fldAttr {
					if v, ok := core.ConstStr(info, a.Rhs[0]); ok {
						alias[k] = v
					}
				}
				if rs, ok := st.(*ast.ReturnStmt); ok && len(rs.Results) == 1 {
					if c, ok := rs.Results[0].(*ast.CallExpr); ok && len(c.Args) == 5 {
						s1, ok1 := core.ConstStr(info, c.Args[1])
						s2, ok2 := core.ConstStr(info, c.Args[2])
						if ok1 && ok2 {
							pair[k] = [2]string{s1, s2}
						}
					}
				}
			}
		}
		return true
	})
	where := p.Rel(f.Decl.Pos())
	for k, v := range map[string]string{"src": "sip", "dst": "dip", "port": "dport", "ipproto": "proto", "protocol": "proto"} {
		r.Check(rule, "alias:"+k, where, alias[k] == v, fmt.Sprintf("%q must mean %q, found %q", k, v, alias[k]))
	}
	for k, v := range map[string][2]string{"host": {"sip", "dip"}, "net": {"snet", "dnet"}} {
		r.Check(rule, "pair:"+k, where, pair[k] == v, fmt.Sprintf("%q must mean (%s ∨ %s), found %v", k, v[0], v[1], pair[k]))
	}
	// the helper: '=' -> or of two '=' leaves on (src, dst); '!=' -> not(or)
	var helper *ast.FuncLit
	core.Walk(f.Decl.Body, true, func(x ast.Node) bool {
		if fl, ok := x.(*ast.FuncLit); ok && helper == nil {
			helper = fl
		}
		return true
	})
	if helper == nil {
		r.Undecided(rule, "helper", where, "no helper closure")
		return
	}
	var orLit *ast.CompositeLit
	notUnderNeq := false
	core.Walk(helper.Body, false, func(x ast.Node) bool {
		if cl, ok := x.(*ast.CompositeLit); ok && core.Str(cl.Type) == "orNode" && orLit == nil {
			orLit = cl
		}
		if ifs, ok := x.(*ast.IfStmt); ok {
			if b, ok := core.BinOp(ifs.Cond, token.EQL); ok {
				if v, ok := core.ConstStr(info, b.Y); ok && v == "!=" {
					core.Walk(ifs.Body, false, func(y ast.Node) bool {
						if cl, ok := y.(*ast.CompositeLit); ok && core.Str(cl.Type) == "notNode" {
							notUnderNeq = true
						}
						return true
					})
				}
			}
		}
		return true
	})
	okOr := false
	if orLit != nil && len(orLit.Elts) == 2 {
		params := helper.Type.Params.List
		var names []types.Object
		for _, fl := range params {
			for _, nm := range fl.Names {
				names = append(names, info.Defs[nm])
			}
		}
		// helper(name, src, dst, comparator, value)
		if len(names) == 5 {
			check := func(el ast.Expr, attrObj types.Object) bool {
				kv, ok := el.(*ast.KeyValueExpr)
				if !ok {
					return false
				}
				cl, ok := kv.Value.(*ast.CompositeLit)
				if !ok {
					return false
				}
				okA, okC, okV := false, false, false
				for _, e := range cl.Elts {
					k2 := e.(*ast.KeyValueExpr)
					switch core.Str(k2.Key) {
					case "attribute":
						okA = core.ObjOf(info, k2.Value) == attrObj
					case "comparator":
						v, ok := core.ConstStr(info, k2.Value)
						okC = ok && v == "="
					case "value":
						okV = core.ObjOf(info, k2.Value) == names[4]
					}
				}
				return okA && okC && okV
			}
			okOr = check(orLit.Elts[0], names[1]) && check(orLit.Elts[1], names[2])
		}
	}
	r.Check(rule, "helper:or-of-two-equalities", p.Rel(helper.Pos()), okOr, "host/net must desugar to (src = v) ∨ (dst = v)")
	r.Check(rule, "helper:negation-wraps-the-disjunction", p.Rel(helper.Pos()), notUnderNeq, "host/net != v must desugar to ¬((src = v) ∨ (dst = v))")
}

// ruleNetmaskBounds: an integer parsed with strconv.ParseInt that is later used as an index, slice
// bound, shift count or loop bound must be guarded below and above (P13b).
func ruleNetmaskBounds(r *core.Run, p *core.Prog) {
	const rule = "parsed-int-bounds"
	f := r.MustFunc(rule, pkgNode, "conditionBytesAndNetmask")
	if f == nil {
		return
	}
	info := f.Info()
	g := core.GraphOf(f)
	var v types.Object
	var parseNode int = -1
	for id, n := range g.Nodes {
		if n == nil {
			continue
		}
		core.Walk(n, false, func(x ast.Node) bool {
			if a, ok := x.(*ast.AssignStmt); ok && len(a.Rhs) == 1 && len(a.Lhs) == 2 {
				if _, ok := core.IsCall(info, a.Rhs[0], "strconv.ParseInt"); ok {
					v = core.ObjOf(info, a.Lhs[0])
					parseNode = id
				}
			}
			return true
		})
	}
	if v == nil {
		r.Undecided(rule, "conditionBytesAndNetmask:parsed-prefix-length", p.Rel(f.Decl.Pos()), "no strconv.ParseInt result found (if the prefix length is now parsed unsigned this obligation is moot and must be re-derived)")
		return
	}
	// uses: index / shift / slice expressions mentioning v
	var uses []int
	for id, n := range g.Nodes {
		if n == nil {
			continue
		}
		hit := false
		core.Walk(n, false, func(x ast.Node) bool {
			switch e := x.(type) {
			case *ast.IndexExpr:
				if core.MentionsObj(info, e.Index, v) {
					hit = true
				}
			case *ast.BinaryExpr:
				if (e.Op == token.SHL || e.Op == token.SHR) && core.MentionsObj(info, e.Y, v) {
					hit = true
				}
			}
			return true
		})
		if hit {
			uses = append(uses, id)
		}
	}
	if len(uses) == 0 {
		r.Undecided(rule, "conditionBytesAndNetmask:uses", p.Rel(f.Decl.Pos()), "parsed value is never used as index/shift")
		return
	}
	for _, side := range []string{"lower", "upper"} {
		okAll := true
		detail := ""
		for _, u := range uses {
			guarded := false
			for gid, gn := range g.Nodes {
				ce, ok := gn.(ast.Expr)
				if !ok || len(g.Succ[gid]) != 2 {
					continue
				}
				b, ok := core.BinOp(ce, token.LSS, token.GTR, token.LEQ, token.GEQ)
				if !ok || core.ObjOf(info, b.X) != v {
					continue
				}
				if _, isC := core.ConstInt(info, b.Y); !isC {
					continue
				}
				isLower := b.Op == token.LSS || b.Op == token.LEQ
				if (side == "lower") != isLower {
					continue
				}
				thenN, _, _ := g.CondEdges(gid)
				// the failing branch must leave; the use must not be reachable from it without passing the guard again
				if g.Reach(thenN, u, map[int]bool{gid: true}) {
					continue
				}
				// for the upper bound two alternative guards exist (v4 / v6 branch): accept if every path from the parse to the use passes some upper guard
				guarded = guarded || g.AllPathsThrough(parseNode, u, upperGuards(info, g, v, side))
			}
			if !guarded {
				okAll = false
				detail = fmt.Sprintf("use at %s is reachable without a %s-bound test on the parsed prefix length", p.Rel(g.Nodes[u].Pos()), side)
			}
		}
		r.Check(rule, "conditionBytesAndNetmask:prefix-length-"+side+"-bound", p.Rel(f.Decl.Pos()), okAll,
			orStr(detail, "")+map[string]string{"lower": " (a negative value indexes before the address bytes / shifts by more than 8)", "upper": ""}[side])
	}
}

// ruleFamilyDecidedOnce: how many bytes an address has is decided by the conversion that produces them
// (types.IPStringToBytes returns the bytes and whether they are an IPv4 address). A caller that indexes the bytes with a
// computed index must take the width from that verdict; deciding the family a second time from the text (contains ':' /
// contains '.') holds two beliefs about one fact, and they differ for addresses that contain both (::ffff:1.2.3.4): the
// bytes are 4 long, the caller's width is 16, the index runs off the end. Decided per call site in
// conditionBytesAndNetmask whose bytes are indexed by a non-constant: the isIPv4 result is bound (not discarded) and the
// function contains no textual family test.
func ruleFamilyDecidedOnce(r *core.Run, p *core.Prog) {
	const rule = "parsed-int-bounds"
	f := r.MustFunc(rule, pkgNode, "conditionBytesAndNetmask")
	if f == nil {
		return
	}
	info := f.Info()
	// byte variables indexed by a non-constant
	indexed := map[types.Object]bool{}
	core.Walk(f.Decl.Body, false, func(x ast.Node) bool {
		if ie, ok := x.(*ast.IndexExpr); ok {
			if _, isC := core.ConstInt(info, ie.Index); !isC {
				if o := core.ObjOf(info, ast.Unparen(ie.X)); o != nil {
					indexed[o] = true
				}
			}
		}
		return true
	})
	var textual []string
	core.Walk(f.Decl.Body, false, func(x ast.Node) bool {
		if c, ok := x.(*ast.CallExpr); ok && len(c.Args) == 2 {
			switch core.CallName(info, c) {
			case "strings.Contains", "strings.ContainsRune", "strings.ContainsAny", "strings.Index", "strings.IndexByte", "strings.Count":
				if v, okc := core.ConstStr(info, c.Args[1]); okc && (v == ":" || v == ".") {
					textual = append(textual, p.Rel(c.Pos())+": "+core.Str(c))
				}
			}
		}
		return true
	})
	n := 0
	core.Walk(f.Decl.Body, false, func(x ast.Node) bool {
		a, ok := x.(*ast.AssignStmt)
		if !ok || len(a.Rhs) != 1 || len(a.Lhs) != 3 {
			return true
		}
		c, ok := core.IsCall(info, a.Rhs[0], "pkg/types.IPStringToBytes")
		if !ok {
			return true
		}
		bo := core.ObjOf(info, a.Lhs[0])
		if bo == nil || !indexed[bo] {
			return true
		}
		n++
		id, _ := a.Lhs[1].(*ast.Ident)
		bound := id != nil && id.Name != "_"
		detail := ""
		switch {
		case !bound:
			detail = "the address-family verdict of " + core.Str(c) + " is discarded although the bytes are indexed with a computed index"
		case len(textual) > 0:
			detail = "the address family is decided a second time from the text"
		}
		if len(textual) > 0 && detail != "" {
			detail += " (" + strings.Join(textual, "; ") + "): for an address that contains both ':' and '.', e.g. ::ffff:1.2.3.4, the conversion yields 4 bytes while the width assumed here is 16, and the index runs past the end of the slice"
		}
		r.Check(rule, fmt.Sprintf("conditionBytesAndNetmask:address-width-from-the-conversion#%d", n), p.Rel(a.Pos()), bound && len(textual) == 0, detail)
		return true
	})
	if n == 0 {
		r.Undecided(rule, "conditionBytesAndNetmask:address-width-from-the-conversion", p.Rel(f.Decl.Pos()), "no IPStringToBytes call whose bytes are indexed by a computed index (the network case of the reference tree)")
	}
}

func upperGuards(info *types.Info, g *core.Graph, v types.Object, side string) map[int]bool {
	m := map[int]bool{}
	for gid, gn := range g.Nodes {
		ce, ok := gn.(ast.Expr)
		if !ok || len(g.Succ[gid]) != 2 {
			continue
		}
		b, ok := core.BinOp(ce, token.LSS, token.GTR, token.LEQ, token.GEQ)
		if !ok || core.ObjOf(info, b.X) != v {
			continue
		}
		if _, isC := core.ConstInt(info, b.Y); !isC {
			continue
		}
		isLower := b.Op == token.LSS || b.Op == token.LEQ
		if (side == "lower") == isLower {
			m[gid] = true
		}
	}
	return m
}

// closureSharedWrites lists writes inside fl to variables (or memory reachable from variables)
// declared outside fl.
func closureSharedWrites(info *types.Info, fl *ast.FuncLit) []string {
	var out []string
	outside := func(o types.Object) bool {
		if o == nil {
			return false
		}
		if _, isVar := o.(*types.Var); !isVar {
			return false
		}
		return o.Pos() < fl.Pos() || o.Pos() > fl.End()
	}
	rootOf := func(e ast.Expr) types.Object {
		for {
			switch x := ast.Unparen(e).(type) {
			case *ast.IndexExpr:
				e = x.X
			case *ast.SliceExpr:
				e = x.X
			case *ast.StarExpr:
				e = x.X
			case *ast.SelectorExpr:
				e = x.X
			default:
				return core.ObjOf(info, e)
			}
		}
	}
	core.Walk(fl.Body, false, func(x ast.Node) bool {
		switch s := x.(type) {
		case *ast.AssignStmt:
			if s.Tok == token.DEFINE {
				return true
			}
			for _, l := range s.Lhs {
				if o := rootOf(l); outside(o) {
					out = append(out, core.Str(l)+" "+s.Tok.String()+" …")
				}
			}
		case *ast.IncDecStmt:
			if o := rootOf(s.X); outside(o) {
				out = append(out, core.Str(s.X)+s.Tok.String())
			}
		case *ast.CallExpr:
			if core.CallName(info, s) == "builtin.copy" && len(s.Args) == 2 {
				if o := rootOf(s.Args[0]); outside(o) {
					out = append(out, "copy("+core.Str(s.Args[0])+", …)")
				}
			}
		}
		return true
	})
	return out
}
