package props

import (
	"fmt"
	"go/ast"
	"go/token"
	"go/types"
	"strings"

	"gpverif/core"
)

func init() { register("C16", c16) }

// rangeMutationHazards: assignments to the slice being ranged over inside the loop body that are
// not immediately followed by break / return (P12a).
func rangeMutationHazards(p *core.Prog, f *core.Fn) []string {
	info := f.Info()
	var out []string
	core.Walk(f.Decl.Body, true, func(x ast.Node) bool {
		rs, ok := x.(*ast.RangeStmt)
		if !ok {
			return true
		}
		ranged := core.ObjOf(info, rs.X)
		if ranged == nil {
			return true
		}
		if _, isSlice := ranged.Type().Underlying().(*types.Slice); !isSlice {
			return true
		}
		var visit func(list []ast.Stmt)
		visit = func(list []ast.Stmt) {
			for i, st := range list {
				if a, ok := st.(*ast.AssignStmt); ok {
					for _, l := range a.Lhs {
						if core.ObjOf(info, l) == ranged {
							leaves := false
							if i+1 < len(list) {
								switch n := list[i+1].(type) {
								case *ast.BranchStmt:
									leaves = n.Tok == token.BREAK
								case *ast.ReturnStmt:
									leaves = true
								}
							}
							if !leaves {
								out = append(out, fmt.Sprintf("%s: %s is reassigned while it is being ranged over (the loop keeps the old length and indices: elements are skipped, and a second removal slices beyond the shortened slice)", p.Rel(a.Pos()), ranged.Name()))
							}
						}
					}
				}
				switch s := st.(type) {
				case *ast.IfStmt:
					visit(s.Body.List)
					if eb, ok := s.Else.(*ast.BlockStmt); ok {
						visit(eb.List)
					}
				case *ast.BlockStmt:
					visit(s.List)
				case *ast.ForStmt:
					visit(s.Body.List)
				case *ast.RangeStmt:
					visit(s.Body.List)
				}
			}
		}
		visit(rs.Body.List)
		return true
	})
	return out
}

func c16(r *core.Run) {
	r.Expl = "C16 (interface selection): decides that the comma-separated selection (1) never reassigns a slice while ranging over it (the shape that panicked on repeated negated names), here and — thorough tier — anywhere in the query engine and types packages; (2) applies all negations after all positive selections, removing every occurrence (removal by predicate over the whole result, assigned back); 'any' selects the lister's full list; other names are kept only if the lister knows them; (3) ValidateAndSeparateFilters routes exactly the names with a leading '!' to the negative list, stripped of it, after validating each name; (4) the regular-expression form keeps exactly the listed interfaces the compiled expression matches. NOT decided: set equality of the result for all argument lists."
	r.Floor = 8
	r.Rules = append(r.Rules, "range-mutation-hazard (P12a)", "selection-shape")
	p := r.Prog("cgo")
	const rule = "range-mutation-hazard"
	fns := []*core.Fn{}
	if f := r.MustFunc(rule, "pkg/goDB/engine", "parseIfaceListWithCommaSeparatedString"); f != nil {
		fns = append(fns, f)
	}
	if f := r.MustFunc(rule, "pkg/goDB/engine", "parseIfaceListWithRegex"); f != nil {
		fns = append(fns, f)
	}
	if f := r.MustFunc(rule, "pkg/types", "ValidateAndSeparateFilters"); f != nil {
		fns = append(fns, f)
	}
	if r.Thorough() {
		for _, rel := range []string{"pkg/goDB/engine", "pkg/types", "pkg/goDB", "pkg/query", "pkg/results", "pkg/goDB/info"} {
			fns = append(fns, p.Funcs(rel)...)
		}
	}
	seen := map[*types.Func]bool{}
	for _, f := range fns {
		if seen[f.Obj] {
			continue
		}
		seen[f.Obj] = true
		hz := rangeMutationHazards(p, f)
		r.Check(rule, f.Where(), p.Rel(f.Decl.Pos()), len(hz) == 0, strings.Join(hz, "; "))
	}
	c16Selection(r, p)
}

func c16Selection(r *core.Run, p *core.Prog) {
	const rule = "selection-shape"
	f := p.Func("pkg/goDB/engine", "parseIfaceListWithCommaSeparatedString")
	if f != nil {
		info := f.Info()
		where := p.Rel(f.Decl.Pos())
		var pos, neg, all, result types.Object
		core.Walk(f.Decl.Body, false, func(x ast.Node) bool {
			if a, ok := x.(*ast.AssignStmt); ok && len(a.Rhs) == 1 {
				if c, ok := a.Rhs[0].(*ast.CallExpr); ok {
					switch {
					case core.CallName(info, c) == "pkg/types.ValidateAndSeparateFilters" && len(a.Lhs) == 3:
						pos, neg = core.ObjOf(info, a.Lhs[0]), core.ObjOf(info, a.Lhs[1])
					case strings.HasSuffix(core.CallName(info, c), ".ListInterfaces") && len(a.Lhs) == 2:
						all = core.ObjOf(info, a.Lhs[0])
					}
				}
			}
			return true
		})
		// the positive selection: a loop (range or index form) over the positive names, in the function itself or in a helper
		// that receives the lister's list and the positive names; inside it 'any' yields the full list and listed names are
		// kept only if the lister knows them
		type posT struct {
			fi       *types.Info
			body     *ast.BlockStmt
			all      types.Object
			pos, end token.Pos // extent in f (the loop, or the call of the helper)
			helper   bool
		}
		loopOver := func(fi *types.Info, root ast.Node, coll types.Object) (*ast.BlockStmt, token.Pos, token.Pos) {
			var body *ast.BlockStmt
			var ps, en token.Pos
			core.Walk(root, false, func(x ast.Node) bool {
				switch l := x.(type) {
				case *ast.RangeStmt:
					if core.ObjOf(fi, l.X) == coll {
						body, ps, en = l.Body, l.Pos(), l.End()
					}
				case *ast.ForStmt:
					if bc, ok := core.BinOp(l.Cond, token.LSS); ok {
						if la, ok := lenArg(fi, stripConv(fi, bc.Y)); ok && core.ObjOf(fi, la) == coll {
							body, ps, en = l.Body, l.Pos(), l.End()
						}
					}
				}
				return true
			})
			return body, ps, en
		}
		var posL *posT
		if pos != nil && all != nil {
			if b, ps, en := loopOver(info, f.Decl.Body, pos); b != nil {
				posL = &posT{info, b, all, ps, en, false}
			} else {
				for _, c := range core.Calls(f.Decl.Body, false) {
					fo, _ := core.Callee(info, c).(*types.Func)
					h := p.FnOf(fo)
					if h == nil {
						continue
					}
					hs := h.Obj.Type().(*types.Signature)
					var hPos, hAll types.Object
					for ai, a := range c.Args {
						if ai >= hs.Params().Len() {
							break
						}
						switch core.ObjOf(info, a) {
						case pos:
							hPos = hs.Params().At(ai)
						case all:
							hAll = hs.Params().At(ai)
						}
					}
					if hPos != nil && hAll != nil {
						if b, _, _ := loopOver(h.Info(), h.Decl.Body, hPos); b != nil {
							posL = &posT{h.Info(), b, hAll, c.Pos(), c.End(), true}
							// the selection variable of f: what the helper's result is assigned to
							core.Walk(f.Decl.Body, false, func(x ast.Node) bool {
								if a, ok := x.(*ast.AssignStmt); ok && len(a.Lhs) == 1 && len(a.Rhs) == 1 && ast.Unparen(a.Rhs[0]) == ast.Expr(c) {
									result = core.ObjOf(info, a.Lhs[0])
								}
								return true
							})
						}
					}
				}
			}
		}
		// negLoopIn: the loop over the negated names in fn (range loop, or index loop `i < len(neg)` with the element taken
		// as neg[i]); returns the loop body, the element variable and the loop position
		type negLoopT struct {
			fn   *core.Fn
			body *ast.BlockStmt
			elem types.Object
			pos  token.Pos
			res  types.Object // the variable holding the selection inside fn
		}
		var findNeg func(fn *core.Fn, negObj, resObj types.Object, depth int) *negLoopT
		findNeg = func(fn *core.Fn, negObj, resObj types.Object, depth int) *negLoopT {
			fi := fn.Info()
			var out *negLoopT
			core.Walk(fn.Decl.Body, false, func(x ast.Node) bool {
				switch l := x.(type) {
				case *ast.RangeStmt:
					if core.ObjOf(fi, l.X) == negObj && l.Value != nil {
						out = &negLoopT{fn, l.Body, core.ObjOf(fi, l.Value), l.Pos(), resObj}
					}
				case *ast.ForStmt:
					if bc, ok := core.BinOp(l.Cond, token.LSS); ok {
						if la, ok := lenArg(fi, stripConv(fi, bc.Y)); ok && core.ObjOf(fi, la) == negObj {
							idx := core.ObjOf(fi, bc.X)
							// elem := neg[i]
							core.Walk(l.Body, false, func(y ast.Node) bool {
								if as, ok := y.(*ast.AssignStmt); ok && len(as.Lhs) == 1 && len(as.Rhs) == 1 {
									if ix, ok := ast.Unparen(as.Rhs[0]).(*ast.IndexExpr); ok && core.ObjOf(fi, ix.X) == negObj && core.ObjOf(fi, ix.Index) == idx {
										out = &negLoopT{fn, l.Body, core.ObjOf(fi, as.Lhs[0]), l.Pos(), resObj}
									}
								}
								return true
							})
						}
					}
				}
				return true
			})
			if out != nil || depth > 0 {
				return out
			}
			// handed to a helper together with the selection
			for _, c := range core.Calls(fn.Decl.Body, false) {
				fo, _ := core.Callee(fi, c).(*types.Func)
				h := p.FnOf(fo)
				if h == nil {
					continue
				}
				hs := h.Obj.Type().(*types.Signature)
				var hNeg, hRes types.Object
				for ai, a := range c.Args {
					if ai >= hs.Params().Len() {
						break
					}
					switch core.ObjOf(fi, a) {
					case negObj:
						hNeg = hs.Params().At(ai)
					case resObj:
						hRes = hs.Params().At(ai)
					}
				}
				if hNeg != nil && hRes != nil {
					if nl := findNeg(h, hNeg, hRes, depth+1); nl != nil {
						nl.pos = c.Pos() // position of the hand-over in the caller
						return nl
					}
				}
			}
			return nil
		}
		// the selection variable: assigned `all` inside the positive loop
		okAnySel := false
		if posL != nil {
			core.Walk(posL.body, false, func(x ast.Node) bool {
				switch st := x.(type) {
				case *ast.AssignStmt:
					if len(st.Lhs) == 1 && len(st.Rhs) == 1 && core.ObjOf(posL.fi, st.Rhs[0]) == posL.all {
						okAnySel = true
						if !posL.helper {
							result = core.ObjOf(info, st.Lhs[0])
						}
					}
				case *ast.ReturnStmt:
					if posL.helper && len(st.Results) >= 1 && core.ObjOf(posL.fi, st.Results[0]) == posL.all {
						okAnySel = true
					}
				}
				return true
			})
		}
		var negL *negLoopT
		if neg != nil && result != nil {
			negL = findNeg(f, neg, result, 0)
		}
		if pos == nil || neg == nil || all == nil || posL == nil || negL == nil {
			r.Undecided(rule, "parseIfaceList:structure", where, "positive / negative selection loops not recognised")
		} else {
			r.Check(rule, "parseIfaceList:negations-after-selections", where, negL.pos > posL.end, "negated names must be removed after all positive names (and 'any') were added")
			// positive loop: any -> result = all ; Contains(all, name) -> append
			okAny, okKnown := result != nil && okAnySel, false
			core.Walk(posL.body, false, func(x ast.Node) bool {
				if c, ok := x.(*ast.CallExpr); ok && core.CallName(posL.fi, c) == "slices.Contains" && len(c.Args) == 2 && core.ObjOf(posL.fi, c.Args[0]) == posL.all {
					okKnown = true
				}
				return true
			})
			r.Check(rule, "parseIfaceList:any-selects-all", p.Rel(posL.pos), okAny, "'any' must select the lister's full interface list")
			r.Check(rule, "parseIfaceList:unknown-names-dropped", p.Rel(posL.pos), okKnown, "a listed name is kept only if the lister knows it")
			// negative loop: result = slices.DeleteFunc(result, func(v) bool { return v == notIface })
			okDel := false
			ni := negL.fn.Info()
			negVar, nres := negL.elem, negL.res
			// the selection may be worked on through a copy of the variable (`sel := result`, e.g. a parameter binding)
			resAlias := map[types.Object]bool{nres: true}
			core.Walk(negL.fn.Decl.Body, false, func(x ast.Node) bool {
				if a, ok := x.(*ast.AssignStmt); ok && len(a.Lhs) == 1 && len(a.Rhs) == 1 && a.Tok == token.DEFINE {
					if ro := core.ObjOf(ni, a.Rhs[0]); ro != nil && resAlias[ro] {
						if lo := core.ObjOf(ni, a.Lhs[0]); lo != nil {
							resAlias[lo] = true
						}
					}
				}
				return true
			})
			core.Walk(negL.body, false, func(x ast.Node) bool {
				a, ok := x.(*ast.AssignStmt)
				if !ok || len(a.Lhs) != 1 || len(a.Rhs) != 1 || !resAlias[core.ObjOf(ni, a.Lhs[0])] {
					return true
				}
				c, ok := a.Rhs[0].(*ast.CallExpr)
				if !ok || core.CallName(ni, c) != "slices.DeleteFunc" || len(c.Args) != 2 || core.ObjOf(ni, c.Args[0]) != core.ObjOf(ni, a.Lhs[0]) {
					return true
				}
				if fb, fi2 := funcBodyOf(p, ni, negL.fn.Decl.Body, c.Args[1]); fb != nil {
					bf := abstractBoolFn(fi2, fb)
					if bf.undec == "" && len(bf.rels) == 1 && len(bf.bools) == 0 {
						k := bf.rels[0]
						okEq := true
						for _, env := range bf.envs() {
							if bf.table[env.key(bf.rels, bf.bools)] != (env.rel[k] == 0) {
								okEq = false
							}
						}
						mentions := negVar != nil && (core.MentionsObj(fi2, bf.relX[k], negVar) || core.MentionsObj(fi2, bf.relY[k], negVar))
						okDel = okEq && mentions
					}
				}
				return true
			})
			hz := rangeMutationHazards(p, f)
			if negL.fn != f {
				hz = append(hz, rangeMutationHazards(p, negL.fn)...)
				// the helper's result must be what the caller returns / keeps
				retOK := false
				core.Walk(negL.fn.Decl.Body, false, func(x ast.Node) bool {
					if rs, ok := x.(*ast.ReturnStmt); ok && len(rs.Results) >= 1 && core.ObjOf(ni, rs.Results[0]) == nres {
						retOK = true
					}
					return true
				})
				if !retOK {
					hz = append(hz, negL.fn.Name+" does not return the filtered selection")
				}
			}
			// second accepted idiom: an explicit filter loop over the whole result that keeps the entries != name
			otherIdiom := false
			core.Walk(negL.body, false, func(x ast.Node) bool {
				rs, ok := x.(*ast.RangeStmt)
				if !ok || core.ObjOf(ni, rs.X) != nres || rs.Value == nil {
					return true
				}
				v := core.ObjOf(ni, rs.Value)
				core.Walk(rs.Body, false, func(y ast.Node) bool {
					if ifs, ok := y.(*ast.IfStmt); ok {
						if bx, by, eq, ok := eqTest(ifs.Cond, true); ok && !eq && ((core.ObjOf(ni, bx) == v && core.ObjOf(ni, by) == negVar) || (core.ObjOf(ni, by) == v && core.ObjOf(ni, bx) == negVar)) {
							core.Walk(ifs.Body, false, func(z ast.Node) bool {
								if ap, ok := z.(*ast.CallExpr); ok && core.CallName(ni, ap) == "builtin.append" && len(ap.Args) == 2 && core.ObjOf(ni, ap.Args[1]) == v && core.ObjOf(ni, ap.Args[0]) != nres {
									otherIdiom = true
								}
								return true
							})
						}
					}
					return true
				})
				return true
			})
			r.Check(rule, "parseIfaceList:negation-removes-every-occurrence", p.Rel(negL.pos), (okDel || otherIdiom) && len(hz) == 0,
				"each negated name must be removed from the whole result — recognised idioms: result = slices.DeleteFunc(result, func(v) { return v == name }), or a filter loop appending the entries != name to a fresh slice; removing by index (first occurrence only) leaves repeated names selected; "+strings.Join(hz, "; "))
		}
	}
	if f := p.Func("pkg/types", "ValidateAndSeparateFilters"); f != nil {
		info := f.Info()
		var loop *ast.RangeStmt
		core.Walk(f.Decl.Body, false, func(x ast.Node) bool {
			if rs, ok := x.(*ast.RangeStmt); ok && loop == nil {
				loop = rs
			}
			return true
		})
		okRoute, okValidate := false, false
		if loop != nil && loop.Value != nil {
			name := core.ObjOf(info, loop.Value)
			core.Walk(loop.Body, false, func(x ast.Node) bool {
				if c, ok := x.(*ast.CallExpr); ok && core.CallName(info, c) == "pkg/types.ValidateIfaceName" && len(c.Args) == 1 && core.ObjOf(info, c.Args[0]) == name {
					okValidate = true
				}
				return true
			})
			// per path through the loop body: outcome of HasPrefix(name, "!") (any polarity / branch order) and what is appended
			sig := f.Obj.Type().(*types.Signature)
			_ = sig
			wrap := &ast.BlockStmt{List: loop.Body.List}
			g := core.NewGraph(info, wrap)
			paths, okP := g.Paths(core.Entry, core.Exit, 2000)
			nNeg, nPos := 0, 0
			okRoute = okP
			// which slice is returned first (positive) / second (negative)
			var retPos, retNeg types.Object
			core.Walk(f.Decl.Body, false, func(x ast.Node) bool {
				if rs, ok := x.(*ast.ReturnStmt); ok && len(rs.Results) == 3 && core.IsNil(info, rs.Results[2]) {
					retPos, retNeg = core.ObjOf(info, rs.Results[0]), core.ObjOf(info, rs.Results[1])
				}
				return true
			})
			for _, path := range paths {
				bang, known := false, false
				var apps []string
				returns := false
				for i, id := range path {
					n := g.Nodes[id]
					if n == nil {
						continue
					}
					if tk, isC := g.Taken(path, i); isC {
						atom, truth := normCond(n.(ast.Expr), tk)
						if c, ok := atom.(*ast.CallExpr); ok && core.CallName(info, c) == "strings.HasPrefix" && len(c.Args) == 2 && core.ObjOf(info, c.Args[0]) == name {
							if sfx, ok := core.ConstStr(info, c.Args[1]); ok && sfx == "!" {
								bang, known = truth, true
							}
						}
						continue
					}
					if _, ok := n.(*ast.ReturnStmt); ok {
						returns = true
					}
					if a, ok := n.(*ast.AssignStmt); ok && len(a.Lhs) == 1 && len(a.Rhs) == 1 {
						if ap, ok := a.Rhs[0].(*ast.CallExpr); ok && core.CallName(info, ap) == "builtin.append" && len(ap.Args) == 2 && core.ObjOf(info, ap.Args[0]) == core.ObjOf(info, a.Lhs[0]) {
							dst := "?"
							switch core.ObjOf(info, a.Lhs[0]) {
							case retPos:
								dst = "positive"
							case retNeg:
								dst = "negative"
							}
							val := "?"
							if core.ObjOf(info, ap.Args[1]) == name {
								val = "name"
							} else if se, ok := ast.Unparen(ap.Args[1]).(*ast.SliceExpr); ok && core.ObjOf(info, se.X) == name && se.High == nil && se.Low != nil {
								if k, okc := core.ConstInt(info, se.Low); okc && k == 1 {
									val = "name-without-bang"
								}
							}
							apps = append(apps, dst+"<-"+val)
						}
					}
				}
				if returns {
					continue // validation error
				}
				got := strings.Join(apps, ",")
				switch {
				case known && bang:
					nNeg++
					if got != "negative<-name-without-bang" {
						okRoute = false
					}
				case known && !bang:
					nPos++
					if got != "positive<-name" {
						okRoute = false
					}
				default:
					if got != "" {
						okRoute = false
					}
				}
			}
			okRoute = okRoute && nNeg > 0 && nPos > 0 && retPos != nil && retNeg != nil
		}
		r.Check(rule, "ValidateAndSeparateFilters:routes-by-bang-prefix", p.Rel(f.Decl.Pos()), okRoute, "names with a leading '!' go to the negative list without the '!', all others unchanged to the positive list")
		r.Check(rule, "ValidateAndSeparateFilters:validates-each-name", p.Rel(f.Decl.Pos()), okValidate, "every name must be validated")
	}
	if f := p.Func("pkg/goDB/engine", "parseIfaceListWithRegex"); f != nil {
		info := f.Info()
		okRe := false
		core.Walk(f.Decl.Body, false, func(x ast.Node) bool {
			rs, ok := x.(*ast.RangeStmt)
			if !ok || rs.Value == nil {
				return true
			}
			v := core.ObjOf(info, rs.Value)
			core.Walk(rs.Body, false, func(y ast.Node) bool {
				if ifs, ok := y.(*ast.IfStmt); ok {
					if c, ok := ifs.Cond.(*ast.CallExpr); ok {
						if _, m := core.MethodCall(info, c); m == "MatchString" && len(c.Args) == 1 && core.ObjOf(info, c.Args[0]) == v {
							core.Walk(ifs.Body, false, func(z ast.Node) bool {
								if ap, ok := z.(*ast.CallExpr); ok && core.CallName(info, ap) == "builtin.append" && len(ap.Args) == 2 && core.ObjOf(info, ap.Args[1]) == v {
									okRe = true
								}
								return true
							})
						}
					}
				}
				return true
			})
			return true
		})
		r.Check(rule, "parseIfaceListWithRegex:keeps-exactly-matches", p.Rel(f.Decl.Pos()), okRe, "every listed interface is kept iff the compiled expression matches it")
	}
}
