package props

import (
	"fmt"
	"go/ast"
	"go/token"
	"go/types"
	"strings"

	"gpverif/core"
)

func init() { register("C16", c16) }

// rangeMutationHazards: assignments to the slice being ranged over inside the loop body that are
// not immediately followed by break / return (P12a).
func rangeMutationHazards(p *core.Prog, f *core.Fn) []string {
	info := f.Info()
	var out []string
	core.Walk(f.Decl.Body, true, func(x ast.Node) bool {
		rs, ok := x.(*ast.RangeStmt)
		if !ok {
			return true
		}
		ranged := core.ObjOf(info, rs.X)
		if ranged == nil {
			return true
		}
		if _, isSlice := ranged.Type().Underlying().(*types.Slice); !isSlice {
			return true
		}
		var visit func(list []ast.Stmt)
		visit = func(list []ast.Stmt) {
			for i, st := range list {
				if a, ok := st.(*ast.AssignStmt); ok {
					for _, l := range a.Lhs {
						if core.ObjOf(info, l) == ranged {
							leaves := false
							if i+1 < len(list) {
								switch n := list[i+1].(type) {
								case *ast.BranchStmt:
									leaves = n.Tok == token.BREAK
								case *ast.ReturnStmt:
									leaves = true
								}
							}
							if !leaves {
								out = append(out, fmt.Sprintf("%s: %s is reassigned while it is being ranged over (the loop keeps the old length and indices: elements are skipped, and a second removal slices beyond the shortened slice)", p.Rel(a.Pos()), ranged.Name()))
							}
						}
					}
				}
				switch s := st.(type) {
				case *ast.IfStmt:
					visit(s.Body.List)
					if eb, ok := s.Else.(*ast.BlockStmt); ok {
						visit(eb.List)
					}
				case *ast.BlockStmt:
					visit(s.List)
				case *ast.ForStmt:
					visit(s.Body.List)
				case *ast.RangeStmt:
					visit(s.Body.List)
				}
			}
		}
		visit(rs.Body.List)
		return true
	})
	return out
}

func c16(r *core.Run) {
	r.Expl = "C16 (interface selection): decides that the comma-separated selection (1) never reassigns a slice while ranging over it (the shape that panicked on repeated negated names), here and — thorough tier — anywhere in the query engine and types packages; (2) applies all negations after all positive selections, removing every occurrence (removal by predicate over the whole result, assigned back); 'any' selects the lister's full list; other names are kept only if the lister knows them; (3) ValidateAndSeparateFilters routes exactly the names with a leading '!' to the negative list, stripped of it, after validating each name; (4) the regular-expression form keeps exactly the listed interfaces the compiled expression matches. NOT decided: set equality of the result for all argument lists."
	r.Floor = 8
	r.Rules = append(r.Rules, "range-mutation-hazard (P12a)", "selection-shape")
	p := r.Prog("cgo")
	const rule = "range-mutation-hazard"
	fns := []*core.Fn{}
	if f := r.MustFunc(rule, "pkg/goDB/engine", "parseIfaceListWithCommaSeparatedString"); f != nil {
		fns = append(fns, f)
	}
	if f := r.MustFunc(rule, "pkg/goDB/engine", "parseIfaceListWithRegex"); f != nil {
		fns = append(fns, f)
	}
	if f := r.MustFunc(rule, "pkg/types", "ValidateAndSeparateFilters"); f != nil {
		fns = append(fns, f)
	}
	if r.Thorough() {
		for _, rel := range []string{"pkg/goDB/engine", "pkg/types", "pkg/goDB", "pkg/query", "pkg/results", "pkg/goDB/info"} {
			fns = append(fns, p.Funcs(rel)...)
		}
	}
	seen := map[*types.Func]bool{}
	for _, f := range fns {
		if seen[f.Obj] {
			continue
		}
		seen[f.Obj] = true
		hz := rangeMutationHazards(p, f)
		r.Check(rule, f.Where(), p.Rel(f.Decl.Pos()), len(hz) == 0, strings.Join(hz, "; "))
	}
	c16Selection(r, p)
}

func c16Selection(r *core.Run, p *core.Prog) {
	const rule = "selection-shape"
	f := p.Func("pkg/goDB/engine", "parseIfaceListWithCommaSeparatedString")
	if f != nil {
		info := f.Info()
		where := p.Rel(f.Decl.Pos())
		var pos, neg, all, result types.Object
		core.Walk(f.Decl.Body, false, func(x ast.Node) bool {
			if a, ok := x.(*ast.AssignStmt); ok && len(a.Rhs) == 1 {
				if c, ok := a.Rhs[0].(*ast.CallExpr); ok {
					switch {
					case core.CallName(info, c) == "pkg/types.ValidateAndSeparateFilters" && len(a.Lhs) == 3:
						pos, neg = core.ObjOf(info, a.Lhs[0]), core.ObjOf(info, a.Lhs[1])
					case strings.HasSuffix(core.CallName(info, c), ".ListInterfaces") && len(a.Lhs) == 2:
						all = core.ObjOf(info, a.Lhs[0])
					}
				}
			}
			return true
		})
		var posLoop, negLoop *ast.RangeStmt
		core.Walk(f.Decl.Body, false, func(x ast.Node) bool {
			if rs, ok := x.(*ast.RangeStmt); ok {
				switch core.ObjOf(info, rs.X) {
				case pos:
					posLoop = rs
				case neg:
					negLoop = rs
				}
			}
			return true
		})
		if pos == nil || neg == nil || all == nil || posLoop == nil || negLoop == nil {
			r.Undecided(rule, "parseIfaceList:structure", where, "positive / negative selection loops not recognised")
		} else {
			r.Check(rule, "parseIfaceList:negations-after-selections", where, negLoop.Pos() > posLoop.End(), "negated names must be removed after all positive names (and 'any') were added")
			// positive loop: any -> result = all ; Contains(all, name) -> append
			okAny, okKnown := false, false
			core.Walk(posLoop.Body, false, func(x ast.Node) bool {
				if a, ok := x.(*ast.AssignStmt); ok && len(a.Lhs) == 1 && len(a.Rhs) == 1 {
					if core.ObjOf(info, a.Rhs[0]) == all {
						result = core.ObjOf(info, a.Lhs[0])
						okAny = true
					}
				}
				if c, ok := x.(*ast.CallExpr); ok && core.CallName(info, c) == "slices.Contains" && len(c.Args) == 2 && core.ObjOf(info, c.Args[0]) == all {
					okKnown = true
				}
				return true
			})
			r.Check(rule, "parseIfaceList:any-selects-all", p.Rel(posLoop.Pos()), okAny, "'any' must select the lister's full interface list")
			r.Check(rule, "parseIfaceList:unknown-names-dropped", p.Rel(posLoop.Pos()), okKnown, "a listed name is kept only if the lister knows it")
			// negative loop: result = slices.DeleteFunc(result, func(v) bool { return v == notIface })
			okDel := false
			var negVar types.Object
			if negLoop.Value != nil {
				negVar = core.ObjOf(info, negLoop.Value)
			}
			core.Walk(negLoop.Body, false, func(x ast.Node) bool {
				a, ok := x.(*ast.AssignStmt)
				if !ok || len(a.Lhs) != 1 || len(a.Rhs) != 1 || core.ObjOf(info, a.Lhs[0]) != result {
					return true
				}
				c, ok := a.Rhs[0].(*ast.CallExpr)
				if !ok || core.CallName(info, c) != "slices.DeleteFunc" || len(c.Args) != 2 || core.ObjOf(info, c.Args[0]) != result {
					return true
				}
				if fl, ok := c.Args[1].(*ast.FuncLit); ok {
					bf := abstractBoolFn(info, fl.Body)
					if bf.undec == "" && len(bf.rels) == 1 && len(bf.bools) == 0 {
						k := bf.rels[0]
						okEq := true
						for _, env := range bf.envs() {
							if bf.table[env.key(bf.rels, bf.bools)] != (env.rel[k] == 0) {
								okEq = false
							}
						}
						mentions := negVar != nil && (core.MentionsObj(info, bf.relX[k], negVar) || core.MentionsObj(info, bf.relY[k], negVar))
						okDel = okEq && mentions
					}
				}
				return true
			})
			hz := rangeMutationHazards(p, f)
			// second accepted idiom: an explicit filter loop over the whole result that keeps the entries != name
			otherIdiom := false
			core.Walk(negLoop.Body, false, func(x ast.Node) bool {
				rs, ok := x.(*ast.RangeStmt)
				if !ok || core.ObjOf(info, rs.X) != result || rs.Value == nil {
					return true
				}
				v := core.ObjOf(info, rs.Value)
				core.Walk(rs.Body, false, func(y ast.Node) bool {
					if ifs, ok := y.(*ast.IfStmt); ok {
						if b, ok := core.BinOp(ifs.Cond, token.NEQ); ok && ((core.ObjOf(info, b.X) == v && core.ObjOf(info, b.Y) == negVar) || (core.ObjOf(info, b.Y) == v && core.ObjOf(info, b.X) == negVar)) {
							core.Walk(ifs.Body, false, func(z ast.Node) bool {
								if ap, ok := z.(*ast.CallExpr); ok && core.CallName(info, ap) == "builtin.append" && len(ap.Args) == 2 && core.ObjOf(info, ap.Args[1]) == v && core.ObjOf(info, ap.Args[0]) != result {
									otherIdiom = true
								}
								return true
							})
						}
					}
					return true
				})
				return true
			})
			r.Check(rule, "parseIfaceList:negation-removes-every-occurrence", p.Rel(negLoop.Pos()), (okDel || otherIdiom) && len(hz) == 0,
				"each negated name must be removed from the whole result — recognised idioms: result = slices.DeleteFunc(result, func(v) { return v == name }), or a filter loop appending the entries != name to a fresh slice; removing by index (first occurrence only) leaves repeated names selected; "+strings.Join(hz, "; "))
		}
	}
	if f := p.Func("pkg/types", "ValidateAndSeparateFilters"); f != nil {
		info := f.Info()
		var loop *ast.RangeStmt
		core.Walk(f.Decl.Body, false, func(x ast.Node) bool {
			if rs, ok := x.(*ast.RangeStmt); ok && loop == nil {
				loop = rs
			}
			return true
		})
		okRoute, okValidate := false, false
		if loop != nil && loop.Value != nil {
			name := core.ObjOf(info, loop.Value)
			core.Walk(loop.Body, false, func(x ast.Node) bool {
				if c, ok := x.(*ast.CallExpr); ok && core.CallName(info, c) == "pkg/types.ValidateIfaceName" && len(c.Args) == 1 && core.ObjOf(info, c.Args[0]) == name {
					okValidate = true
				}
				ifs, ok := x.(*ast.IfStmt)
				if !ok {
					return true
				}
				c, ok := ifs.Cond.(*ast.CallExpr)
				if !ok || core.CallName(info, c) != "strings.HasPrefix" || len(c.Args) != 2 || core.ObjOf(info, c.Args[0]) != name {
					return true
				}
				if s, ok := core.ConstStr(info, c.Args[1]); !ok || s != "!" {
					return true
				}
				// then: negative = append(negative, name[1:]); else: positive = append(positive, name)
				thenStr, elseStr := "", ""
				core.Walk(ifs.Body, false, func(y ast.Node) bool {
					if ap, ok := y.(*ast.CallExpr); ok && core.CallName(info, ap) == "builtin.append" && len(ap.Args) == 2 {
						thenStr = core.Str(ap.Args[1])
					}
					return true
				})
				if ifs.Else != nil {
					core.Walk(ifs.Else, false, func(y ast.Node) bool {
						if ap, ok := y.(*ast.CallExpr); ok && core.CallName(info, ap) == "builtin.append" && len(ap.Args) == 2 {
							elseStr = core.Str(ap.Args[1])
						}
						return true
					})
				}
				okRoute = thenStr == name.Name()+"[1:]" && elseStr == name.Name()
				return true
			})
		}
		r.Check(rule, "ValidateAndSeparateFilters:routes-by-bang-prefix", p.Rel(f.Decl.Pos()), okRoute, "names with a leading '!' go to the negative list without the '!', all others unchanged to the positive list")
		r.Check(rule, "ValidateAndSeparateFilters:validates-each-name", p.Rel(f.Decl.Pos()), okValidate, "every name must be validated")
	}
	if f := p.Func("pkg/goDB/engine", "parseIfaceListWithRegex"); f != nil {
		info := f.Info()
		okRe := false
		core.Walk(f.Decl.Body, false, func(x ast.Node) bool {
			rs, ok := x.(*ast.RangeStmt)
			if !ok || rs.Value == nil {
				return true
			}
			v := core.ObjOf(info, rs.Value)
			core.Walk(rs.Body, false, func(y ast.Node) bool {
				if ifs, ok := y.(*ast.IfStmt); ok {
					if c, ok := ifs.Cond.(*ast.CallExpr); ok {
						if _, m := core.MethodCall(info, c); m == "MatchString" && len(c.Args) == 1 && core.ObjOf(info, c.Args[0]) == v {
							core.Walk(ifs.Body, false, func(z ast.Node) bool {
								if ap, ok := z.(*ast.CallExpr); ok && core.CallName(info, ap) == "builtin.append" && len(ap.Args) == 2 && core.ObjOf(info, ap.Args[1]) == v {
									okRe = true
								}
								return true
							})
						}
					}
				}
				return true
			})
			return true
		})
		r.Check(rule, "parseIfaceListWithRegex:keeps-exactly-matches", p.Rel(f.Decl.Pos()), okRe, "every listed interface is kept iff the compiled expression matches it")
	}
}
