package props

import (
	"fmt"
	"go/ast"
	"go/token"
	"go/types"
	"sort"
	"strings"

	"gpverif/core"
)

// boolFn is the abstraction of a small side-effect-free boolean function: its control flow
// only tests order relations between byte values / byte strings (REL variables, three-valued:
// lt, eq, gt), length equalities (FAM variables, boolean) and opaque boolean atoms.
type boolFn struct {
	rels   []string            // REL variable keys "X ~ Y"
	relX   map[string]ast.Expr // left operand of each REL
	relY   map[string]ast.Expr
	bools  []string // boolean variable keys (FAM:... or opaque)
	table  map[string]bool
	undec  string
	subst  map[types.Object]ast.Expr
	info   *types.Info
	stores []string // impurities found while abstracting
}

type absEnv struct {
	rel map[string]int // -1 lt, 0 eq, 1 gt
	b   map[string]bool
}

func (e absEnv) key(rels, bools []string) string {
	var sb strings.Builder
	for _, r := range rels {
		fmt.Fprintf(&sb, "%s=%d;", r, e.rel[r])
	}
	for _, b := range bools {
		fmt.Fprintf(&sb, "%s=%v;", b, e.b[b])
	}
	return sb.String()
}

// expand substitutes single-assignment locals by their definitions and renders the expression.
func (f *boolFn) expand(e ast.Expr) string {
	e = ast.Unparen(e)
	if id, ok := e.(*ast.Ident); ok {
		if o := f.info.Uses[id]; o != nil {
			if d, ok := f.subst[o]; ok {
				return f.expand(d)
			}
		}
		return id.Name
	}
	switch x := e.(type) {
	case *ast.SliceExpr:
		s := f.expand(x.X) + "["
		if x.Low != nil {
			s += f.expand(x.Low)
		}
		s += ":"
		if x.High != nil {
			s += f.expand(x.High)
		}
		return s + "]"
	case *ast.IndexExpr:
		return f.expand(x.X) + "[" + f.expand(x.Index) + "]"
	case *ast.BinaryExpr:
		return f.expand(x.X) + x.Op.String() + f.expand(x.Y)
	case *ast.CallExpr:
		var as []string
		for _, a := range x.Args {
			as = append(as, f.expand(a))
		}
		return f.expand(x.Fun) + "(" + strings.Join(as, ",") + ")"
	case *ast.SelectorExpr:
		return f.expand(x.X) + "." + x.Sel.Name
	}
	return core.Str(e)
}

func (f *boolFn) relKey(x, y ast.Expr) string {
	k := f.expand(x) + " ~ " + f.expand(y)
	if _, ok := f.relX[k]; !ok {
		f.rels = append(f.rels, k)
		f.relX[k], f.relY[k] = x, y
	}
	return k
}

func (f *boolFn) boolKey(k string) string {
	for _, b := range f.bools {
		if b == k {
			return k
		}
	}
	f.bools = append(f.bools, k)
	return k
}

func relHolds(r int, op token.Token) bool {
	switch op {
	case token.EQL:
		return r == 0
	case token.NEQ:
		return r != 0
	case token.LSS:
		return r < 0
	case token.GTR:
		return r > 0
	case token.LEQ:
		return r <= 0
	case token.GEQ:
		return r >= 0
	}
	return false
}

// collect registers the variables of expression e (first pass).
func (f *boolFn) collect(e ast.Expr) {
	e = ast.Unparen(e)
	switch x := e.(type) {
	case *ast.UnaryExpr:
		if x.Op == token.NOT {
			f.collect(x.X)
			return
		}
	case *ast.BinaryExpr:
		if x.Op == token.LAND || x.Op == token.LOR {
			f.collect(x.X)
			f.collect(x.Y)
			return
		}
		if isCmp(x.Op) {
			if c, ok := ast.Unparen(x.X).(*ast.CallExpr); ok && core.CallName(f.info, c) == "bytes.Compare" && len(c.Args) == 2 {
				if k, okc := core.ConstInt(f.info, x.Y); okc && k == 0 {
					f.relKey(c.Args[0], c.Args[1])
					return
				}
			}
			lx, okx := lenArg(f.info, x.X)
			ly, oky := lenArg(f.info, x.Y)
			if okx && oky && (x.Op == token.EQL || x.Op == token.NEQ) {
				f.boolKey("FAM:" + f.expand(lx) + "|" + f.expand(ly))
				return
			}
			if t := f.info.TypeOf(x.X); t != nil {
				if b, ok := t.Underlying().(*types.Basic); ok && b.Info()&(types.IsInteger|types.IsString|types.IsFloat) != 0 && !okx && !oky {
					f.relKey(x.X, x.Y)
					return
				}
			}
		}
	case *ast.CallExpr:
		if core.CallName(f.info, x) == "bytes.Equal" && len(x.Args) == 2 {
			f.relKey(x.Args[0], x.Args[1])
			return
		}
	case *ast.Ident:
		if x.Name == "true" || x.Name == "false" {
			return
		}
	}
	f.boolKey("OPAQUE:" + f.expand(e))
}

func isCmp(op token.Token) bool {
	switch op {
	case token.EQL, token.NEQ, token.LSS, token.GTR, token.LEQ, token.GEQ:
		return true
	}
	return false
}

func lenArg(info *types.Info, e ast.Expr) (ast.Expr, bool) {
	c, ok := ast.Unparen(e).(*ast.CallExpr)
	if ok && core.CallName(info, c) == "builtin.len" && len(c.Args) == 1 {
		return c.Args[0], true
	}
	return nil, false
}

func (f *boolFn) eval(e ast.Expr, env absEnv) bool {
	e = ast.Unparen(e)
	switch x := e.(type) {
	case *ast.UnaryExpr:
		if x.Op == token.NOT {
			return !f.eval(x.X, env)
		}
	case *ast.BinaryExpr:
		if x.Op == token.LAND {
			return f.eval(x.X, env) && f.eval(x.Y, env)
		}
		if x.Op == token.LOR {
			return f.eval(x.X, env) || f.eval(x.Y, env)
		}
		if isCmp(x.Op) {
			if c, ok := ast.Unparen(x.X).(*ast.CallExpr); ok && core.CallName(f.info, c) == "bytes.Compare" && len(c.Args) == 2 {
				if k, okc := core.ConstInt(f.info, x.Y); okc && k == 0 {
					return relHolds(env.rel[f.relKey(c.Args[0], c.Args[1])], x.Op)
				}
			}
			lx, okx := lenArg(f.info, x.X)
			ly, oky := lenArg(f.info, x.Y)
			if okx && oky && (x.Op == token.EQL || x.Op == token.NEQ) {
				v := env.b["FAM:"+f.expand(lx)+"|"+f.expand(ly)]
				if x.Op == token.NEQ {
					return !v
				}
				return v
			}
			if t := f.info.TypeOf(x.X); t != nil {
				if b, ok := t.Underlying().(*types.Basic); ok && b.Info()&(types.IsInteger|types.IsString|types.IsFloat) != 0 && !okx && !oky {
					return relHolds(env.rel[f.relKey(x.X, x.Y)], x.Op)
				}
			}
		}
	case *ast.CallExpr:
		if core.CallName(f.info, x) == "bytes.Equal" && len(x.Args) == 2 {
			return env.rel[f.relKey(x.Args[0], x.Args[1])] == 0
		}
	case *ast.Ident:
		if x.Name == "true" {
			return true
		}
		if x.Name == "false" {
			return false
		}
	}
	return env.b["OPAQUE:"+f.expand(e)]
}

// abstractBoolFn builds the truth table of a function body of the shape
// { x := e; ... ; if c { return b }; ... ; return e }.
func abstractBoolFn(info *types.Info, body *ast.BlockStmt) *boolFn {
	f := &boolFn{info: info, relX: map[string]ast.Expr{}, relY: map[string]ast.Expr{}, subst: map[types.Object]ast.Expr{}, table: map[string]bool{}}
	type step struct {
		cond ast.Expr // nil: unconditional return
		then []step
		ret  ast.Expr
	}
	var build func(list []ast.Stmt) ([]step, bool)
	build = func(list []ast.Stmt) ([]step, bool) {
		var steps []step
		for _, s := range list {
			switch x := s.(type) {
			case *ast.AssignStmt:
				if len(x.Lhs) == 1 && len(x.Rhs) == 1 && x.Tok == token.DEFINE {
					if o := core.ObjOf(info, x.Lhs[0]); o != nil {
						f.subst[o] = x.Rhs[0]
						continue
					}
				}
				f.stores = append(f.stores, core.Str(x.Lhs[0])+" "+x.Tok.String()+" …")
				continue
			case *ast.IfStmt:
				if x.Init != nil || x.Else != nil {
					f.undec = "if with init/else"
					return nil, false
				}
				th, ok := build(x.Body.List)
				if !ok {
					return nil, false
				}
				steps = append(steps, step{cond: x.Cond, then: th})
			case *ast.ReturnStmt:
				if len(x.Results) != 1 {
					f.undec = "return arity"
					return nil, false
				}
				steps = append(steps, step{ret: x.Results[0]})
				return steps, true
			case *ast.ExprStmt, *ast.IncDecStmt:
				f.stores = append(f.stores, core.Str0(s))
			default:
				f.undec = fmt.Sprintf("unsupported statement %T", s)
				return nil, false
			}
		}
		return steps, true
	}
	steps, ok := build(body.List)
	if !ok {
		return f
	}
	var collect func(st []step)
	collect = func(st []step) {
		for _, s := range st {
			if s.cond != nil {
				f.collect(s.cond)
				collect(s.then)
			}
			if s.ret != nil {
				f.collect(s.ret)
			}
		}
	}
	collect(steps)
	sort.Strings(f.rels)
	sort.Strings(f.bools)
	if len(f.rels) > 4 || len(f.bools) > 6 {
		f.undec = "too many atoms"
		return f
	}
	var run func(st []step, env absEnv) (bool, bool)
	run = func(st []step, env absEnv) (val bool, returned bool) {
		for _, s := range st {
			if s.cond != nil {
				if f.eval(s.cond, env) {
					if v, r := run(s.then, env); r {
						return v, true
					}
				}
				continue
			}
			return f.eval(s.ret, env), true
		}
		return false, false
	}
	// enumerate
	nr, nb := len(f.rels), len(f.bools)
	total := 1
	for i := 0; i < nr; i++ {
		total *= 3
	}
	total <<= uint(nb)
	for n := 0; n < total; n++ {
		env := absEnv{rel: map[string]int{}, b: map[string]bool{}}
		m := n
		for _, r := range f.rels {
			env.rel[r] = m%3 - 1
			m /= 3
		}
		for _, b := range f.bools {
			env.b[b] = m&1 == 1
			m >>= 1
		}
		v, ret := run(steps, env)
		if !ret {
			f.undec = "a path falls off the end without returning"
			return f
		}
		f.table[env.key(f.rels, f.bools)] = v
	}
	return f
}

// envs enumerates the environments of f in the same order as the table keys.
func (f *boolFn) envs() []absEnv {
	var out []absEnv
	nr, nb := len(f.rels), len(f.bools)
	total := 1
	for i := 0; i < nr; i++ {
		total *= 3
	}
	total <<= uint(nb)
	for n := 0; n < total; n++ {
		env := absEnv{rel: map[string]int{}, b: map[string]bool{}}
		m := n
		for _, r := range f.rels {
			env.rel[r] = m%3 - 1
			m /= 3
		}
		for _, b := range f.bools {
			env.b[b] = m&1 == 1
			m >>= 1
		}
		out = append(out, env)
	}
	return out
}
