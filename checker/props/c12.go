package props

import (
	"fmt"
	"go/ast"
	"go/token"
	"go/types"
	"strings"

	"gpverif/core"
)

func init() { register("C12", c12) }

// rangeHelper abstracts `for i, b := range list { if b.Timestamp OP ts { return list[lo:hi] } } return D`
// on a list sorted by timestamp: which elements (by order type of their timestamp against ts) are returned.
type rangeHelper struct {
	op       token.Token
	fromIdx  bool // slice is list[i:] (true) or list[:i] (false)
	shift    int64
	defEmpty bool
	ok       bool
	why      string
}

func (h rangeHelper) includes(rel int) (bool, bool) {
	if !h.ok || h.shift != 0 {
		return false, false
	}
	p := relHolds(rel, h.op) // predicate that stops the scan
	// for a monotone predicate on a sorted list the first index satisfying it splits the list
	if h.op != token.GEQ && h.op != token.GTR {
		return false, false
	}
	if h.fromIdx {
		return p, true
	}
	return !p, true
}

func extractRangeHelper(p *core.Prog, f *core.Fn) rangeHelper {
	info := f.Info()
	var h rangeHelper
	// the scan loop: `for i, e := range list` or `for i := 0; i < len(list); i++`
	var body *ast.BlockStmt
	var idx, elem types.Object
	var list ast.Expr
	for _, st := range f.Decl.Body.List {
		switch l := st.(type) {
		case *ast.RangeStmt:
			body, list = l.Body, l.X
			idx, elem = core.ObjOf(info, l.Key), core.ObjOf(info, l.Value)
		case *ast.ForStmt:
			init, okI := l.Init.(*ast.AssignStmt)
			cond, okC := core.BinOp(l.Cond, token.LSS)
			post, okP := l.Post.(*ast.IncDecStmt)
			if okI && okC && okP && len(init.Lhs) == 1 && post.Tok == token.INC {
				if z, isC := core.ConstInt(info, init.Rhs[0]); isC && z == 0 && core.ObjOf(info, cond.X) == core.ObjOf(info, init.Lhs[0]) && core.ObjOf(info, post.X) == core.ObjOf(info, init.Lhs[0]) {
					if c, ok := ast.Unparen(cond.Y).(*ast.CallExpr); ok && core.CallName(info, c) == "builtin.len" {
						body, list, idx = l.Body, c.Args[0], core.ObjOf(info, init.Lhs[0])
					}
				}
			}
		}
	}
	if body == nil || len(body.List) != 1 {
		h.why = "not a single scan loop"
		return h
	}
	ifs, ok := body.List[0].(*ast.IfStmt)
	if !ok || len(ifs.Body.List) != 1 || ifs.Else != nil {
		h.why = "loop body is not a single test"
		return h
	}
	b, ok := core.BinOp(ifs.Cond, token.GEQ, token.GTR, token.LSS, token.LEQ, token.EQL)
	param := f.Obj.Type().(*types.Signature).Params().At(0)
	if ok && core.ObjOf(info, b.X) == param {
		// bound OP element  ==  element OP' bound
		b = &ast.BinaryExpr{X: b.Y, Y: b.X, Op: map[token.Token]token.Token{token.GEQ: token.LEQ, token.GTR: token.LSS, token.LSS: token.GTR, token.LEQ: token.GEQ, token.EQL: token.EQL}[b.Op]}
	}
	isElemTS := func(e ast.Expr) bool {
		se, ok := ast.Unparen(resolveLocal(info, f.Decl.Body, e)).(*ast.SelectorExpr)
		if !ok || se.Sel.Name != "Timestamp" {
			return false
		}
		x := resolveLocal(info, f.Decl.Body, se.X)
		if elem != nil && core.ObjOf(info, x) == elem {
			return true
		}
		if ix, ok := ast.Unparen(x).(*ast.IndexExpr); ok && idx != nil && core.ObjOf(info, ix.Index) == idx && core.Str(ix.X) == core.Str(list) {
			return true
		}
		return false
	}
	if !ok || !isElemTS(b.X) || core.ObjOf(info, b.Y) != param {
		h.why = "test is not <element>.Timestamp OP <parameter>"
		return h
	}
	h.op = b.Op
	ret, ok := ifs.Body.List[0].(*ast.ReturnStmt)
	if !ok || len(ret.Results) == 0 {
		h.why = "test does not return"
		return h
	}
	se, ok := ast.Unparen(ret.Results[0]).(*ast.SliceExpr)
	if !ok {
		h.why = "does not return a sub-slice"
		return h
	}
	if core.Str(se.X) != core.Str(list) {
		h.why = "returns a slice of something other than the scanned list"
		return h
	}
	bound := se.High
	if se.Low != nil && se.High == nil {
		h.fromIdx = true
		bound = se.Low
	} else if se.Low != nil {
		h.why = "two-sided slice"
		return h
	}
	base, off, okS := core.SplitIndex(info, bound)
	if !okS || idx == nil || base != idx.Name() {
		h.why = "slice bound is not the loop index plus a constant"
		return h
	}
	h.shift = off
	// default
	last := f.Decl.Body.List[len(f.Decl.Body.List)-1]
	if rs, ok := last.(*ast.ReturnStmt); ok && len(rs.Results) > 0 {
		if cl, ok := ast.Unparen(rs.Results[0]).(*ast.CompositeLit); ok && len(cl.Elts) == 0 {
			h.defEmpty = true
		} else if core.IsNil(info, rs.Results[0]) {
			h.defEmpty = true
		}
	}
	h.ok = true
	return h
}

func c12(r *core.Run) {
	r.Expl = "C12 (interface summaries equal the stored data in range): decides (1) the per-block statistics that ReadMetadata subtracts for blocks outside the range carry every field of gpfile.Stats (both flow counts, drops, four counters, each counter from its own column), and Stats.Sub / TrafficMetadata.Sub / Counters.Sub and the Add counterparts cover every field; (2) exhaustively over the order type of a block's timestamp against the bound: BlocksBefore(t) returns exactly the blocks with timestamp < t, BlocksAfter(t) exactly those with timestamp > t, and the query's block filter skips exactly timestamp < first or > last — so the listing subtracts exactly what the query skips; (3) the blocks handed to the subtraction are the results of BlocksBefore(first) / BlocksAfter(last) themselves (value origin), with the matching index offset, and the operation is Sub; every visited day is added in full first. NOT decided: the sums as numbers, day-boundary arithmetic of walkDB, agreement with the directory-name suffix."
	r.Floor = 30
	r.Rules = append(r.Rules, "field-coverage (P3)", "range-predicate-agreement (P7 over order atoms)", "value-origin (P9)", "every-listed-block-evaluated (P2)", "recorded-as-given", "narrowing-guarded")
	p := r.Prog("cgo")
	ruleAccumulate(r, p, pkgGpfile, "Stats.Sub", token.SUB_ASSIGN)
	ruleAccumulate(r, p, pkgGpfile, "TrafficMetadata.Sub", token.SUB_ASSIGN)
	ruleAccumulate(r, p, "pkg/types", "Counters.Sub", token.SUB_ASSIGN)
	ruleAccumulate(r, p, pkgGpfile, "Stats.Add", token.ADD_ASSIGN)
	ruleAccumulate(r, p, pkgGpfile, "TrafficMetadata.Add", token.ADD_ASSIGN)
	ruleAccumulate(r, p, "pkg/types", "Counters.Add", token.ADD_ASSIGN)
	// the day totals are the sums of the per-block values only if each per-block value is stored as it was summed:
	// recorded as given by WriteBlocks, and narrowed by Marshal only behind a range check that refuses the write
	ruleRecordedAsGiven(r, p)
	if m := r.MustFunc("narrowing-guarded", pkgGpfile, "GPDir.Marshal"); m != nil {
		ruleNarrowing(r, p, m)
	}
	c12BlockStats(r, p)
	c12EveryBlock(r, p)
	c12RangeAgreement(r, p)
	c12Origin(r, p)
}

// c12BlockStats: in readMetadataAndEvaluate the per-block `stats` value has every leaf field assigned.
func c12BlockStats(r *core.Run, p *core.Prog) {
	const rule = "field-coverage"
	f := r.MustFunc(rule, pkgGoDB, "DBWorkManager.readMetadataAndEvaluate")
	if f == nil {
		return
	}
	info := f.Info()
	// the local of type gpfile.Stats that is handed to the callback
	var stats types.Object
	core.Walk(f.Decl.Body, false, func(x ast.Node) bool {
		if c, ok := x.(*ast.CallExpr); ok && len(c.Args) == 2 {
			if o := core.ObjOf(info, c.Args[1]); o != nil && core.TypeName(o.Type()) == pkgGpfile+".Stats" {
				stats = o
			}
		}
		return true
	})
	if stats == nil {
		r.Undecided(rule, "readMetadataAndEvaluate:block-stats", p.Rel(f.Decl.Pos()), "no gpfile.Stats local handed to the statistics callback")
		return
	}
	assigned := map[string]ast.Expr{}
	var counterLit *ast.CompositeLit
	core.Walk(f.Decl.Body, false, func(x ast.Node) bool {
		if a, ok := x.(*ast.AssignStmt); ok && len(a.Lhs) == 1 && len(a.Rhs) == 1 {
			if sel, ok := ast.Unparen(a.Lhs[0]).(*ast.SelectorExpr); ok {
				root := sel.X
				for {
					if s2, ok := ast.Unparen(root).(*ast.SelectorExpr); ok {
						root = s2.X
						continue
					}
					break
				}
				if core.ObjOf(info, root) == stats {
					assigned[fieldRole(info, sel)] = a.Rhs[0]
				}
			}
		}
		if c, ok := x.(*ast.CallExpr); ok && core.CallName(info, c) == "pkg/types.Counters.Add" && len(c.Args) == 1 {
			if rx, _ := core.MethodCall(info, c); rx != nil && core.MentionsObj(info, rx, stats) {
				counterLit, _ = ast.Unparen(c.Args[0]).(*ast.CompositeLit)
			}
		}
		return true
	})
	TM := p.Type(pkgGpfile, "TrafficMetadata")
	for _, fld := range structFields(TM) {
		_, ok := assigned["TrafficMetadata."+fld.Name()]
		r.Check(rule, "readMetadataAndEvaluate:block-stats:Traffic."+fld.Name(), p.Rel(f.Decl.Pos()), ok,
			"the statistics of an out-of-range block leave Traffic."+fld.Name()+" at zero: the day total keeps that block's "+fld.Name()+" although the block is outside the listed range")
	}
	// the metadata source of each traffic field must be the same field of the block's metadata
	for role, rhs := range assigned {
		if !strings.HasPrefix(role, "TrafficMetadata.") {
			continue
		}
		want := strings.TrimPrefix(role, "TrafficMetadata.")
		src := core.Str(rhs)
		okSrc := strings.Contains(src, want) || strings.Contains(src, strings.Replace(strings.Replace(want, "NumV4Entries", "NumIPv4Entries", 1), "NumV6Entries", "NumIPv6Entries", 1))
		r.Check(rule, "readMetadataAndEvaluate:block-stats:"+role+":source", p.Rel(rhs.Pos()), okSrc, fmt.Sprintf("%s is filled from %s", role, src))
	}
	CT := p.Type("pkg/types", "Counters")
	if counterLit == nil {
		r.Undecided(rule, "readMetadataAndEvaluate:block-stats:Counts", p.Rel(f.Decl.Pos()), "no stats.Counts.Add(types.Counters{…}) found")
		return
	}
	got := map[string]ast.Expr{}
	for _, el := range counterLit.Elts {
		if kv, ok := el.(*ast.KeyValueExpr); ok {
			got[core.Str(kv.Key)] = kv.Value
		}
	}
	for _, fld := range structFields(CT) {
		v, ok := got[fld.Name()]
		okCol := false
		col := "?"
		if ok {
			// v is <values>[i]; <values> = bitpack.UnpackInto(colBlocks[types.<X>ColIdx], …)
			if ix, ok := ast.Unparen(v).(*ast.IndexExpr); ok {
				if o := core.ObjOf(info, ix.X); o != nil {
					core.Walk(f.Decl.Body, false, func(x ast.Node) bool {
						if a, ok := x.(*ast.AssignStmt); ok && len(a.Lhs) == 1 && core.ObjOf(info, a.Lhs[0]) == o && len(a.Rhs) == 1 {
							if c, ok := a.Rhs[0].(*ast.CallExpr); ok && len(c.Args) >= 1 {
								if cix, ok := ast.Unparen(c.Args[0]).(*ast.IndexExpr); ok {
									if co := core.ObjOf(info, selOrIdent(cix.Index)); co != nil {
										col = co.Name()
										okCol = col == fld.Name()+"ColIdx"
									}
								}
							}
						}
						return true
					})
				}
			}
		}
		r.Check(rule, "readMetadataAndEvaluate:block-stats:Counts."+fld.Name(), p.Rel(counterLit.Pos()), ok && okCol,
			fmt.Sprintf("counter %s of an out-of-range block must come from column %sColIdx, found %s", fld.Name(), fld.Name(), col))
	}
}

func c12RangeAgreement(r *core.Run, p *core.Prog) {
	const rule = "range-predicate-agreement"
	bb := r.MustFunc(rule, pkgStorage, "BlockHeader.BlocksBefore")
	ba := r.MustFunc(rule, pkgStorage, "BlockHeader.BlocksAfter")
	if bb == nil || ba == nil {
		return
	}
	hb, ha := extractRangeHelper(p, bb), extractRangeHelper(p, ba)
	relName := map[int]string{-1: "before", 0: "at", 1: "after"}
	for _, rel := range []int{-1, 0, 1} {
		inc, ok := hb.includes(rel)
		key := "BlocksBefore:block-" + relName[rel] + "-bound"
		if !ok {
			r.Undecided(rule, key, p.Rel(bb.Decl.Pos()), "BlocksBefore is not a first-match scan returning list[:i] / list[i:] ("+hb.why+fmt.Sprintf(", shift %d", hb.shift)+"): membership is not a function of the order type alone")
		} else {
			r.Check(rule, key, p.Rel(bb.Decl.Pos()), inc == (rel < 0), fmt.Sprintf("a block %s the lower bound is %s by BlocksBefore; the query keeps blocks with timestamp >= first, so exactly the blocks before it must be subtracted", relName[rel], map[bool]string{true: "returned", false: "not returned"}[inc]))
		}
		inc, ok = ha.includes(rel)
		key = "BlocksAfter:block-" + relName[rel] + "-bound"
		if !ok {
			r.Undecided(rule, key, p.Rel(ba.Decl.Pos()), fmt.Sprintf("BlocksAfter is not a first-match scan returning list[i:] (%s, slice starts at i%+d): whether a block is returned then depends on its position, not only on its timestamp — with a bound that falls between two blocks the first block after the bound is kept", ha.why, ha.shift))
		} else {
			r.Check(rule, key, p.Rel(ba.Decl.Pos()), inc == (rel > 0), fmt.Sprintf("a block %s the upper bound is %s by BlocksAfter; the query keeps blocks with timestamp <= last, so exactly the blocks after it must be subtracted", relName[rel], map[bool]string{true: "returned", false: "not returned"}[inc]))
		}
	}
	// index returned by BlocksAfter equals the slice start
	if ha.ok {
		okIdx := false
		core.Walk(ba.Decl.Body, false, func(x ast.Node) bool {
			if rs, ok := x.(*ast.ReturnStmt); ok && len(rs.Results) == 2 {
				if se, ok := ast.Unparen(rs.Results[0]).(*ast.SliceExpr); ok && se.Low != nil {
					okIdx = core.Str(se.Low) == core.Str(rs.Results[1])
				}
			}
			return true
		})
		r.Check(rule, "BlocksAfter:index-is-slice-start", p.Rel(ba.Decl.Pos()), okIdx, "the index returned must be the position of the first returned block (it is used to address the block's metadata)")
	}
	// the query's block filter
	f := r.MustFunc(rule, pkgGoDB, "DBWorkManager.readBlocksAndEvaluate")
	if f == nil {
		return
	}
	info := f.Info()
	fF := p.FieldObj(pkgGoDB, "DBWorkManager", "tFirstCovered")
	fL := p.FieldObj(pkgGoDB, "DBWorkManager", "tLastCovered")
	// The filter is read off the control-flow graph: for each order type of (block time, first, last) the branch
	// conditions that compare the block time with the covered range are evaluated and only the edge they select is
	// followed; the block is "skipped" iff the first column read of the loop is then unreachable. This is the same for one
	// combined test, two consecutive guards, an inverted test around the processing, or a hoisted / helper predicate.
	g := core.GraphOf(f)
	var readNodes []int
	for id, n := range g.Nodes {
		if n == nil {
			continue
		}
		for _, c := range core.Calls(n, false) {
			if strings.HasSuffix(core.CallName(info, c), "GPDir.ReadBlockAtIndex") {
				readNodes = append(readNodes, id)
			}
		}
	}
	var condNodes []int
	for id, n := range g.Nodes {
		if e, ok := n.(ast.Expr); ok && len(g.Succ[id]) == 2 && (mentionsFieldR(info, f.Decl.Body, e, fF) || mentionsFieldR(info, f.Decl.Body, e, fL)) {
			condNodes = append(condNodes, id)
		}
	}
	if len(readNodes) == 0 || len(condNodes) == 0 {
		r.Undecided(rule, "query-filter", p.Rel(f.Decl.Pos()), fmt.Sprintf("no `if <block time vs covered range> { continue }` found (%d range tests, %d column reads)", len(condNodes), len(readNodes)))
		return
	}
	cond := g.Nodes[condNodes[0]].(ast.Expr)
	for _, rf := range []int{-1, 0, 1} {
		for _, rl := range []int{-1, 0, 1} {
			if rf < 0 && rl > 0 {
				continue // infeasible: first <= last
			}
			// evaluate the skip condition (any boolean combination of comparisons of the block timestamp with the two bounds,
			// possibly hoisted into locals / a predicate helper) for this order type
			var eval func(e ast.Expr, depth int) (bool, bool)
			eval = func(e ast.Expr, depth int) (bool, bool) {
				if depth > 8 {
					return false, false
				}
				e = ast.Unparen(resolveLocal(info, f.Decl.Body, ast.Unparen(e)))
				switch x := e.(type) {
				case *ast.UnaryExpr:
					if x.Op == token.NOT {
						v, ok := eval(x.X, depth+1)
						return !v, ok
					}
				case *ast.BinaryExpr:
					switch x.Op {
					case token.LAND, token.LOR:
						a, ok1 := eval(x.X, depth+1)
						b, ok2 := eval(x.Y, depth+1)
						if x.Op == token.LAND {
							return a && b, ok1 && ok2
						}
						return a || b, ok1 && ok2
					case token.LSS, token.GTR, token.LEQ, token.GEQ:
						lhs, rhs, op := x.X, x.Y, x.Op
						if !strings.HasSuffix(core.Str(lhs), ".Timestamp") {
							lhs, rhs = rhs, lhs
							op = map[token.Token]token.Token{token.LSS: token.GTR, token.GTR: token.LSS, token.LEQ: token.GEQ, token.GEQ: token.LEQ}[op]
						}
						if !strings.HasSuffix(core.Str(lhs), ".Timestamp") {
							return false, false
						}
						switch core.SelField(info, rhs) {
						case fF:
							return relHolds(rf, op), true
						case fL:
							return relHolds(rl, op), true
						}
					}
				}
				return false, false
			}
			decided := true
			seenN := map[int]bool{core.Entry: true}
			work := []int{core.Entry}
			for len(work) > 0 {
				cur := work[len(work)-1]
				work = work[:len(work)-1]
				succs := g.Succ[cur]
				for _, cn := range condNodes {
					if cn == cur {
						v, ok := eval(g.Nodes[cur].(ast.Expr), 0)
						if !ok {
							decided = false
						} else if v {
							succs = succs[:1]
						} else {
							succs = succs[1:]
						}
					}
				}
				for _, nx := range succs {
					if !seenN[nx] {
						seenN[nx] = true
						work = append(work, nx)
					}
				}
			}
			skip := true
			for _, rn := range readNodes {
				if seenN[rn] {
					skip = false
				}
			}
			want := rf < 0 || rl > 0
			r.Check(rule, fmt.Sprintf("query-filter:block-%s-first-%s-last", relName[rf], relName[rl]), p.Rel(cond.Pos()), decided && skip == want,
				fmt.Sprintf("a block %s the first and %s the last covered time is skipped=%v by the query; the listing subtracts it iff it is before first or after last (%v)", relName[rf], relName[rl], skip, want))
		}
	}
}

// c12Origin: the blocks subtracted in ReadMetadata are the helper results themselves.
func c12Origin(r *core.Run, p *core.Prog) {
	const rule = "value-origin"
	f := r.MustFunc(rule, pkgGoDB, "DBWorkManager.ReadMetadata")
	if f == nil {
		return
	}
	info := f.Info()
	sig := f.Obj.Type().(*types.Signature)
	tfirst, tlast := sig.Params().At(0), sig.Params().At(1)
	type site struct {
		call *ast.CallExpr
		body ast.Node
	}
	var sites []site
	core.Walk(f.Decl.Body, true, func(x ast.Node) bool {
		if c, ok := x.(*ast.CallExpr); ok && core.CallName(info, c) == pkgGoDB+".DBWorkManager.readMetadataAndEvaluate" {
			sites = append(sites, site{call: c})
		}
		return true
	})
	if len(sites) != 2 {
		r.Undecided(rule, "ReadMetadata:subtraction-sites", p.Rel(f.Decl.Pos()), fmt.Sprintf("%d calls of readMetadataAndEvaluate (2 on the reference tree: first and last day)", len(sites)))
		return
	}
	defOf := func(o types.Object) (ast.Expr, int) {
		var rhs ast.Expr
		idx, n := 0, 0
		core.Walk(f.Decl.Body, true, func(x ast.Node) bool {
			switch a := x.(type) {
			case *ast.AssignStmt:
				for i, l := range a.Lhs {
					if core.ObjOf(info, l) == o {
						n++
						if len(a.Rhs) == 1 {
							rhs, idx = a.Rhs[0], i
						} else if i < len(a.Rhs) {
							rhs, idx = a.Rhs[i], 0
						}
					}
				}
			case *ast.ValueSpec:
				for i, nm := range a.Names {
					if info.Defs[nm] == o {
						n++
						if len(a.Values) == 1 {
							rhs, idx = a.Values[0], i
						} else if i < len(a.Values) {
							rhs, idx = a.Values[i], 0
						}
					}
				}
			}
			return true
		})
		if n != 1 {
			return nil, 0
		}
		return rhs, idx
	}
	for i, s := range sites {
		which, helper, bound := "first-day", pkgStorage+".BlockHeader.BlocksBefore", tfirst
		if i == 1 {
			which, helper, bound = "last-day", pkgStorage+".BlockHeader.BlocksAfter", tlast
		}
		where := p.Rel(s.call.Pos())
		if len(s.call.Args) != 5 {
			r.Undecided(rule, "ReadMetadata:"+which, where, "call arity")
			continue
		}
		okBlocks, detail := false, "blocks argument "+core.Str(s.call.Args[1])
		if o := core.ObjOf(info, s.call.Args[1]); o != nil {
			if d, ri := defOf(o); d != nil {
				if c, ok := ast.Unparen(d).(*ast.CallExpr); ok && core.CallName(info, c) == helper && ri == 0 && len(c.Args) == 1 && core.ObjOf(info, c.Args[0]) == bound {
					okBlocks = true
				} else {
					detail += " is defined as " + core.Str(d)
				}
			} else {
				detail += " is assigned more than once"
			}
		}
		r.Check(rule, "ReadMetadata:"+which+":blocks-are-helper-result", where, okBlocks,
			detail+fmt.Sprintf("; the blocks subtracted for the %s must be exactly %s(%s)", which, helper[strings.LastIndex(helper, ".")+1:], bound.Name()))
		okOff := false
		if i == 0 {
			k, isC := core.ConstInt(info, s.call.Args[2])
			okOff = isC && k == 0
		} else if o := core.ObjOf(info, s.call.Args[2]); o != nil {
			if d, ri := defOf(o); d != nil {
				if c, ok := ast.Unparen(d).(*ast.CallExpr); ok && core.CallName(info, c) == helper && ri == 1 {
					okOff = true
				}
			}
		}
		r.Check(rule, "ReadMetadata:"+which+":offset-matches-blocks", where, okOff, "the index offset must address the metadata of the first subtracted block (0 for the leading blocks, the index returned by BlocksAfter for the trailing ones)")
		// the callback subtracts
		okSub := false
		if fb, fi := funcBodyOf(p, info, f.Decl.Body, s.call.Args[4]); fb != nil {
			core.Walk(fb, false, func(x ast.Node) bool {
				if c, ok := x.(*ast.CallExpr); ok && core.CallName(fi, c) == pkgGpfile+".Stats.Sub" {
					okSub = true
				}
				return true
			})
		}
		r.Check(rule, "ReadMetadata:"+which+":operation-is-Sub", where, okSub, "out-of-range blocks must be subtracted from the day totals")
	}
	// every visited day is added in full
	okAdd := false
	core.Walk(f.Decl.Body, true, func(x ast.Node) bool {
		if a, ok := x.(*ast.AssignStmt); ok && len(a.Rhs) == 1 {
			if c, ok := a.Rhs[0].(*ast.CallExpr); ok && core.CallName(info, c) == pkgGpfile+".Stats.Add" && len(c.Args) == 1 && strings.HasSuffix(core.Str(c.Args[0]), ".Stats") {
				okAdd = true
			}
		}
		return true
	})
	r.Check(rule, "ReadMetadata:day-totals-added", p.Rel(f.Decl.Pos()), okAdd, "the totals of every visited day must be added before partial days are corrected")
}

// c12EveryBlock: every block handed to readMetadataAndEvaluate reaches the statistics callback exactly once; the only
// permitted skip is a block found broken. A block skipped for any other reason (for instance "it holds no flows") keeps its
// drops — which are stored per block independently of the flows — in the day totals although it lies outside the range.
func c12EveryBlock(r *core.Run, p *core.Prog) {
	const rule = "every-listed-block-evaluated"
	f := r.MustFunc(rule, pkgGoDB, "DBWorkManager.readMetadataAndEvaluate")
	if f == nil {
		return
	}
	info := f.Info()
	sig := f.Obj.Type().(*types.Signature)
	var cb, blocksParam types.Object
	for i := 0; i < sig.Params().Len(); i++ {
		pr := sig.Params().At(i)
		if _, isFn := pr.Type().Underlying().(*types.Signature); isFn {
			cb = pr
		}
		if sl, isSl := pr.Type().Underlying().(*types.Slice); isSl && strings.HasSuffix(core.TypeName(sl.Elem()), "BlockAtTime") {
			blocksParam = pr
		}
	}
	var loop *ast.RangeStmt
	core.Walk(f.Decl.Body, false, func(x ast.Node) bool {
		if rs, ok := x.(*ast.RangeStmt); ok && loop == nil && blocksParam != nil && core.ObjOf(info, rs.X) == blocksParam {
			loop = rs
		}
		return true
	})
	if cb == nil || loop == nil {
		r.Undecided(rule, "readMetadataAndEvaluate:structure", p.Rel(f.Decl.Pos()), "callback parameter / loop over the listed blocks not found")
		return
	}
	// the broken flag: a bool local declared in the loop body
	wrap := &ast.BlockStmt{List: loop.Body.List}
	g := core.NewGraph(info, wrap)
	cl := func(n ast.Node, cond *bool) []ev {
		var out []ev
		if cond != nil {
			atom, truth := normCond(n.(ast.Expr), *cond)
			if o, ok := core.ObjOf(info, atom).(*types.Var); ok && o.Pos() >= loop.Body.Pos() && o.Pos() < loop.Body.End() {
				if b, isB := o.Type().Underlying().(*types.Basic); isB && b.Kind() == types.Bool && truth {
					// a failure flag: a bool of the iteration that the body sets to true (on a read / sanity failure)
					setTrue := false
					core.Walk(loop.Body, false, func(y ast.Node) bool {
						if a, ok := y.(*ast.AssignStmt); ok && len(a.Lhs) == 1 && len(a.Rhs) == 1 && core.ObjOf(info, a.Lhs[0]) == types.Object(o) {
							if tv, ok := info.Types[a.Rhs[0]]; ok && tv.Value != nil && tv.Value.String() == "true" {
								setTrue = true
							}
						}
						return true
					})
					if setTrue {
						out = append(out, ev{label: "flag-true:broken"})
					}
				}
			}
			return out
		}
		for _, c := range core.Calls(n, false) {
			if core.ObjOf(info, c.Fun) == cb {
				out = append(out, ev{label: "callback"})
			}
		}
		if _, ok := n.(*ast.ReturnStmt); ok {
			out = append(out, ev{label: "return"})
		}
		return out
	}
	fake := &core.Fn{Prog: p, Pkg: f.Pkg, Decl: &ast.FuncDecl{Body: wrap, Name: f.Decl.Name, Type: &ast.FuncType{}}, Obj: f.Obj, Name: f.Name}
	ts, ok := traces(fake, g, cl, 20000)
	if !ok {
		r.Undecided(rule, "readMetadataAndEvaluate:paths", p.Rel(loop.Pos()), "too many paths")
		return
	}
	bad, nOK := "", 0
	for _, t := range ts {
		if t.has("return") {
			continue
		}
		broken := false
		for _, e := range t.evs {
			if strings.HasPrefix(e.label, "flag-true:") && strings.Contains(strings.ToLower(e.label), "broken") {
				broken = true
			}
		}
		switch {
		case t.count("callback") == 1:
			nOK++
		case t.count("callback") == 0 && broken:
		default:
			bad = fmt.Sprintf("an iteration over a listed block reaches the statistics callback %d times without the block having been found broken: %s", t.count("callback"), pathLines(p, g, t.path))
		}
	}
	r.Check(rule, "readMetadataAndEvaluate:callback-once-per-listed-block", p.Rel(loop.Pos()), bad == "" && nOK > 0, bad)
}
