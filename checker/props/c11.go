package props

import (
	"fmt"
	"go/ast"
	"go/token"
	"go/types"
	"strings"

	"gpverif/core"
)

func init() { register("C11", c11) }

func c11(r *core.Run) {
	r.Expl = "C11 (results independent of parallelism; queries end): decides (1) termination shape of the work queue: every send on DBWorkManager.workloadChan happens on a channel whose capacity is derived from the number of items about to be sent (or from a goroutine), because its consumers are started only after the producer returned — a fixed capacity filled synchronously blocks forever once there are more workloads than capacity; the queue is closed on every exit of the producer; (2) worker protocol: wg.Add precedes the spawns, every worker goroutine defers wg.Done first, each workload leads to at most one message on the result channel on every path and exactly one on the normal path, the result channel is closed only after all ExecuteWorkerReadJobs calls and the live-query wait; (3) fan-in commutativity: the aggregation goroutine updates its state only by Merge / Stats.Add / counters — no last-writer-wins assignment of an item-derived value; (4) no shared mutable state between workers: readBlocksAndEvaluate and the worker closure do not assign fields of the shared work manager or query, and the instrumented condition closures (evaluated concurrently by all workers) write neither to the key nor to captured variables. NOT decided: equality of results across worker counts and schedules as executed; absence of every deadlock (e.g. the error path on which the aggregator stops draining)."
	r.Floor = 12
	r.Rules = append(r.Rules, "queue-filled-before-consumers (P16)", "worker-protocol (P1/P2)", "accumulator-discipline (P15)", "no-shared-writes (P8)", "no-reentrant-lock")
	p := r.Prog("cgo")
	c11Queue(r, p)
	c11Workers(r, p)
	c11FanIn(r, p)
	c11Shared(r, p)
	c11Relock(r, p)
}

// c11Relock: a query ends only if no goroutine of it can block for good; the statistics of a running query are shared
// between the aggregation routine (writer) and the keepalive callback (reader) under a non-reentrant RWMutex.
func c11Relock(r *core.Run, p *core.Prog) {
	const rule = "no-reentrant-lock"
	rels := []string{"pkg/goDB/engine", "pkg/types/workload", pkgGoDB}
	if r.Thorough() {
		rels = nil
		for _, fn := range p.AllFuncs() {
			rel := core.RelPkg(fn.Pkg.PkgPath)
			if strings.HasPrefix(rel, "examples/") {
				continue
			}
			seen := false
			for _, x := range rels {
				if x == rel {
					seen = true
				}
			}
			if !seen {
				rels = append(rels, rel)
			}
		}
	}
	nFn, nLocks := 0, 0
	for _, rel := range rels {
		for _, fn := range p.Funcs(rel) {
			nFn++
			for _, c := range core.Calls(fn.Decl.Body, true) {
				if _, m := core.MethodCall(fn.Info(), c); m == "RLock" || m == "Lock" {
					nLocks++
				}
			}
			if hz := relockHazardsIn(p, fn); len(hz) > 0 {
				r.Check(rule, fn.Where(), p.Rel(fn.Decl.Pos()), false, strings.Join(hz, "; "))
			}
		}
	}
	r.Check(rule, "lock-regions-scanned", "-", nLocks >= 3, fmt.Sprintf("%d functions, %d lock acquisitions scanned for a second acquisition of the same lock inside the held region (directly, or through LogValue / String / … of a value handed to a logger)", nFn, nLocks))
}

func c11Queue(r *core.Run, p *core.Prog) {
	const rule = "queue-filled-before-consumers"
	fCh := p.FieldObj(pkgGoDB, "DBWorkManager", "workloadChan")
	if fCh == nil {
		r.Missing(rule, "DBWorkManager.workloadChan")
		return
	}
	// the channel is the field or a local bound to it (`q := make(…); w.workloadChan = q` / `q := w.workloadChan`)
	aliasesOf := func(info *types.Info, body ast.Node) map[types.Object]bool {
		al := map[types.Object]bool{}
		core.Walk(body, true, func(x ast.Node) bool {
			a, ok := x.(*ast.AssignStmt)
			if !ok || len(a.Lhs) != len(a.Rhs) {
				return true
			}
			for i := range a.Lhs {
				if core.SelField(info, a.Lhs[i]) == fCh {
					if o := core.ObjOf(info, a.Rhs[i]); o != nil {
						al[o] = true
					}
				}
				if core.SelField(info, a.Rhs[i]) == fCh {
					if o := core.ObjOf(info, a.Lhs[i]); o != nil {
						al[o] = true
					}
				}
			}
			return true
		})
		return al
	}
	isChan := func(info *types.Info, al map[types.Object]bool, e ast.Expr) bool {
		if core.SelField(info, e) == fCh {
			return true
		}
		o := core.ObjOf(info, e)
		return o != nil && al[o]
	}
	closesChan := func(fn *core.Fn, body ast.Node) bool {
		info := fn.Info()
		al := aliasesOf(info, fn.Decl.Body)
		found := false
		core.Walk(body, true, func(x ast.Node) bool {
			if c, ok := x.(*ast.CallExpr); ok && core.CallName(info, c) == "builtin.close" && len(c.Args) == 1 && isChan(info, al, c.Args[0]) {
				found = true
			}
			return true
		})
		return found
	}
	nSend := 0
	for _, fn := range p.Funcs(pkgGoDB) {
		info := fn.Info()
		al := aliasesOf(info, fn.Decl.Body)
		// function bodies: the declaration and every closure in it are analysed separately
		var bodies []*ast.BlockStmt
		bodies = append(bodies, fn.Decl.Body)
		core.Walk(fn.Decl.Body, true, func(x ast.Node) bool {
			if fl, ok := x.(*ast.FuncLit); ok {
				bodies = append(bodies, fl.Body)
			}
			return true
		})
		for _, body := range bodies {
			var sends []*ast.SendStmt
			core.Walk(body, false, func(x ast.Node) bool {
				if s, ok := x.(*ast.SendStmt); ok && isChan(info, al, s.Chan) {
					sends = append(sends, s)
				}
				return true
			})
			if len(sends) == 0 {
				continue
			}
			// is this body launched with `go`?
			async := false
			core.Walk(fn.Decl.Body, true, func(x ast.Node) bool {
				if gs, ok := x.(*ast.GoStmt); ok {
					if fl, ok := gs.Call.Fun.(*ast.FuncLit); ok && fl.Body == body {
						async = true
					}
				}
				return true
			})
			// a make sized by the collection being sent, in the same body, before the sends
			var sizedBy types.Object
			var makePos token.Pos
			core.Walk(body, false, func(x ast.Node) bool {
				a, ok := x.(*ast.AssignStmt)
				if !ok || len(a.Lhs) != 1 || len(a.Rhs) != 1 || !isChan(info, al, a.Lhs[0]) {
					return true
				}
				if c, ok := a.Rhs[0].(*ast.CallExpr); ok && core.CallName(info, c) == "builtin.make" && len(c.Args) == 2 {
					if la, ok := lenArg(info, stripConv(info, resolveLocal(info, body, c.Args[1]))); ok {
						sizedBy, makePos = core.ObjOf(info, la), a.Pos()
					}
				}
				return true
			})
			for _, s := range sends {
				nSend++
				okS := async
				why := "sent from a goroutine"
				if !okS {
					// the send must iterate over exactly the collection the capacity was taken from
					inLoopOver := false
					for _, pn := range core.PathTo(body, s) {
						if sizedBy == nil {
							break
						}
						switch l := pn.(type) {
						case *ast.RangeStmt:
							if core.ObjOf(info, l.X) == sizedBy {
								inLoopOver = true
							}
						case *ast.ForStmt:
							// for i := 0; i < len(X); i++ { ch <- X[i] }
							if b, ok := core.BinOp(l.Cond, token.LSS); ok {
								if la, ok := lenArg(info, stripConv(info, b.Y)); ok && core.ObjOf(info, la) == sizedBy {
									if ix, ok := ast.Unparen(s.Value).(*ast.IndexExpr); ok && core.ObjOf(info, ix.X) == sizedBy && core.ObjOf(info, ix.Index) == core.ObjOf(info, b.X) {
										inLoopOver = true
									}
								}
							}
						}
					}
					okS = sizedBy != nil && makePos < s.Pos() && inLoopOver
					why = "channel re-created with capacity len(" + fmt.Sprint(sizedBy) + ") before the items are sent"
					if !okS {
						why = "the workers receiving from workloadChan are started (ExecuteWorkerReadJobs) only after the function that fills it has returned; this send is synchronous and the channel's capacity is not derived from the number of workloads (fixed capacity from NewDBWorkManager): with more workloads than capacity — more than 32*64 day directories per processing unit — the send blocks forever and the query never ends"
					}
				}
				r.Check(rule, fmt.Sprintf("workloadChan:send@%s", core.Str(s.Value)), p.Rel(s.Pos()), okS, why)
			}
		}
	}
	if nSend == 0 {
		r.Undecided(rule, "workloadChan:sends", "-", "no send on DBWorkManager.workloadChan found")
	}
	// closed on every exit of the producer: a top-level defer of CreateWorkerJobs closes the channel, directly, in its
	// closure, or in a method the closure hands the work to
	if f := r.MustFunc(rule, pkgGoDB, "DBWorkManager.CreateWorkerJobs"); f != nil {
		info := f.Info()
		okClose := false
		for _, st := range f.Decl.Body.List {
			d, ok := st.(*ast.DeferStmt)
			if !ok {
				continue
			}
			if closesChan(f, d) {
				okClose = true
			}
			for _, c := range core.Calls(d, true) {
				if fo, ok := core.Callee(info, c).(*types.Func); ok {
					if h := p.FnOf(fo); h != nil && closesChan(h, h.Decl.Body) {
						okClose = true
					}
				}
			}
		}
		r.Check(rule, "CreateWorkerJobs:queue-closed-on-every-exit", p.Rel(f.Decl.Pos()), okClose, "close(workloadChan) must be deferred at the top level of the producer: otherwise an error return leaves the workers ranging over the channel forever")
	}
}

func c11Workers(r *core.Run, p *core.Prog) {
	const rule = "worker-protocol"
	if f := r.MustFunc(rule, pkgGoDB, "DBWorkManager.ExecuteWorkerReadJobs"); f != nil {
		info := f.Info()
		var addPos, spawnPos, waitPos token.Pos
		var addArg string
		core.Walk(f.Decl.Body, false, func(x ast.Node) bool {
			if c, ok := x.(*ast.CallExpr); ok {
				switch core.CallName(info, c) {
				case "sync.WaitGroup.Add":
					addPos, addArg = c.Pos(), core.Str(c.Args[0])
				case "sync.WaitGroup.Wait":
					waitPos = c.Pos()
				case pkgGoDB + ".DBWorkManager.grabAndProcessWorkload":
					spawnPos = c.Pos()
				}
			}
			return true
		})
		// the spawn loop bound equals the Add argument
		loopBound := ""
		core.Walk(f.Decl.Body, false, func(x ast.Node) bool {
			if fs, ok := x.(*ast.ForStmt); ok && fs.Cond != nil {
				if b, ok := core.BinOp(fs.Cond, token.LSS); ok {
					loopBound = core.Str(b.Y)
				}
			}
			return true
		})
		r.Check(rule, "ExecuteWorkerReadJobs:add-spawn-wait", p.Rel(f.Decl.Pos()), addPos.IsValid() && addPos < spawnPos && spawnPos < waitPos && addArg == loopBound,
			fmt.Sprintf("wg.Add(%s) must precede spawning exactly that many workers (loop bound %s) and wg.Wait must follow", addArg, loopBound))
	}
	f := r.MustFunc(rule, pkgGoDB, "DBWorkManager.grabAndProcessWorkload")
	if f == nil {
		return
	}
	info := f.Info()
	var worker *ast.FuncLit
	core.Walk(f.Decl.Body, false, func(x ast.Node) bool {
		if gs, ok := x.(*ast.GoStmt); ok {
			worker, _ = gs.Call.Fun.(*ast.FuncLit)
		}
		return true
	})
	if worker == nil {
		r.Check(rule, "grabAndProcessWorkload:spawns-goroutine", p.Rel(f.Decl.Pos()), false, "no goroutine")
		return
	}
	first, _ := worker.Body.List[0].(*ast.DeferStmt)
	r.Check(rule, "worker:defers-Done-first", p.Rel(worker.Pos()), first != nil && core.CallName(info, first.Call) == "sync.WaitGroup.Done", "the first statement of the worker goroutine must be `defer wg.Done()`, otherwise an early return leaves ExecuteWorkerReadJobs waiting forever")
	// per workload: the body of `for wl := range workloadChan`
	var loop *ast.RangeStmt
	var mapChan types.Object
	sig := f.Obj.Type().(*types.Signature)
	for i := 0; i < sig.Params().Len(); i++ {
		if ch, ok := sig.Params().At(i).Type().Underlying().(*types.Chan); ok && ch.Dir() != types.RecvOnly {
			mapChan = sig.Params().At(i)
		}
	}
	core.Walk(worker.Body, false, func(x ast.Node) bool {
		if rs, ok := x.(*ast.RangeStmt); ok && loop == nil {
			if _, isChan := info.TypeOf(rs.X).Underlying().(*types.Chan); isChan {
				loop = rs
			}
		}
		return true
	})
	if loop == nil || mapChan == nil {
		r.Undecided(rule, "worker:workload-loop", p.Rel(worker.Pos()), "loop over the workload channel / result channel not found")
		return
	}
	wrap := &ast.BlockStmt{List: loop.Body.List}
	g := core.NewGraph(info, wrap)
	cl := func(n ast.Node, cond *bool) []ev {
		var out []ev
		if s, ok := n.(*ast.SendStmt); ok && core.ObjOf(info, s.Chan) == mapChan {
			out = append(out, ev{label: "send"})
		}
		if _, ok := n.(*ast.ReturnStmt); ok {
			out = append(out, ev{label: "return"})
		}
		return out
	}
	fake := &core.Fn{Prog: p, Pkg: f.Pkg, Decl: &ast.FuncDecl{Body: wrap, Name: f.Decl.Name, Type: &ast.FuncType{}}, Obj: f.Obj, Name: f.Name}
	ts, ok := traces(fake, g, cl, 5000)
	bad, nNormal := "", 0
	if ok {
		for _, t := range ts {
			if t.count("send") > 1 {
				bad = "a workload leads to more than one message on the result channel: " + pathLines(p, g, t.path)
			}
			if !t.has("return") {
				nNormal++
				if t.count("send") != 1 {
					bad = "a workload that was processed to the end does not deliver its result map: " + pathLines(p, g, t.path)
				}
			}
		}
	}
	r.Check(rule, "worker:one-message-per-workload", p.Rel(loop.Pos()), ok && bad == "" && nNormal > 0, orStr(bad, fmt.Sprintf("paths ok=%v n=%d normal=%d", ok, len(ts), nNormal)))
	// ownership of a sent map passes to the aggregation goroutine (which merges and clears it concurrently): the worker must
	// send a map it created for this workload and must not keep using it — a map variable that lives across iterations is
	// acceptable only if it is replaced by a fresh one unconditionally right after the send
	badOwn, nSent := "", 0
	core.Walk(loop.Body, false, func(x ast.Node) bool {
		s, ok := x.(*ast.SendStmt)
		if !ok || core.ObjOf(info, s.Chan) != mapChan {
			return true
		}
		v, isVar := core.ObjOf(info, s.Value).(*types.Var)
		if !isVar || v.Parent() == v.Pkg().Scope() {
			return true // a package-level sentinel (the nil map)
		}
		nSent++
		if v.Pos() >= loop.Body.Pos() && v.Pos() < loop.Body.End() {
			return true // created for this workload
		}
		// declared outside the loop: the statement following the send must replace it unconditionally
		list, idx := core.EnclosingStmtList(loop.Body, s)
		replaced := false
		if idx >= 0 && idx+1 < len(list) {
			if a, ok := list[idx+1].(*ast.AssignStmt); ok && len(a.Lhs) == 1 && core.ObjOf(info, a.Lhs[0]) == types.Object(v) {
				if _, isCall := ast.Unparen(a.Rhs[0]).(*ast.CallExpr); isCall {
					replaced = true
				}
			}
		}
		if !replaced {
			badOwn = fmt.Sprintf("%s: %s is sent to the aggregation goroutine but lives across workloads (declared at %s) and is not unconditionally replaced by a fresh map after the send: the worker keeps writing into a map the aggregator merges and clears concurrently, flows are counted twice or lost depending on the schedule", p.Rel(s.Pos()), v.Name(), p.Rel(v.Pos()))
		}
		return true
	})
	r.Check(rule, "worker:sent-map-is-owned-by-the-receiver", p.Rel(loop.Pos()), badOwn == "" && nSent > 0, badOwn)
	// RunStatement: close(mapChan) after all ExecuteWorkerReadJobs and the live query wait
	if rs := r.MustFunc(rule, "pkg/goDB/engine", "QueryRunner.RunStatement"); rs != nil {
		ri := rs.Info()
		var execPos, waitPos, closePos token.Pos
		core.Walk(rs.Decl.Body, false, func(x ast.Node) bool {
			if c, ok := x.(*ast.CallExpr); ok {
				switch core.CallName(ri, c) {
				case pkgGoDB + ".DBWorkManager.ExecuteWorkerReadJobs":
					execPos = c.End()
				case "sync.WaitGroup.Wait":
					waitPos = c.Pos()
				case "builtin.close":
					if strings.Contains(strings.ToLower(core.Str(c.Args[0])), "mapchan") {
						closePos = c.Pos()
					}
				}
			}
			return true
		})
		r.Check(rule, "RunStatement:result-channel-closed-after-producers", p.Rel(rs.Decl.Pos()), execPos.IsValid() && waitPos.IsValid() && closePos > execPos && closePos > waitPos,
			"close(mapChan) must follow every ExecuteWorkerReadJobs call and the wait for the live query: closing earlier panics a sending worker, never closing leaves the aggregator waiting")
	}
}

func c11FanIn(r *core.Run, p *core.Prog) {
	const rule = "accumulator-discipline"
	f := r.MustFunc(rule, "pkg/goDB/engine", "QueryRunner.aggregate")
	if f == nil {
		return
	}
	info := f.Info()
	var loop *ast.RangeStmt
	core.Walk(f.Decl.Body, true, func(x ast.Node) bool {
		if rs, ok := x.(*ast.RangeStmt); ok && loop == nil {
			if _, isChan := info.TypeOf(rs.X).Underlying().(*types.Chan); isChan {
				loop = rs
			}
		}
		return true
	})
	if loop == nil {
		r.Undecided(rule, "aggregate:item-loop", p.Rel(f.Decl.Pos()), "no loop over the map channel")
		return
	}
	item := core.ObjOf(info, loop.Key)
	items := map[types.Object]bool{item: true}
	n, bad := 0, ""
	core.Walk(loop.Body, false, func(x ast.Node) bool {
		a, ok := x.(*ast.AssignStmt)
		if !ok {
			return true
		}
		for i, l := range a.Lhs {
			o := core.ObjOf(info, l)
			if a.Tok == token.DEFINE {
				continue
			}
			root := l
			for {
				switch y := ast.Unparen(root).(type) {
				case *ast.SelectorExpr:
					root = y.X
					continue
				case *ast.IndexExpr:
					root = y.X
					continue
				}
				break
			}
			ro := core.ObjOf(info, root)
			if ro == nil || (ro.Pos() > loop.Pos() && ro.Pos() < loop.End()) {
				_ = o
				continue // loop-local
			}
			n++
			var rhs ast.Expr
			if i < len(a.Rhs) {
				rhs = a.Rhs[i]
			}
			switch {
			case a.Tok == token.ADD_ASSIGN:
			case rhs != nil && mentionsAny(info, rhs, items):
				// counter keyed by the item's interface: x[k] = x[k] + 1 is commutative
				if b, ok := ast.Unparen(rhs).(*ast.BinaryExpr); ok && b.Op == token.ADD && core.Str(b.X) == core.Str(l) {
					continue
				}
				bad = fmt.Sprintf("%s: %s = %s keeps the value of whichever worker's map arrives last", p.Rel(a.Pos()), core.Str(l), core.Str(rhs))
			}
		}
		return true
	})
	merges := map[string]bool{}
	for _, c := range core.Calls(loop.Body, false) {
		merges[core.CallName(info, c)] = true
	}
	r.Check(rule, "aggregate:no-last-writer-wins", p.Rel(loop.Pos()), bad == "", bad)
	r.Check(rule, "aggregate:merges-maps-and-stats", p.Rel(loop.Pos()), merges["pkg/types/workload.Stats.Add"] && (merges[pkgHashmap+".AggFlowMapWithMetadata.Merge"] || merges[pkgHashmap+".AggFlowMap.Merge"]),
		"per-worker maps must be combined with Merge and their statistics with Stats.Add")
	_ = n
}

func c11Shared(r *core.Run, p *core.Prog) {
	const rule = "no-shared-writes"
	for _, name := range []string{"DBWorkManager.readBlocksAndEvaluate", "DBWorkManager.grabAndProcessWorkload"} {
		f := r.MustFunc(rule, pkgGoDB, name)
		if f == nil {
			continue
		}
		info := f.Info()
		recv := f.Obj.Type().(*types.Signature).Recv()
		var bad []string
		core.Walk(f.Decl.Body, true, func(x ast.Node) bool {
			var targets []ast.Expr
			switch s := x.(type) {
			case *ast.AssignStmt:
				if s.Tok != token.DEFINE {
					targets = s.Lhs
				}
			case *ast.IncDecStmt:
				targets = []ast.Expr{s.X}
			}
			for _, l := range targets {
				root := l
				depth := 0
				for {
					switch y := ast.Unparen(root).(type) {
					case *ast.SelectorExpr:
						root = y.X
						depth++
						continue
					case *ast.IndexExpr:
						root = y.X
						continue
					}
					break
				}
				if core.ObjOf(info, root) == recv && depth > 0 {
					bad = append(bad, fmt.Sprintf("%s: %s", p.Rel(l.Pos()), core.Str(l)))
				}
			}
			return true
		})
		r.Check(rule, name+":no-writes-to-shared-manager", p.Rel(f.Decl.Pos()), len(bad) == 0,
			"the work manager and its query are shared by all worker goroutines without a lock; assigned here: "+strings.Join(bad, "; "))
	}
	// condition closures: shared-state rule of C09
	if f := r.MustFunc(rule, pkgNode, "generateCompareValue"); f != nil {
		info := f.Info()
		n := 0
		core.Walk(f.Decl.Body, true, func(x ast.Node) bool {
			fl, ok := x.(*ast.FuncLit)
			if !ok {
				return true
			}
			n++
			shared := closureSharedWrites(info, fl)
			var key types.Object
			if fl.Type.Params != nil && len(fl.Type.Params.List) == 1 && len(fl.Type.Params.List[0].Names) == 1 {
				key = info.Defs[fl.Type.Params.List[0].Names[0]]
			}
			var imp []string
			if key != nil {
				imp = keyStores(info, fl.Body, key)
			}
			r.Check(rule, fmt.Sprintf("condition-closure#%d", n), p.Rel(fl.Pos()), len(shared) == 0 && len(imp) == 0,
				"condition closures are evaluated concurrently by every worker on the shared condition tree; this one writes "+strings.Join(append(shared, imp...), "; "))
			return false
		})
		if n < 20 {
			r.Undecided(rule, "condition-closures", p.Rel(f.Decl.Pos()), fmt.Sprintf("only %d comparison closures found", n))
		}
	}
}
