package props

import (
	"go/ast"
	"go/token"
	"go/types"

	"gpverif/core"
)

// atomsOf decomposes a branch condition with a known outcome into atomic comparisons with known outcomes:
// (A && B) true ⇒ A true, B true; (A || B) false ⇒ A false, B false; !A flips. Anything else (an && known false, an ||
// known true) yields no atoms for that part.
func atomsOf(e ast.Expr, truth bool) (atoms []ast.Expr, truths []bool) {
	e, truth = normCond(e, truth)
	if b, ok := e.(*ast.BinaryExpr); ok {
		if (b.Op == token.LAND && truth) || (b.Op == token.LOR && !truth) {
			a1, t1 := atomsOf(b.X, truth)
			a2, t2 := atomsOf(b.Y, truth)
			return append(a1, a2...), append(t1, t2...)
		}
		if b.Op == token.LAND || b.Op == token.LOR {
			return nil, nil
		}
	}
	return []ast.Expr{e}, []bool{truth}
}

// upperBoundsOnPath collects, along one CFG path, the constant upper bounds implied for expressions by the branch
// conditions taken: `x > C` false or `x <= C` true ⇒ x ≤ C; `x >= C` false or `x < C` true ⇒ x ≤ C-1 (and the mirrored
// forms with the constant on the left). Expressions are keyed by their rendering after following single-definition locals,
// so `b := p[0]; if b > 3 {…}` bounds p[0]. The path is cut at node `until` (exclusive).
func upperBoundsOnPath(info *types.Info, body ast.Node, g *core.Graph, path []int, until int) map[string]int64 {
	out := map[string]int64{}
	key := func(e ast.Expr) string { return core.Str(resolveLocal(info, body, ast.Unparen(e))) }
	for i, n := range path {
		if n == until {
			break
		}
		tk, isC := g.Taken(path, i)
		if !isC {
			continue
		}
		cond, ok := g.Nodes[n].(ast.Expr)
		if !ok {
			continue
		}
		atoms, truths := atomsOf(cond, tk)
		for j, a := range atoms {
			b, ok := a.(*ast.BinaryExpr)
			if !ok {
				continue
			}
			x, y, op := b.X, b.Y, b.Op
			if _, isConst := core.ConstInt(info, x); isConst { // C op x  ⇒  x op' C
				x, y = y, x
				op = map[token.Token]token.Token{token.LSS: token.GTR, token.GTR: token.LSS, token.LEQ: token.GEQ, token.GEQ: token.LEQ, token.EQL: token.EQL, token.NEQ: token.NEQ}[op]
			}
			c, isConst := core.ConstInt(info, y)
			if !isConst {
				continue
			}
			if !truths[j] { // negate the comparison
				op = map[token.Token]token.Token{token.LSS: token.GEQ, token.GTR: token.LEQ, token.LEQ: token.GTR, token.GEQ: token.LSS, token.EQL: token.NEQ, token.NEQ: token.EQL}[op]
			}
			var ub int64
			switch op {
			case token.LEQ, token.EQL:
				ub = c
			case token.LSS:
				ub = c - 1
			default:
				continue
			}
			k := key(x)
			if old, seen := out[k]; !seen || ub < old {
				out[k] = ub
			}
		}
	}
	return out
}

// nonEmptyFacts: the slices X for which the branch outcome implies len(X) >= 1: `len(X) > 0`, `len(X) != 0`,
// `len(X) >= 1`, `0 < len(X)` taken true; `len(X) == 0`, `len(X) < 1`, `len(X) <= 0` taken false; through negations
// and the conjunct / disjunct decomposition of atomsOf. Returned are the renderings of X.
func nonEmptyFacts(info *types.Info, cond ast.Expr, taken bool, body ...ast.Node) []string {
	var out []string
	atoms, truths := atomsOf(cond, taken)
	for i, a := range atoms {
		b, ok := a.(*ast.BinaryExpr)
		if !ok {
			continue
		}
		x, y, op := b.X, b.Y, b.Op
		if _, isConst := core.ConstInt(info, x); isConst {
			x, y = y, x
			op = map[token.Token]token.Token{token.LSS: token.GTR, token.GTR: token.LSS, token.LEQ: token.GEQ, token.GEQ: token.LEQ, token.EQL: token.EQL, token.NEQ: token.NEQ}[op]
		}
		k, isConst := core.ConstInt(info, y)
		if len(body) == 1 && body[0] != nil {
			x = resolveLocal(info, body[0], x) // n := len(x); if n > 0 …
		}
		c, isCall := ast.Unparen(x).(*ast.CallExpr)
		if !isConst || !isCall || core.CallName(info, c) != "builtin.len" || len(c.Args) != 1 {
			continue
		}
		if !truths[i] {
			op = map[token.Token]token.Token{token.LSS: token.GEQ, token.GTR: token.LEQ, token.LEQ: token.GTR, token.GEQ: token.LSS, token.EQL: token.NEQ, token.NEQ: token.EQL}[op]
		}
		implies := false
		switch op {
		case token.GTR:
			implies = k >= 0
		case token.GEQ:
			implies = k >= 1
		case token.NEQ:
			implies = k == 0
		case token.EQL:
			implies = k >= 1
		}
		if implies {
			out = append(out, core.Str(c.Args[0]))
		}
	}
	return out
}

// feasible prunes paths that contradict what the path itself established about nil-ness of variables and about boolean
// locals: after `err = fmt.Errorf(…)` the branch `err == nil` cannot be taken, after `ok = true` the branch `!ok` cannot,
// after `x == nil` was found true a later `x != nil` (without an assignment in between) is false. This matters for code
// in which an early `return err` was turned into an assignment followed by a test (by a maintainer, or by the helper
// expansion of core.Expanded); without it the path rules would report behaviour of paths that cannot execute.
func feasible(info *types.Info, g *core.Graph, path []int) bool {
	type fact struct{ known, val bool } // val: nil / true
	facts := map[types.Object]fact{}
	classify := func(e ast.Expr) (fact, bool) {
		e = ast.Unparen(e)
		if core.IsNil(info, e) {
			return fact{true, true}, true
		}
		if tv, ok := info.Types[e]; ok && tv.Value != nil && tv.Value.Kind().String() == "Bool" {
			return fact{true, tv.Value.String() == "true"}, false
		}
		switch x := e.(type) {
		case *ast.CallExpr:
			switch core.CallName(info, x) {
			case "fmt.Errorf", "errors.New":
				return fact{true, false}, true
			}
		case *ast.UnaryExpr:
			if x.Op == token.AND {
				return fact{true, false}, true
			}
		case *ast.CompositeLit:
			return fact{true, false}, true
		}
		return fact{}, true
	}
	for i, id := range path {
		n := g.Nodes[id]
		if n == nil {
			continue
		}
		if tk, isC := g.Taken(path, i); isC {
			atoms, truths := atomsOf(n.(ast.Expr), tk)
			for j, a := range atoms {
				if x, y, eq, ok := eqTest(a, truths[j]); ok && core.IsNil(info, y) {
					if o := core.ObjOf(info, x); o != nil {
						if f, has := facts[o]; has && f.known && f.val != eq {
							return false
						}
						facts[o] = fact{true, eq}
					}
					continue
				}
				at, tr := normCond(a, truths[j])
				if o, isVar := core.ObjOf(info, at).(*types.Var); isVar && !o.IsField() {
					if b, isB := o.Type().Underlying().(*types.Basic); isB && b.Kind() == types.Bool {
						if f, has := facts[o]; has && f.known && f.val != tr {
							return false
						}
						facts[o] = fact{true, tr}
					}
				}
			}
			continue
		}
		switch s := n.(type) {
		case *ast.AssignStmt:
			for k, l := range s.Lhs {
				o := core.ObjOf(info, l)
				if o == nil {
					continue
				}
				if len(s.Lhs) == len(s.Rhs) && (s.Tok == token.ASSIGN || s.Tok == token.DEFINE) {
					if f, _ := classify(s.Rhs[k]); f.known {
						facts[o] = f
						continue
					}
				}
				delete(facts, o)
			}
		case *ast.IncDecStmt, *ast.RangeStmt:
		case *ast.ValueSpec:
			for k, nm := range s.Names {
				if o := info.Defs[nm]; o != nil {
					if k < len(s.Values) {
						if f, _ := classify(s.Values[k]); f.known {
							facts[o] = f
							continue
						}
						delete(facts, o)
					} else if _, isIface := o.Type().Underlying().(*types.Interface); isIface {
						facts[o] = fact{true, true} // zero value of an interface (error) variable
					} else if b, isB := o.Type().Underlying().(*types.Basic); isB && b.Kind() == types.Bool {
						facts[o] = fact{true, false}
					}
				}
			}
		}
		// a call that receives the address of a tracked variable may change it
		core.Walk(n, false, func(x ast.Node) bool {
			if u, ok := x.(*ast.UnaryExpr); ok && u.Op == token.AND {
				if o := core.ObjOf(info, u.X); o != nil {
					delete(facts, o)
				}
			}
			return true
		})
	}
	return true
}

// resolveOnPath follows an identifier to the value it holds at path[at], using the assignments met on the path itself
// (the reaching definition along this one path): `x = e`, `x := e`, parallel assignments and `var x = e`. It works for
// locals assigned in several branches and for the variables of helpers that core.Expanded spliced into the function
// (whose declarations lie outside the function body, and which are defined once per expansion site). The chain stops
// at anything that is not a plain copy (op-assignment, ++, range variable, address taken, no definition on the path).
func resolveOnPath(info *types.Info, g *core.Graph, path []int, at int, e ast.Expr) ast.Expr {
	for depth := 0; depth < 8; depth++ {
		id, ok := ast.Unparen(e).(*ast.Ident)
		if !ok {
			return e
		}
		v, isVar := core.ObjOf(info, id).(*types.Var)
		if !isVar || v.IsField() || v.Pkg() == nil || v.Parent() == v.Pkg().Scope() {
			return e
		}
		var def ast.Expr
		found := false
		for i := at - 1; i >= 0 && !found; i-- {
			n := g.Nodes[path[i]]
			if n == nil {
				continue
			}
			switch s := n.(type) {
			case *ast.AssignStmt:
				for k, l := range s.Lhs {
					if core.ObjOf(info, l) != types.Object(v) {
						continue
					}
					found = true
					if len(s.Lhs) == len(s.Rhs) && (s.Tok == token.ASSIGN || s.Tok == token.DEFINE) {
						def, at = s.Rhs[k], i
					}
				}
			case *ast.IncDecStmt:
				if core.ObjOf(info, s.X) == types.Object(v) {
					found = true
				}
			case *ast.DeclStmt:
				if gd, ok := s.Decl.(*ast.GenDecl); ok {
					for _, sp := range gd.Specs {
						vs, ok := sp.(*ast.ValueSpec)
						if !ok {
							continue
						}
						for k, nm := range vs.Names {
							if info.Defs[nm] == types.Object(v) {
								found = true
								if len(vs.Values) == len(vs.Names) {
									def, at = vs.Values[k], i
								}
							}
						}
					}
				}
			case *ast.RangeStmt:
				if core.ObjOf(info, s.Key) == types.Object(v) || core.ObjOf(info, s.Value) == types.Object(v) {
					found = true
				}
			}
		}
		if def == nil {
			return e
		}
		e = def
	}
	return e
}
