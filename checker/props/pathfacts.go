package props

import (
	"go/ast"
	"go/token"
	"go/types"

	"gpverif/core"
)

// atomsOf decomposes a branch condition with a known outcome into atomic comparisons with known outcomes:
// (A && B) true ⇒ A true, B true; (A || B) false ⇒ A false, B false; !A flips. Anything else (an && known false, an ||
// known true) yields no atoms for that part.
func atomsOf(e ast.Expr, truth bool) (atoms []ast.Expr, truths []bool) {
	e, truth = normCond(e, truth)
	if b, ok := e.(*ast.BinaryExpr); ok {
		if (b.Op == token.LAND && truth) || (b.Op == token.LOR && !truth) {
			a1, t1 := atomsOf(b.X, truth)
			a2, t2 := atomsOf(b.Y, truth)
			return append(a1, a2...), append(t1, t2...)
		}
		if b.Op == token.LAND || b.Op == token.LOR {
			return nil, nil
		}
	}
	return []ast.Expr{e}, []bool{truth}
}

// upperBoundsOnPath collects, along one CFG path, the constant upper bounds implied for expressions by the branch
// conditions taken: `x > C` false or `x <= C` true ⇒ x ≤ C; `x >= C` false or `x < C` true ⇒ x ≤ C-1 (and the mirrored
// forms with the constant on the left). Expressions are keyed by their rendering after following single-definition locals,
// so `b := p[0]; if b > 3 {…}` bounds p[0]. The path is cut at node `until` (exclusive).
func upperBoundsOnPath(info *types.Info, body ast.Node, g *core.Graph, path []int, until int) map[string]int64 {
	out := map[string]int64{}
	key := func(e ast.Expr) string { return core.Str(resolveLocal(info, body, ast.Unparen(e))) }
	for i, n := range path {
		if n == until {
			break
		}
		tk, isC := g.Taken(path, i)
		if !isC {
			continue
		}
		cond, ok := g.Nodes[n].(ast.Expr)
		if !ok {
			continue
		}
		atoms, truths := atomsOf(cond, tk)
		for j, a := range atoms {
			b, ok := a.(*ast.BinaryExpr)
			if !ok {
				continue
			}
			x, y, op := b.X, b.Y, b.Op
			if _, isConst := core.ConstInt(info, x); isConst { // C op x  ⇒  x op' C
				x, y = y, x
				op = map[token.Token]token.Token{token.LSS: token.GTR, token.GTR: token.LSS, token.LEQ: token.GEQ, token.GEQ: token.LEQ, token.EQL: token.EQL, token.NEQ: token.NEQ}[op]
			}
			c, isConst := core.ConstInt(info, y)
			if !isConst {
				continue
			}
			if !truths[j] { // negate the comparison
				op = map[token.Token]token.Token{token.LSS: token.GEQ, token.GTR: token.LEQ, token.LEQ: token.GTR, token.GEQ: token.LSS, token.EQL: token.NEQ, token.NEQ: token.EQL}[op]
			}
			var ub int64
			switch op {
			case token.LEQ, token.EQL:
				ub = c
			case token.LSS:
				ub = c - 1
			default:
				continue
			}
			k := key(x)
			if old, seen := out[k]; !seen || ub < old {
				out[k] = ub
			}
		}
	}
	return out
}

// nonEmptyFacts: the slices X for which the branch outcome implies len(X) >= 1: `len(X) > 0`, `len(X) != 0`,
// `len(X) >= 1`, `0 < len(X)` taken true; `len(X) == 0`, `len(X) < 1`, `len(X) <= 0` taken false; through negations
// and the conjunct / disjunct decomposition of atomsOf. Returned are the renderings of X.
func nonEmptyFacts(info *types.Info, cond ast.Expr, taken bool) []string {
	var out []string
	atoms, truths := atomsOf(cond, taken)
	for i, a := range atoms {
		b, ok := a.(*ast.BinaryExpr)
		if !ok {
			continue
		}
		x, y, op := b.X, b.Y, b.Op
		if _, isConst := core.ConstInt(info, x); isConst {
			x, y = y, x
			op = map[token.Token]token.Token{token.LSS: token.GTR, token.GTR: token.LSS, token.LEQ: token.GEQ, token.GEQ: token.LEQ, token.EQL: token.EQL, token.NEQ: token.NEQ}[op]
		}
		k, isConst := core.ConstInt(info, y)
		c, isCall := ast.Unparen(x).(*ast.CallExpr)
		if !isConst || !isCall || core.CallName(info, c) != "builtin.len" || len(c.Args) != 1 {
			continue
		}
		if !truths[i] {
			op = map[token.Token]token.Token{token.LSS: token.GEQ, token.GTR: token.LEQ, token.LEQ: token.GTR, token.GEQ: token.LSS, token.EQL: token.NEQ, token.NEQ: token.EQL}[op]
		}
		implies := false
		switch op {
		case token.GTR:
			implies = k >= 0
		case token.GEQ:
			implies = k >= 1
		case token.NEQ:
			implies = k == 0
		case token.EQL:
			implies = k >= 1
		}
		if implies {
			out = append(out, core.Str(c.Args[0]))
		}
	}
	return out
}
