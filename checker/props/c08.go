package props

import (
	"fmt"
	"go/ast"
	"go/token"
	"go/types"
	"sort"
	"strings"

	"gpverif/core"
)

func init() { register("C08", c08) }

var famOf = map[string]string{"IPVersionNone": "46", "IPVersionBoth": "46", "IPVersionV4": "4", "IPVersionV6": "6"}

func subset(a, b string) bool {
	for _, c := range a {
		if !strings.ContainsRune(b, c) {
			return false
		}
	}
	return true
}
func inter(a, b string) string {
	out := ""
	for _, c := range a {
		if strings.ContainsRune(b, c) {
			out += string(c)
		}
	}
	return out
}
func union(a, b string) string {
	out := a
	for _, c := range b {
		if !strings.ContainsRune(out, c) {
			out += string(c)
		}
	}
	s := strings.Split(out, "")
	sort.Strings(s)
	return strings.Join(s, "")
}

func c08(r *core.Run) {
	r.Expl = "C08 (query results equal a direct aggregation): decides (1) soundness of the IP-version pruning of the block scan, exhaustively over the finite value domain: the function that yields Query.ipVersion is interpreted on every combination of child restrictions — for a conjunction the result's family set must contain the intersection, for a disjunction the union, a leaf may restrict only under comparator '=', everything else is unrestricted — and Query.ipVersion has no other source; (2) the key-population block and the comparison-value block of the evaluation loop are siblings: per attribute the same column, and every slice into a column is [W*i, W*i+W) (IPv4) resp. [4*v4+16*(i-v4), …+16) (IPv6) with W the declared width constant, checked by symbolic linear evaluation of the index expressions; (3) flag tables: the k-th attribute / condition flag setter sets the flag of the attribute whose column index is k; (4) in RunStatement every iterator step adds the same value to totals and to exactly one row and advances the row count once; Hits.Total and the row slice are that count; (5) at every SetOrUpdate call site argument k denotes the counter the callee adds parameter k to, and the callee's update and insert blocks agree. NOT decided: equality with an independent aggregation over all databases/conditions/ranges, time-filter arithmetic."
	r.Floor = 60
	r.Rules = append(r.Rules, "pruning-soundness (P7: interpretation over the enum domain)", "index-linear-form (P6+P4)", "flag-tables (P4)", "row-accounting (P2)", "counter-positions", "per-block-state-refreshed", "options-applied (functional options reach the returned object on every path)")
	p := r.Prog("cgo")
	c08Pruning(r, p)
	c08Population(r, p)
	c08FlagTables(r, p)
	c08RowAccounting(r, p)
	c08StaleCarry(r, p)
	m := ruleSetOrUpdateMapping(r, p)
	ruleSetOrUpdateSites(r, p, m, pkgGoDB, pkgHashmap)
	// the direction filter of a query reaches the result rows as an option of AggFlowMap.Iter
	if f := r.MustFunc("options-applied", pkgHashmap, "AggFlowMap.Iter"); f != nil {
		applies, bad := optionsNotApplied(p, f)
		if !applies {
			r.Undecided("options-applied", "AggFlowMap.Iter", p.Rel(f.Decl.Pos()), "no loop applying the iterator options to the returned iterator recognised")
		} else {
			r.Check("options-applied", "AggFlowMap.Iter", p.Rel(f.Decl.Pos()), len(bad) == 0, strings.Join(bad, "; ")+": the iterator handed out ignores the options of the caller (the direction filter of a query is one), so the result contains rows the query excludes")
		}
	}
	if r.Thorough() {
		// the same discipline for every constructor of the module that takes functional options
		for _, fn := range p.AllFuncs() {
			if strings.HasPrefix(core.RelPkg(fn.Pkg.PkgPath), "examples/") || fn.Where() == pkgHashmap+".AggFlowMap.Iter" {
				continue
			}
			if applies, bad := optionsNotApplied(p, fn); applies {
				r.Check("options-applied", "sweep:"+fn.Where(), p.Rel(fn.Decl.Pos()), len(bad) == 0, strings.Join(bad, "; "))
			}
		}
	}
}

func c08Pruning(r *core.Run, p *core.Prog) {
	const rule = "pruning-soundness"
	fIPV := p.FieldObj(pkgGoDB, "Query", "ipVersion")
	if fIPV == nil {
		r.Missing(rule, "goDB.Query.ipVersion")
		return
	}
	// is the restriction still used to prune?
	used := false
	if f := p.Func(pkgGoDB, "DBWorkManager.readBlocksAndEvaluate"); f != nil {
		used = core.MentionsField(f.Info(), f.Decl.Body, fIPV)
	}
	if !used {
		r.Check(rule, "pruning:not-in-use", "-", true, "readBlocksAndEvaluate does not restrict the scan by Query.ipVersion any more: nothing to prove")
		return
	}
	// sources of Query.ipVersion
	var srcFn string
	nSrc := 0
	for _, fn := range p.Funcs(pkgGoDB) {
		info := fn.Info()
		core.Walk(fn.Decl.Body, true, func(x ast.Node) bool {
			a, ok := x.(*ast.AssignStmt)
			if !ok {
				return true
			}
			for i, l := range a.Lhs {
				if core.SelField(info, l) != fIPV || i >= len(a.Rhs) {
					continue
				}
				nSrc++
				c, ok := ast.Unparen(a.Rhs[i]).(*ast.CallExpr)
				if !ok {
					r.Check(rule, "Query.ipVersion:source:"+fn.Where(), p.Rel(a.Pos()), false, "assigned from "+core.Str(a.Rhs[i]))
					continue
				}
				srcFn = core.CallName(info, c)
				okArg := srcFn == pkgNode+".IPVersion" && len(c.Args) == 1 && strings.HasSuffix(core.Str(c.Args[0]), ".Conditional")
				if srcFn == "pkg/types.IPVersion.Merge" {
					okArg = true // the folding design: soundness of Merge is checked below
				}
				r.Check(rule, "Query.ipVersion:source:"+fn.Where(), p.Rel(a.Pos()), okArg, "the scan restriction must be derived from the whole condition tree; found "+core.Str(a.Rhs[i]))
			}
			return true
		})
	}
	if nSrc == 0 {
		r.Undecided(rule, "Query.ipVersion:source", "-", "no assignment to Query.ipVersion found")
		return
	}
	vals := []string{"IPVersionNone", "IPVersionV4", "IPVersionV6"}
	preds := map[string]func(string) bool{"IsLimited": func(v string) bool { return v == "IPVersionV4" || v == "IPVersionV6" }}
	switch srcFn {
	case "pkg/types.IPVersion.Merge":
		// flat fold over all leaves: the combination function serves '|' as well as '&', so it must be union-sound
		f := r.MustFunc(rule, "pkg/types", "IPVersion.Merge")
		if f == nil {
			return
		}
		sig := f.Obj.Type().(*types.Signature)
		for _, a := range append(vals, "IPVersionBoth") {
			for _, b := range append(vals, "IPVersionBoth") {
				ei := &enumInterp{info: f.Info(), env: map[string]string{sig.Recv().Name(): a, sig.Params().At(0).Name(): b}, locals: map[types.Object]string{}, preds: preds}
				res, ret, ok := ei.run(f.Decl.Body.List)
				key := fmt.Sprintf("IPVersion.Merge:or-soundness:(%s,%s)", strings.TrimPrefix(a, "IPVersion"), strings.TrimPrefix(b, "IPVersion"))
				if !ok || !ret {
					r.Undecided(rule, key, p.Rel(f.Decl.Pos()), ei.undec)
					continue
				}
				r.Check(rule, key, p.Rel(f.Decl.Pos()), subset(union(famOf[a], famOf[b]), famOf[res]),
					fmt.Sprintf("Merge(%s,%s)=%s restricts the scan to families {%s}, but a disjunction of the two sides can match families {%s} (e.g. 'sip = 1.2.3.4 | dport = 80' never returns IPv6 flows to port 80)", a, b, res, famOf[res], union(famOf[a], famOf[b])))
			}
		}
	case pkgNode + ".IPVersion":
		f := r.MustFunc(rule, pkgNode, "IPVersion")
		if f == nil {
			return
		}
		info := f.Info()
		var ts *ast.TypeSwitchStmt
		core.Walk(f.Decl.Body, false, func(x ast.Node) bool {
			if s, ok := x.(*ast.TypeSwitchStmt); ok && ts == nil {
				ts = s
			}
			return true
		})
		if ts == nil {
			r.Undecided(rule, "node.IPVersion:type-switch", p.Rel(f.Decl.Pos()), "no type switch over the node kinds")
			return
		}
		// statements after the switch are the fall-through default
		var tail []ast.Stmt
		for i, st := range f.Decl.Body.List {
			if st == ast.Stmt(ts) {
				tail = f.Decl.Body.List[i+1:]
			}
		}
		nodeVar := ""
		if a, ok := ts.Assign.(*ast.AssignStmt); ok {
			nodeVar = core.Str(a.Lhs[0])
		}
		handled := map[string]bool{}
		for _, cs := range ts.Body.List {
			cc := cs.(*ast.CaseClause)
			for _, ce := range cc.List {
				tn := core.Str(ce)
				handled[tn] = true
				body := append(append([]ast.Stmt{}, cc.Body...), tail...)
				where := p.Rel(cc.Pos())
				switch tn {
				case "conditionNode":
					for _, cmp := range []string{"=", "!=", "<", ">", "<=", ">="} {
						for _, v := range vals {
							ei := &enumInterp{info: info, env: map[string]string{nodeVar + ".comparator": cmp, nodeVar + ".ipVersion": v}, locals: map[types.Object]string{}, preds: preds}
							res, ret, ok := ei.run(body)
							key := fmt.Sprintf("node.IPVersion:leaf:(%s,%s)", cmp, strings.TrimPrefix(v, "IPVersion"))
							if !ok || !ret {
								r.Undecided(rule, key, where, ei.undec)
								continue
							}
							sound := famOf[res] == "46" || (cmp == "=" && res == v)
							r.Check(rule, key, where, sound, fmt.Sprintf("a leaf with comparator %q and address version %s restricts the scan to %s: only a positive match ('=') of an address pins the IP version ('sip != 1.2.3.4' must return IPv6 flows)", cmp, v, res))
						}
					}
				case "andNode", "orNode":
					for _, a := range vals {
						for _, b := range vals {
							ei := &enumInterp{info: info, env: map[string]string{
								"IPVersion(" + nodeVar + ".left)": a, "IPVersion(" + nodeVar + ".right)": b}, locals: map[types.Object]string{}, preds: preds}
							res, ret, ok := ei.run(body)
							key := fmt.Sprintf("node.IPVersion:%s:(%s,%s)", tn, strings.TrimPrefix(a, "IPVersion"), strings.TrimPrefix(b, "IPVersion"))
							if !ok || !ret {
								r.Undecided(rule, key, where, ei.undec)
								continue
							}
							need := union(famOf[a], famOf[b])
							if tn == "andNode" {
								need = inter(famOf[a], famOf[b])
							}
							r.Check(rule, key, where, subset(need, famOf[res]),
								fmt.Sprintf("children restricted to (%s,%s) give %s = families {%s}; flows of families {%s} can satisfy the %s", a, b, res, famOf[res], need, map[string]string{"andNode": "conjunction", "orNode": "disjunction"}[tn]))
						}
					}
				default:
					ei := &enumInterp{info: info, env: map[string]string{}, locals: map[types.Object]string{}, preds: preds}
					res, ret, ok := ei.run(body)
					r.Check(rule, "node.IPVersion:"+tn, where, ok && ret && famOf[res] == "46", "node kind "+tn+" must not restrict the scan ("+res+" "+ei.undec+")")
				}
			}
		}
		// unhandled kinds fall to the tail
		ei := &enumInterp{info: info, env: map[string]string{}, locals: map[types.Object]string{}, preds: preds}
		res, ret, ok := ei.run(tail)
		r.Check(rule, "node.IPVersion:default", p.Rel(f.Decl.Pos()), ok && ret && famOf[res] == "46", "node kinds without their own case (e.g. negations) must not restrict the scan; default yields "+res+" "+ei.undec)
		for _, k := range []string{"conditionNode", "andNode", "orNode"} {
			if !handled[k] {
				r.Note("node.IPVersion has no case for %s (falls to the unrestricted default)", k)
			}
		}
	default:
		r.Undecided(rule, "Query.ipVersion:source-function", "-", "unknown restriction function "+srcFn)
	}
}

// linear form: coefficient per symbol plus constant
type linForm struct {
	c    map[string]int64
	k    int64
	okay bool
}

func linOf(info *types.Info, body ast.Node, e ast.Expr) linForm {
	e = ast.Unparen(e)
	if id, isID := e.(*ast.Ident); isID && body != nil {
		// an offset hoisted into a local: use its definition when that is itself linear, otherwise the name is an atom
		if d := resolveLocal(info, body, id); d != ast.Expr(id) {
			if lf := linOf(info, body, d); lf.okay {
				return lf
			}
		}
	}
	if v, ok := core.ConstInt(info, e); ok {
		return linForm{c: map[string]int64{}, k: v, okay: true}
	}
	switch x := e.(type) {
	case *ast.Ident:
		return linForm{c: map[string]int64{x.Name: 1}, okay: true}
	case *ast.BinaryExpr:
		a, b := linOf(info, body, x.X), linOf(info, body, x.Y)
		if !a.okay || !b.okay {
			return linForm{}
		}
		switch x.Op {
		case token.ADD, token.SUB:
			s := int64(1)
			if x.Op == token.SUB {
				s = -1
			}
			out := linForm{c: map[string]int64{}, k: a.k + s*b.k, okay: true}
			for n, v := range a.c {
				out.c[n] += v
			}
			for n, v := range b.c {
				out.c[n] += s * v
			}
			return out
		case token.MUL:
			if len(a.c) == 0 {
				a, b = b, a
			}
			if len(b.c) != 0 {
				return linForm{}
			}
			out := linForm{c: map[string]int64{}, k: a.k * b.k, okay: true}
			for n, v := range a.c {
				out.c[n] = v * b.k
			}
			return out
		}
	}
	return linForm{}
}

func (l linForm) String() string {
	ks := []string{}
	for n, v := range l.c {
		if v != 0 {
			ks = append(ks, fmt.Sprintf("%d*%s", v, n))
		}
	}
	sort.Strings(ks)
	return strings.Join(ks, "+") + fmt.Sprintf("+%d", l.k)
}

func c08Population(r *core.Run, p *core.Prog) {
	const rule = "index-linear-form"
	f := r.MustFunc(rule, pkgGoDB, "DBWorkManager.readBlocksAndEvaluate")
	if f == nil {
		return
	}
	info := f.Info()
	w4, _ := p.Const("pkg/types", "IPv4Width")
	w6, _ := p.Const("pkg/types", "IPv6Width")
	wd, _ := p.Const("pkg/types", "DportSizeof")
	var W4, W6, WD int64
	fmt.Sscan(w4, &W4)
	fmt.Sscan(w6, &W6)
	fmt.Sscan(wd, &WD)
	if W4 == 0 || W6 == 0 || WD == 0 {
		r.Missing(rule, "types.IPv4Width / IPv6Width / DportSizeof")
		return
	}
	// the local holding the number of IPv4 entries and the loop index
	var v4 types.Object
	core.Walk(f.Decl.Body, false, func(x ast.Node) bool {
		if a, ok := x.(*ast.AssignStmt); ok && len(a.Lhs) == 1 && len(a.Rhs) == 1 {
			if c, ok := stripConv(info, a.Rhs[0]).(*ast.CallExpr); ok && core.CallName(info, c) == pkgGpfile+".GPDir.NumIPv4EntriesAtIndex" {
				v4 = core.ObjOf(info, a.Lhs[0])
			}
		}
		return true
	})
	if v4 == nil {
		r.Undecided(rule, "population:v4-count", p.Rel(f.Decl.Pos()), "local holding the IPv4 entry count not found")
		return
	}
	type popSite struct {
		attr, side, family, method, column string
		lo, hi                             linForm
		pos                                token.Pos
		recv, flag                         string
	}
	var sites []popSite
	colOf := func(e ast.Expr) string {
		// sipBlocks := blocks[types.SIPColIdx]
		if o := core.ObjOf(info, e); o != nil {
			if d := singleDef(info, f.Decl.Body, o); d != nil {
				if ix, ok := ast.Unparen(d).(*ast.IndexExpr); ok {
					if co := core.ObjOf(info, selOrIdent(ix.Index)); co != nil {
						return co.Name()
					}
				}
			}
		}
		return ""
	}
	core.Walk(f.Decl.Body, false, func(x ast.Node) bool {
		ifs, ok := x.(*ast.IfStmt)
		if !ok {
			return true
		}
		fv := core.SelField(info, ifs.Cond)
		if fv == nil || !(strings.HasPrefix(fv.Name(), "hasAttr") || strings.HasPrefix(fv.Name(), "hasCond")) {
			return true
		}
		side := "key"
		attr := strings.TrimPrefix(fv.Name(), "hasAttr")
		if strings.HasPrefix(fv.Name(), "hasCond") {
			side, attr = "cond", strings.TrimPrefix(fv.Name(), "hasCond")
		}
		if attr == "Time" || attr == "Iface" {
			return true
		}
		var visit func(n ast.Node, family string, flag string)
		visit = func(n ast.Node, family, flag string) {
			switch s := n.(type) {
			case *ast.BlockStmt:
				for _, st := range s.List {
					visit(st, family, flag)
				}
			case *ast.IfStmt:
				fl := core.Str(s.Cond)
				visit(s.Body, "v4", fl)
				if s.Else != nil {
					visit(s.Else, "v6", fl)
				}
			case *ast.ExprStmt:
				c, ok := s.X.(*ast.CallExpr)
				if !ok {
					return
				}
				rx, m := core.MethodCall(info, c)
				if rx == nil || !strings.HasPrefix(m, "Put") || len(c.Args) == 0 {
					return
				}
				ps := popSite{attr: attr, side: side, family: family, method: m, pos: c.Pos(), recv: core.Str(rx), flag: flag}
				switch a := ast.Unparen(c.Args[0]).(type) {
				case *ast.SliceExpr:
					ps.column = colOf(a.X)
					ps.lo, ps.hi = linOf(info, f.Decl.Body, a.Low), linOf(info, f.Decl.Body, a.High)
				case *ast.IndexExpr:
					ps.column = colOf(a.X)
					ps.lo = linOf(info, f.Decl.Body, a.Index)
					ps.hi = linForm{c: ps.lo.c, k: ps.lo.k + 1, okay: ps.lo.okay}
				}
				if len(c.Args) == 2 && flag == "" {
					ps.flag = core.Str(c.Args[1])
					ps.family = "both"
				}
				sites = append(sites, ps)
			}
		}
		visit(ifs.Body, "", "")
		return false
	})
	if len(sites) < 12 {
		r.Undecided(rule, "population:sites", p.Rel(f.Decl.Pos()), fmt.Sprintf("only %d key/condition population calls recognised (12 on the reference tree)", len(sites)))
	}
	wantCol := map[string]string{"SIP": "SIPColIdx", "DIP": "DIPColIdx", "Proto": "ProtoColIdx", "Dport": "DportColIdx"}
	idx := ""
	bySig := map[string][]popSite{}
	for _, s := range sites {
		id := fmt.Sprintf("%s:%s:%s", s.side, s.attr, s.family)
		where := p.Rel(s.pos)
		r.Check(rule, "population:"+id+":column", where, s.column == wantCol[s.attr], fmt.Sprintf("attribute %s is filled from column %s", s.attr, s.column))
		if !s.lo.okay || !s.hi.okay {
			r.Undecided(rule, "population:"+id+":bounds", where, "index expression is not linear")
			continue
		}
		// determine the loop index symbol: the one that is not the v4 count
		for n := range s.lo.c {
			if n != v4.Name() {
				idx = n
			}
		}
		var W int64
		switch s.attr {
		case "SIP", "DIP":
			W = W4
			if s.family == "v6" {
				W = W6
			}
		case "Dport":
			W = WD
		case "Proto":
			W = 1
		}
		var okLo bool
		if (s.attr == "SIP" || s.attr == "DIP") && s.family == "v6" {
			okLo = s.lo.c[idx] == W6 && s.lo.c[v4.Name()] == W4-W6 && s.lo.k == 0
		} else {
			okLo = s.lo.c[idx] == W && s.lo.c[v4.Name()] == 0 && s.lo.k == 0
		}
		okHi := s.hi.k-s.lo.k == W && s.hi.c[idx] == s.lo.c[idx] && s.hi.c[v4.Name()] == s.lo.c[v4.Name()]
		r.Check(rule, "population:"+id+":bounds", where, okLo && okHi,
			fmt.Sprintf("entry %s of the %s column is read from [%s, %s); with width %d (IPv4 entries first, %d bytes each, then IPv6 entries of %d bytes) it must be %s", idx, s.attr, s.lo, s.hi, W, W4, W6,
				map[bool]string{true: fmt.Sprintf("[%d*%s%+d*%s, …+%d)", W6, idx, W4-W6, v4.Name(), W6), false: fmt.Sprintf("[%d*%s, …+%d)", W, idx, W)}[(s.attr == "SIP" || s.attr == "DIP") && s.family == "v6"]))
		bySig[s.attr+":"+s.family] = append(bySig[s.attr+":"+s.family], s)
	}
	// siblings: key side and condition side agree per (attribute, family)
	keys := []string{}
	for k := range bySig {
		keys = append(keys, k)
	}
	sort.Strings(keys)
	for _, k := range keys {
		ss := bySig[k]
		if len(ss) != 2 {
			r.Check(rule, "population:siblings:"+k, p.Rel(ss[0].pos), false, fmt.Sprintf("%d population sites for %s (one for the key, one for the comparison value expected)", len(ss), k))
			continue
		}
		a, b := ss[0], ss[1]
		same := a.method == b.method && a.column == b.column && a.lo.String() == b.lo.String() && a.hi.String() == b.hi.String() && a.side != b.side && a.recv != b.recv
		r.Check(rule, "population:siblings:"+k, p.Rel(b.pos), same,
			fmt.Sprintf("key side: %s.%s(%s[%s:%s]) — condition side: %s.%s(%s[%s:%s]); the row that is aggregated and the value the condition sees must be the same entry", a.recv, a.method, a.column, a.lo, a.hi, b.recv, b.method, b.column, b.lo, b.hi))
	}
}

func c08FlagTables(r *core.Run, p *core.Prog) {
	const rule = "flag-tables"
	pk := p.Pkg(pkgGoDB)
	if pk == nil {
		return
	}
	info := pk.TypesInfo
	want := []string{"SIP", "DIP", "Proto", "Dport"}
	for i, w := range want {
		v, ok := p.Const("pkg/types", w+"ColIdx")
		r.Check(rule, "column-index:"+w, "pkg/types."+w+"ColIdx", ok && v == fmt.Sprint(i), fmt.Sprintf("the flag tables assume %sColIdx == %d, it is %s", w, i, v))
	}
	for _, tbl := range []struct{ name, prefix string }{{"queryAttributeColumnFlagSetters", "hasAttr"}, {"queryConditionalColumnFlagSetters", "hasCond"}} {
		found := false
		for _, file := range pk.Syntax {
			ast.Inspect(file, func(x ast.Node) bool {
				vs, ok := x.(*ast.ValueSpec)
				if !ok || len(vs.Names) != 1 || vs.Names[0].Name != tbl.name || len(vs.Values) != 1 {
					return true
				}
				cl, ok := vs.Values[0].(*ast.CompositeLit)
				if !ok {
					return true
				}
				found = true
				r.Check(rule, tbl.name+":length", p.Rel(vs.Pos()), len(cl.Elts) == len(want), fmt.Sprintf("%d setters for %d attribute columns", len(cl.Elts), len(want)))
				for i, el := range cl.Elts {
					fl, ok := el.(*ast.FuncLit)
					got := ""
					if ok {
						core.Walk(fl.Body, false, func(y ast.Node) bool {
							if a, ok := y.(*ast.AssignStmt); ok && len(a.Lhs) == 1 {
								if fv := core.SelField(info, a.Lhs[0]); fv != nil {
									got = fv.Name()
								}
							}
							return true
						})
					}
					if i < len(want) {
						r.Check(rule, fmt.Sprintf("%s[%d]", tbl.name, i), p.Rel(el.Pos()), got == tbl.prefix+want[i],
							fmt.Sprintf("setter %d must set %s%s (column index %d is %s), it sets %s", i, tbl.prefix, want[i], i, want[i], got))
					}
				}
				return false
			})
		}
		if !found {
			r.Missing(rule, pkgGoDB+"."+tbl.name)
		}
	}
}

func c08RowAccounting(r *core.Run, p *core.Prog) {
	const rule = "row-accounting"
	f := r.MustFunc(rule, "pkg/goDB/engine", "QueryRunner.RunStatement")
	if f == nil {
		return
	}
	info := f.Info()
	// the iterator loop: for i.Next() { … }
	var loop *ast.ForStmt
	core.Walk(f.Decl.Body, false, func(x ast.Node) bool {
		if fs, ok := x.(*ast.ForStmt); ok && fs.Cond != nil {
			if c, ok := fs.Cond.(*ast.CallExpr); ok {
				if _, m := core.MethodCall(info, c); m == "Next" {
					loop = fs
				}
			}
		}
		return true
	})
	if loop == nil {
		r.Undecided(rule, "RunStatement:iterator-loop", p.Rel(f.Decl.Pos()), "no `for it.Next()` loop")
		return
	}
	g := core.NewGraph(info, loop.Body)
	var val, count, rows types.Object
	cl := func(n ast.Node, cond *bool) []ev {
		var out []ev
		if a, ok := n.(*ast.AssignStmt); ok && len(a.Lhs) == len(a.Rhs) {
			for i := range a.Lhs {
				if c, ok := a.Rhs[i].(*ast.CallExpr); ok {
					if _, m := core.MethodCall(info, c); m == "Val" {
						val = core.ObjOf(info, a.Lhs[i])
					}
				}
			}
		}
		for _, c := range core.Calls(n, false) {
			if core.CallName(info, c) == "pkg/types.Counters.Add" && len(c.Args) == 1 {
				rx, _ := core.MethodCall(info, c)
				l := "totals-add"
				ix := findIndex(rx)
				if ix == nil {
					// row := &rows[count]; row.Counters.Add(val)
					root := rx
					for {
						if se, ok := ast.Unparen(root).(*ast.SelectorExpr); ok {
							root = se.X
							continue
						}
						break
					}
					d := resolveLocal(info, loop.Body, root)
					if u, ok := ast.Unparen(d).(*ast.UnaryExpr); ok && u.Op == token.AND {
						d = u.X
					}
					if d != root {
						ix = findIndex(d)
					}
				}
				if ix != nil {
					l = "row-add"
					rows = core.ObjOf(info, ix.X)
					count = core.ObjOf(info, ix.Index)
				}
				if val == nil || core.ObjOf(info, c.Args[0]) != val {
					l += "?"
				}
				out = append(out, ev{label: l, node: c})
			}
		}
		if inc, ok := n.(*ast.IncDecStmt); ok && inc.Tok == token.INC {
			out = append(out, ev{label: "inc:" + core.Str(inc.X)})
		}
		if b, ok := n.(*ast.BranchStmt); ok {
			out = append(out, ev{label: "branch:" + b.Tok.String()})
		}
		return out
	}
	for _, n := range g.Nodes {
		if n != nil {
			cl(n, nil)
		}
	}
	fake := &core.Fn{Prog: p, Pkg: f.Pkg, Decl: &ast.FuncDecl{Body: loop.Body, Name: f.Decl.Name, Type: &ast.FuncType{}}, Obj: f.Obj, Name: f.Name}
	ts, ok := traces(fake, g, cl, 20000)
	if !ok || count == nil {
		r.Undecided(rule, "RunStatement:iterator-step", p.Rel(loop.Pos()), "too many paths or row counter not recognised")
		return
	}
	bad := ""
	for _, t := range ts {
		if t.count("totals-add") != 1 || t.count("row-add") != 1 || t.count("inc:"+count.Name()) != 1 || t.has("totals-add?") || t.has("row-add?") {
			bad = fmt.Sprintf("an iterator step adds to totals %d times, to a row %d times and advances the row count %d times (each exactly once with the iterator's value): %s", t.count("totals-add"), t.count("row-add"), t.count("inc:"+count.Name()), pathLines(p, g, t.path))
		}
		for _, e := range t.evs {
			if strings.HasPrefix(e.label, "branch:") {
				bad = "an iterator step can leave early (" + e.label + "): its flow is in the totals but not in the rows, or vice versa: " + pathLines(p, g, t.path)
			}
		}
		if t.has("row-add") && t.has("inc:"+count.Name()) && t.first("inc:"+count.Name()) < t.first("row-add") {
			bad = "the row count is advanced before the row's counters are written"
		}
	}
	r.Check(rule, "RunStatement:one-row-one-total-per-step", p.Rel(loop.Pos()), bad == "", bad)
	// after the loops: rows = rows[:count]; Hits.Total = count; result.Rows = rows
	fTotal := p.FieldObj(pkgResults, "Hits", "Total")
	fRows := p.FieldObj(pkgResults, "Result", "Rows")
	fTotals := p.FieldObj(pkgResults, "Summary", "Totals")
	okTrunc, okHits, okRows, okTotals := false, false, false, false
	core.Walk(f.Decl.Body, false, func(x ast.Node) bool {
		a, ok := x.(*ast.AssignStmt)
		if !ok || len(a.Lhs) != 1 || len(a.Rhs) != 1 {
			return true
		}
		if core.ObjOf(info, a.Lhs[0]) == rows {
			if se, ok := ast.Unparen(a.Rhs[0]).(*ast.SliceExpr); ok && core.ObjOf(info, se.X) == rows && se.Low == nil && core.ObjOf(info, se.High) == count {
				okTrunc = true
			}
		}
		switch core.SelField(info, a.Lhs[0]) {
		case fTotal:
			okHits = core.ObjOf(info, a.Rhs[0]) == count
		case fRows:
			okRows = core.ObjOf(info, a.Rhs[0]) == rows
		case fTotals:
			okTotals = true
		}
		return true
	})
	r.Check(rule, "RunStatement:rows-truncated-to-count", p.Rel(f.Decl.Pos()), okTrunc, "pre-allocated rows beyond the number of materialised ones must be dropped (rs = rs[:count])")
	r.Check(rule, "RunStatement:hits-total-is-row-count", p.Rel(f.Decl.Pos()), okHits, "Summary.Hits.Total must be the number of materialised rows")
	r.Check(rule, "RunStatement:rows-are-the-materialised-rows", p.Rel(f.Decl.Pos()), okRows, "result.Rows must be the slice the iterator filled")
	r.Check(rule, "RunStatement:totals-assigned", p.Rel(f.Decl.Pos()), okTotals, "Summary.Totals must be assigned from the accumulated totals")
}

func findIndex(e ast.Expr) *ast.IndexExpr {
	for e != nil {
		switch x := ast.Unparen(e).(type) {
		case *ast.IndexExpr:
			return x
		case *ast.SelectorExpr:
			e = x.X
		default:
			return nil
		}
	}
	return nil
}

// c08StaleCarry: the per-block state of the evaluation loop (time-extended keys, unpacked counter columns) lives in variables
// declared outside the block loop; each must be refreshed for every evaluated block, not only under a per-block condition.
func c08StaleCarry(r *core.Run, p *core.Prog) {
	const rule = "per-block-state-refreshed"
	f := r.MustFunc(rule, pkgGoDB, "DBWorkManager.readBlocksAndEvaluate")
	if f == nil {
		return
	}
	var loop *ast.RangeStmt
	for _, st := range f.Decl.Body.List {
		if rs, ok := st.(*ast.RangeStmt); ok {
			loop = rs
		}
	}
	if loop == nil {
		r.Undecided(rule, "readBlocksAndEvaluate:block-loop", p.Rel(f.Decl.Pos()), "no top-level range loop over the blocks")
		return
	}
	hz := staleCarryHazards(p, f, loop)
	detail := "state kept across blocks in variables declared outside the block loop"
	if len(hz) > 0 {
		detail = hz[0]
	}
	r.Check(rule, "readBlocksAndEvaluate:block-loop", p.Rel(loop.Pos()), len(hz) == 0, detail)
	// the rule must have something to look at: count carried variables assigned in the loop
	info := f.Info()
	n := 0
	core.Walk(loop.Body, false, func(x ast.Node) bool {
		if as, ok := x.(*ast.AssignStmt); ok && as.Tok == token.ASSIGN {
			for _, l := range as.Lhs {
				if o, isVar := core.ObjOf(info, l).(*types.Var); isVar && !(o.Pos() >= loop.Pos() && o.Pos() < loop.End()) && !o.IsField() {
					n++
				}
			}
		}
		return true
	})
	if r.Thorough() {
		// sweep: the same hazard in every range loop of the module (reported with its function; none exists on the pinned tree)
		nLoops := 0
		for _, g := range p.AllFuncs() {
			core.Walk(g.Decl.Body, true, func(x ast.Node) bool {
				if rs, ok := x.(*ast.RangeStmt); ok && rs != loop {
					nLoops++
					if hz := staleCarryHazards(p, g, rs); len(hz) > 0 {
						r.Check(rule, "sweep:"+g.Where(), p.Rel(rs.Pos()), false, hz[0])
					}
				}
				return true
			})
		}
		r.Stat("loops_swept", nLoops)
	}
	if n < 4 {
		r.Undecided(rule, "readBlocksAndEvaluate:carried-variables", p.Rel(loop.Pos()), fmt.Sprintf("only %d assignments to variables declared outside the block loop", n))
	}
}

// optionsNotApplied (functional-options discipline): fn takes a variadic list of option functions `...func(*T)` and
// returns a *T. Callers select behaviour through the options (engine.RunStatement passes the direction filter of a query
// to AggFlowMap.Iter this way), so every object the function returns must have had every option applied: each return of
// a non-nil value must return the object the option loop works on and be dominated by that loop. A shortcut return in
// front of the loop hands out an object that silently ignores what the caller asked for.
func optionsNotApplied(p *core.Prog, fn *core.Fn) (applies bool, bad []string) {
	info := fn.Info()
	sig := fn.Obj.Type().(*types.Signature)
	if !sig.Variadic() || sig.Params().Len() == 0 || sig.Results().Len() == 0 {
		return false, nil
	}
	optsParam := sig.Params().At(sig.Params().Len() - 1)
	sl, ok := optsParam.Type().Underlying().(*types.Slice)
	if !ok {
		return false, nil
	}
	osig, ok := sl.Elem().Underlying().(*types.Signature)
	if !ok || osig.Params().Len() != 1 || osig.Results().Len() != 0 {
		return false, nil
	}
	// the function must return what the options configure (*T, or T for options on *T)
	rt, ot := sig.Results().At(0).Type(), osig.Params().At(0).Type()
	if !types.Identical(rt, ot) {
		if pt, isPtr := ot.(*types.Pointer); !isPtr || !types.Identical(rt, pt.Elem()) {
			return false, nil
		}
	}
	// the option loop and the object it configures
	var loop *ast.RangeStmt
	var target types.Object
	core.Walk(fn.Decl.Body, false, func(x ast.Node) bool {
		rs, ok := x.(*ast.RangeStmt)
		if !ok || core.ObjOf(info, rs.X) != types.Object(optsParam) || rs.Value == nil {
			return true
		}
		ov := core.ObjOf(info, rs.Value)
		for _, c := range core.Calls(rs.Body, false) {
			if core.ObjOf(info, c.Fun) == ov && len(c.Args) == 1 {
				loop, target = rs, core.ObjOf(info, rootExpr(ast.Unparen(c.Args[0])))
			}
		}
		return true
	})
	if loop == nil || target == nil {
		return false, nil
	}
	g := core.GraphOf(fn)
	head := g.LoopHead(loop)
	if head < 0 {
		return false, nil
	}
	for _, rid := range g.Returns() {
		rs, ok := g.Nodes[rid].(*ast.ReturnStmt)
		if !ok || len(rs.Results) == 0 {
			continue
		}
		res := ast.Unparen(rs.Results[0])
		if core.IsNil(info, res) {
			continue
		}
		if core.ObjOf(info, rootExpr(res)) != target {
			bad = append(bad, fmt.Sprintf("%s: returns %s, not the object the options are applied to (%s)", p.Rel(rs.Pos()), core.Str(res), target.Name()))
			continue
		}
		if !g.Dominated(rid, map[int]bool{head: true}) {
			bad = append(bad, fmt.Sprintf("%s: returns %s on a path that skips the option loop", p.Rel(rs.Pos()), target.Name()))
		}
	}
	return true, bad
}
