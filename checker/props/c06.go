package props

import (
	"fmt"
	"go/ast"
	"go/token"
	"go/types"
	"strings"

	"gpverif/core"
)

func init() { register("C06", c06) }

func c06(r *core.Run) {
	r.Expl = "C06 (corrupted files never crash a reader and stay contained): decides the guard structure a crash-free reader needs — (1) in readBlocksAndEvaluate: the IPv4 entry count read from the metadata is compared with the entry count of the counter columns on a branch that marks the block broken; every use of disk-derived counts as index / slice bound / loop bound lies behind the 'block broken -> count it, continue' gate; every statement that marks a block broken reaches a gate that increments BlocksCorrupted; the flag is never cleared; a column read error is contained in the block (tested, no return); (2) every call of GPDir.TimeRange (which indexes the first and last block) is dominated by a 'has blocks' test; (3) no Decompress takes &x[0] of a possibly empty parameter (cgo build); (4) metadata decoding is behind both size guards whose constants cover what is read (from the code); ReadBlockAtIndex checks the decoded length and chooses the decoder from the block's type byte, and encoder.New rejects unknown type bytes with an error; (5) workload.Stats.Add propagates every counter exactly once. NOT decided: absence of crashes for all byte-level mutations (needs bounds reasoning over arithmetic / fuzzing), hangs, exactness of undamaged days. Observation (not armed): a day whose metadata cannot be opened aborts the whole query with an error rather than being skipped."
	r.Floor = 40
	r.Rules = append(r.Rules, "broken-block-gate (CFG dominance)", "contained-error-does-not-escape", "has-blocks-guard (Engler contradiction)", "encoder-contract(&x[0])", "decode-guards", "read-path", "encoder-table", "field-coverage")
	p := r.Prog("cgo")
	c06Gate(r, p)
	c06Contained(r, p)
	c06TimeRange(r, p)
	ruleCodecLayout(r, p)
	ruleReadPath(r, p)
	ruleAllocFromStoredLength(r, p)
	ruleEncoderNew(r, p)
	ruleAccumulate(r, p, "pkg/types/workload", "Stats.Add", token.ADD_ASSIGN)
	for _, rel := range []string{"pkg/goDB/encoder/lz4", "pkg/goDB/encoder/zstd", "pkg/goDB/encoder/null"} {
		ruleEncoderContract(r, p, rel)
	}
}

// c06Contained: an error that the evaluation loop contains (the block is counted as corrupted and skipped) must not reach the
// caller later through the variable it was stored in: a return after the loop that hands back a variable which is assigned
// from a contained call inside the loop returns the stale error of the last damaged block, and the caller aborts the query.
func c06Contained(r *core.Run, p *core.Prog) {
	const rule = "contained-error-does-not-escape"
	f := r.MustFunc(rule, pkgGoDB, "DBWorkManager.readBlocksAndEvaluate")
	if f == nil {
		return
	}
	info := f.Info()
	var loop *ast.RangeStmt
	for _, st := range f.Decl.Body.List {
		if rs, ok := st.(*ast.RangeStmt); ok {
			loop = rs
		}
	}
	if loop == nil {
		r.Undecided(rule, "readBlocksAndEvaluate:block-loop", p.Rel(f.Decl.Pos()), "no top-level range loop over the blocks")
		return
	}
	// error variables assigned from calls inside the loop whose failure does not leave the function
	contained := map[types.Object]string{}
	n := 0
	core.Walk(loop.Body, false, func(x ast.Node) bool {
		a, ok := x.(*ast.AssignStmt)
		if !ok || len(a.Rhs) != 1 {
			return true
		}
		c, isCall := ast.Unparen(a.Rhs[0]).(*ast.CallExpr)
		if !isCall {
			return true
		}
		for _, l := range a.Lhs {
			o, isVar := core.ObjOf(info, l).(*types.Var)
			if !isVar || !core.IsErrorType(o.Type()) {
				continue
			}
			n++
			use, _ := core.ErrDisposition(info, f.Decl.Body, c)
			if use != core.ErrReturned {
				contained[o] = core.Str(c.Fun) + " at " + p.Rel(c.Pos())
			}
		}
		return true
	})
	bad := ""
	core.Walk(f.Decl.Body, false, func(x ast.Node) bool {
		rs, ok := x.(*ast.ReturnStmt)
		if !ok || (rs.Pos() >= loop.Pos() && rs.End() <= loop.End()) || rs.Pos() < loop.Pos() {
			return true
		}
		for _, res := range rs.Results {
			if o := core.ObjOf(info, res); o != nil {
				if src, isC := contained[o]; isC {
					bad = fmt.Sprintf("%s returns %s, which still holds the error of the last block whose %s failed: a damaged last block of a day makes the whole query fail", p.Rel(rs.Pos()), o.Name(), src)
				}
			}
		}
		return true
	})
	if n == 0 {
		r.Undecided(rule, "readBlocksAndEvaluate:loop-errors", p.Rel(loop.Pos()), "no error-producing call found in the block loop")
		return
	}
	r.Check(rule, "readBlocksAndEvaluate:returns-after-loop", p.Rel(f.Decl.Pos()), bad == "", bad)
}

func c06Gate(r *core.Run, p *core.Prog) {
	const rule = "broken-block-gate"
	f := r.MustFunc(rule, pkgGoDB, "DBWorkManager.readBlocksAndEvaluate")
	if f == nil {
		return
	}
	info := f.Info()
	where := p.Rel(f.Decl.Pos())
	// the block loop: ranges over <dir>.BlockMetadata[0].Blocks()
	var loop *ast.RangeStmt
	core.Walk(f.Decl.Body, false, func(x ast.Node) bool {
		if rs, ok := x.(*ast.RangeStmt); ok && loop == nil {
			if c, ok := ast.Unparen(rs.X).(*ast.CallExpr); ok && core.CallName(info, c) == pkgStorage+".BlockHeader.Blocks" {
				loop = rs
			}
		}
		return true
	})
	if loop == nil {
		r.Undecided(rule, "readBlocksAndEvaluate:block-loop", where, "no loop over the day's block list")
		return
	}
	// the broken flag: bool local declared in the loop body and assigned true somewhere
	var flag types.Object
	cands := map[types.Object]bool{}
	core.Walk(loop.Body, false, func(x ast.Node) bool {
		if a, ok := x.(*ast.AssignStmt); ok && len(a.Lhs) == 1 && len(a.Rhs) == 1 {
			if id, ok := ast.Unparen(a.Rhs[0]).(*ast.Ident); ok && id.Name == "true" {
				if o := core.ObjOf(info, a.Lhs[0]); o != nil {
					if b, ok := o.Type().Underlying().(*types.Basic); ok && b.Kind() == types.Bool {
						cands[o] = true
					}
				}
			}
		}
		return true
	})
	// among the boolean locals set to true, the flag is the one that gates a `continue` of the block loop
	core.Walk(loop.Body, false, func(x ast.Node) bool {
		if ifs, ok := x.(*ast.IfStmt); ok && len(ifs.Body.List) > 0 {
			if o := core.ObjOf(info, ifs.Cond); o != nil && cands[o] {
				if br, isBr := ifs.Body.List[len(ifs.Body.List)-1].(*ast.BranchStmt); isBr && br.Tok == token.CONTINUE {
					flag = o
				}
			}
		}
		return true
	})
	if flag == nil {
		r.Undecided(rule, "readBlocksAndEvaluate:broken-flag", where, "no boolean 'block broken' flag")
		return
	}
	g := core.NewGraph(info, loop.Body)
	fCorr := p.FieldObj("pkg/types/workload", "Stats", "BlocksCorrupted")
	// gates: cond == flag, true branch increments BlocksCorrupted and continues
	var gates []int
	for id, n := range g.Nodes {
		e, ok := n.(ast.Expr)
		if !ok || len(g.Succ[id]) != 2 || core.ObjOf(info, e) != flag {
			continue
		}
		// find the if statement
		var ifs *ast.IfStmt
		core.Walk(loop.Body, false, func(x ast.Node) bool {
			if s, ok := x.(*ast.IfStmt); ok && s.Cond == e {
				ifs = s
			}
			return true
		})
		if ifs == nil {
			continue
		}
		last, isCont := ifs.Body.List[len(ifs.Body.List)-1].(*ast.BranchStmt)
		if !isCont || last.Tok != token.CONTINUE {
			continue // e.g. the `if blockBroken { break }` inside the column loop
		}
		counted := false
		core.Walk(ifs.Body, false, func(x ast.Node) bool {
			if inc, ok := x.(*ast.IncDecStmt); ok && inc.Tok == token.INC && core.SelField(info, inc.X) == fCorr {
				counted = true
			}
			return true
		})
		gates = append(gates, id)
		r.Check(rule, fmt.Sprintf("readBlocksAndEvaluate:gate#%d:counts-corrupted-block", len(gates)), p.Rel(e.Pos()), counted, "a skipped block must be counted in stats.BlocksCorrupted before continuing")
	}
	if len(gates) == 0 {
		r.Check(rule, "readBlocksAndEvaluate:gate", where, false, "no `if <block broken> { …; continue }` gate in the block loop")
		return
	}
	gateSet := core.Set(gates)
	lastGate := gates[len(gates)-1]
	// the flag is never cleared
	cleared := false
	var sets []int
	for id, n := range g.Nodes {
		a, ok := n.(*ast.AssignStmt)
		if !ok {
			continue
		}
		for i, l := range a.Lhs {
			if core.ObjOf(info, l) == flag && i < len(a.Rhs) {
				if idn, ok := ast.Unparen(a.Rhs[i]).(*ast.Ident); ok && idn.Name == "true" {
					sets = append(sets, id)
				} else {
					cleared = true
				}
			}
		}
	}
	r.Check(rule, "readBlocksAndEvaluate:flag-never-cleared", where, !cleared, "the 'block broken' flag is assigned something other than true inside the block loop")
	// every set reaches the end of the iteration only through a gate
	for i, s := range sets {
		okS := g.AllPathsThrough(s, core.Exit, gateSet)
		r.Check(rule, fmt.Sprintf("readBlocksAndEvaluate:mark#%d-reaches-gate", i+1), p.Rel(g.Nodes[s].Pos()), okS, "a block marked broken here can reach the end of the iteration (or the evaluation code) without passing a gate that counts and skips it")
	}
	// disk-derived counts
	counts := map[types.Object]string{}
	core.Walk(loop.Body, false, func(x ast.Node) bool {
		if a, ok := x.(*ast.AssignStmt); ok && len(a.Lhs) == 1 && len(a.Rhs) == 1 {
			src := stripConv(info, a.Rhs[0])
			if c, ok := src.(*ast.CallExpr); ok {
				switch core.CallName(info, c) {
				case pkgGpfile + ".GPDir.NumIPv4EntriesAtIndex", pkgGpfile + ".GPDir.NumIPv6EntriesAtIndex":
					counts[core.ObjOf(info, a.Lhs[0])] = "metadata"
				case "github.com/fako1024/gotools/bitpack.Len":
					counts[core.ObjOf(info, a.Lhs[0])] = "column"
				}
			}
		}
		return true
	})
	var metaCount, colCount types.Object
	for o, k := range counts {
		if k == "metadata" && metaCount == nil {
			metaCount = o
		}
		if k == "column" && colCount == nil {
			colCount = o
		}
	}
	if metaCount == nil || colCount == nil {
		r.Undecided(rule, "readBlocksAndEvaluate:counts", where, "metadata IPv4 count / column entry count not found")
		return
	}
	// relational guard
	guard := -1
	for id, n := range g.Nodes {
		e, ok := n.(ast.Expr)
		if !ok || len(g.Succ[id]) != 2 {
			continue
		}
		for _, d := range core.Conjuncts(e, true) {
			if b, ok := core.BinOp(d, token.GTR, token.GEQ, token.LSS, token.LEQ); ok {
				x, y := core.ObjOf(info, b.X), core.ObjOf(info, b.Y)
				upper := (x == metaCount && y == colCount && b.Op == token.GTR) || (x == colCount && y == metaCount && b.Op == token.LSS)
				if upper {
					// true edge must set the flag before anything else can use the counts
					thenN, _, _ := g.CondEdges(id)
					setsOnThen := false
					for _, s := range sets {
						if g.Reach(thenN, s, nil) && g.AllPathsThrough(thenN, core.Exit, core.Set([]int{s}, gates)) {
							setsOnThen = true
						}
					}
					if setsOnThen {
						guard = id
					}
				}
			}
		}
	}
	r.Check(rule, "readBlocksAndEvaluate:ipv4-count-bounded-by-entries", where, guard >= 0 && g.Dominated(lastGate, map[int]bool{guard: true}),
		"the number of IPv4 entries comes from the metadata file, the number of entries from the counter columns; without a test `v4 > entries -> block broken` before the gate, a damaged count passes the size equation (e.g. 3 entries, 4 'IPv4' entries, empty address columns) and the evaluation loop slices beyond the columns")
	// uses behind the last gate
	bad := ""
	nUse := 0
	for id, n := range g.Nodes {
		if n == nil {
			continue
		}
		uses := false
		core.Walk(n, false, func(x ast.Node) bool {
			switch e := x.(type) {
			case *ast.IndexExpr:
				if core.MentionsObj(info, e.Index, metaCount) || core.MentionsObj(info, e.Index, colCount) {
					uses = true
				}
			case *ast.SliceExpr:
				for _, b := range []ast.Expr{e.Low, e.High} {
					if b != nil && (core.MentionsObj(info, b, metaCount) || core.MentionsObj(info, b, colCount)) {
						uses = true
					}
				}
			}
			return true
		})
		// loop bounds: `i < numEntries`
		if e, ok := n.(ast.Expr); ok && len(g.Succ[id]) == 2 {
			if b, ok := core.BinOp(e, token.LSS, token.LEQ); ok && (core.ObjOf(info, b.Y) == colCount || core.ObjOf(info, b.Y) == metaCount) {
				uses = true
			}
		}
		if !uses {
			continue
		}
		nUse++
		thenN, _, _ := g.CondEdges(lastGate)
		if !(g.Dominated(id, map[int]bool{lastGate: true}) && !g.Reach(thenN, id, map[int]bool{lastGate: true})) {
			bad = fmt.Sprintf("%s uses a disk-derived count as index / bound without being behind the final 'block broken' gate", p.Rel(n.Pos()))
		}
	}
	r.Check(rule, "readBlocksAndEvaluate:count-uses-behind-gate", where, bad == "" && nUse > 0, orStr(bad, fmt.Sprintf("%d uses", nUse)))
	// containment of column read errors
	var rb *ast.CallExpr
	core.Walk(loop.Body, false, func(x ast.Node) bool {
		if c, ok := x.(*ast.CallExpr); ok && core.CallName(info, c) == pkgGpfile+".GPDir.ReadBlockAtIndex" {
			rb = c
		}
		return true
	})
	if rb == nil {
		r.Undecided(rule, "readBlocksAndEvaluate:column-read", where, "no ReadBlockAtIndex call in the block loop")
	} else {
		use, why := core.ErrDisposition(info, f.Decl.Body, rb)
		r.Check(rule, "readBlocksAndEvaluate:column-read-error-contained", p.Rel(rb.Pos()), use == core.ErrCheckedSoft,
			fmt.Sprintf("a failing column read must mark the block broken and go on with the next block (tested, no return); disposition: %v %s", use, why))
		// and that branch sets the flag
		okSet := false
		asg, _ := enclosingAssign(f.Decl.Body, rb)
		if asg != nil {
			id := g.NodeOf(asg)
			for _, s := range sets {
				if id >= 0 && g.Reach(id, s, nil) {
					okSet = true
				}
			}
		}
		r.Check(rule, "readBlocksAndEvaluate:column-read-error-marks-block", p.Rel(rb.Pos()), okSet, "the error branch of the column read must mark the block broken")
	}
}

// c06TimeRange: every call of GPDir.TimeRange is dominated by a has-blocks test.
func c06TimeRange(r *core.Run, p *core.Prog) {
	const rule = "has-blocks-guard"
	n := 0
	for _, fn := range p.AllFuncs() {
		info := fn.Info()
		var calls []*ast.CallExpr
		core.Walk(fn.Decl.Body, true, func(x ast.Node) bool {
			if c, ok := x.(*ast.CallExpr); ok && core.CallName(info, c) == pkgGpfile+".GPDir.TimeRange" {
				calls = append(calls, c)
			}
			return true
		})
		for i, c := range calls {
			n++
			// innermost function body
			body := fn.Decl.Body
			for _, pn := range core.PathTo(fn.Decl.Body, c) {
				if fl, ok := pn.(*ast.FuncLit); ok {
					body = fl.Body
				}
			}
			g := core.NewGraph(info, body)
			id := g.NodeOf(c)
			// variables holding NBlocks()
			nb := map[types.Object]bool{}
			core.Walk(body, false, func(x ast.Node) bool {
				if a, ok := x.(*ast.AssignStmt); ok && len(a.Lhs) == 1 && len(a.Rhs) == 1 {
					if cc, ok := ast.Unparen(a.Rhs[0]).(*ast.CallExpr); ok && strings.HasSuffix(core.CallName(info, cc), ".NBlocks") {
						nb[core.ObjOf(info, a.Lhs[0])] = true
					}
				}
				return true
			})
			isCount := func(e ast.Expr) bool {
				if cc, ok := ast.Unparen(e).(*ast.CallExpr); ok && strings.HasSuffix(core.CallName(info, cc), ".NBlocks") {
					return true
				}
				if cc, ok := ast.Unparen(e).(*ast.CallExpr); ok && core.CallName(info, cc) == "builtin.len" {
					return strings.Contains(core.Str(cc.Args[0]), "Block")
				}
				return nb[core.ObjOf(info, e)]
			}
			guarded := false
			for gid, gn := range g.Nodes {
				e, ok := gn.(ast.Expr)
				if !ok || len(g.Succ[gid]) != 2 || id < 0 {
					continue
				}
				b, ok := core.BinOp(e, token.GTR, token.EQL, token.NEQ, token.LSS)
				if !ok || !isCount(b.X) {
					continue
				}
				k, isC := core.ConstInt(info, b.Y)
				if !isC {
					continue
				}
				thenN, elseN, _ := g.CondEdges(gid)
				emptyEdge := elseN // edge on which the day may be empty
				switch {
				case b.Op == token.GTR && k == 0, b.Op == token.NEQ && k == 0:
					emptyEdge = elseN
				case b.Op == token.EQL && k == 0, b.Op == token.LSS && k == 1:
					emptyEdge = thenN
				default:
					continue
				}
				if g.Dominated(id, map[int]bool{gid: true}) && !g.Reach(emptyEdge, id, map[int]bool{gid: true}) {
					guarded = true
				}
			}
			r.Check(rule, fmt.Sprintf("%s:TimeRange#%d", fn.Where(), i+1), p.Rel(c.Pos()), guarded,
				"GPDir.TimeRange indexes the first and last block; this call is reachable for a day whose (well-formed) metadata lists zero blocks, while other callers test NBlocks() first — one of them is wrong, and an empty block list panics here")
		}
	}
	if n < 4 {
		r.Undecided(rule, "TimeRange-callers", "-", fmt.Sprintf("only %d calls of GPDir.TimeRange found", n))
	}
}
