package props

import (
	"go/ast"
	"go/token"
	"go/types"

	"gpverif/core"
)

// ev is a labelled event on a path.
type ev struct {
	label string
	node  ast.Node
	at    int // index into the path
}

// trace is one entry→exit path with its events, branch decisions and outcome.
type trace struct {
	path    []int
	evs     []ev
	outcome string // "ok" (returns nil error) | "fail" (returns non-nil error) | "call" (returns another call's error) | "?" | "end" (no return value)
	ret     *ast.ReturnStmt
	// errTaken[obj] = last decision of an `obj != nil` test on this path
	errTaken map[types.Object]bool
}

// has reports whether label occurs on the trace.
func (t *trace) has(label string) bool { return t.count(label) > 0 }

func (t *trace) count(label string) int {
	n := 0
	for _, e := range t.evs {
		if e.label == label {
			n++
		}
	}
	return n
}

// first / last index (into evs) of label, -1 if absent.
func (t *trace) first(label string) int {
	for i, e := range t.evs {
		if e.label == label {
			return i
		}
	}
	return -1
}

func (t *trace) last(label string) int {
	for i := len(t.evs) - 1; i >= 0; i-- {
		if t.evs[i].label == label {
			return i
		}
	}
	return -1
}

// classifier labels the events of one graph node; cond is non-nil for two-way
// conditions and carries the branch taken on the current path.
type classifier func(n ast.Node, cond *bool) []ev

// traces enumerates entry→exit paths of f and classifies them.
func traces(f *core.Fn, g *core.Graph, cl classifier, limit int) ([]trace, bool) {
	info := f.Info()
	paths, ok := g.Paths(core.Entry, core.Exit, limit)
	if !ok {
		return nil, false
	}
	sig := f.Obj.Type().(*types.Signature)
	errIdx := -1
	for i := 0; i < sig.Results().Len(); i++ {
		if core.IsErrorType(sig.Results().At(i).Type()) {
			errIdx = i
		}
	}
	var out []trace
	for _, path := range paths {
		if !feasible(info, g, path) {
			continue
		}
		t := trace{path: path, errTaken: map[types.Object]bool{}, outcome: "end"}
		for i, n := range path {
			node := g.Nodes[n]
			if node == nil {
				continue
			}
			var cond *bool
			if taken, isCond := g.Taken(path, i); isCond {
				tk := taken
				cond = &tk
				c := node.(ast.Expr)
				for _, d := range core.Conjuncts(c, true) {
					if b, ok := core.BinOp(d, token.NEQ, token.EQL); ok && core.IsNil(info, b.Y) {
						if o := core.ObjOf(info, b.X); o != nil && core.IsErrorType(o.Type()) {
							if len(core.Conjuncts(c, true)) == 1 {
								t.errTaken[o] = taken == (b.Op == token.NEQ)
							} else if !taken && b.Op == token.NEQ {
								t.errTaken[o] = false
							}
						}
					}
				}
			}
			for _, e := range cl(node, cond) {
				e.at = i
				if e.node == nil {
					e.node = node
				}
				t.evs = append(t.evs, e)
			}
			if rs, ok := node.(*ast.ReturnStmt); ok {
				t.ret = rs
				t.outcome = "?"
				if errIdx >= 0 && len(rs.Results) == sig.Results().Len() {
					res := rs.Results[errIdx]
					switch {
					case core.IsNil(info, res):
						t.outcome = "ok"
					case core.ObjOf(info, res) != nil && core.ObjOf(info, res).Parent() == core.ObjOf(info, res).Pkg().Scope():
						t.outcome = "fail" // a package-level sentinel error
					case core.ObjOf(info, res) != nil:
						if tk, seen := t.errTaken[core.ObjOf(info, res)]; seen {
							if tk {
								t.outcome = "fail"
							} else {
								t.outcome = "ok"
							}
						}
					default:
						if c, isCall := ast.Unparen(res).(*ast.CallExpr); isCall {
							cn := core.CallName(info, c)
							if cn == "fmt.Errorf" || cn == "errors.New" {
								t.outcome = "fail"
							} else {
								t.outcome = "call"
							}
						} else if _, isSel := ast.Unparen(res).(*ast.SelectorExpr); isSel {
							t.outcome = "fail" // a sentinel error value such as ErrDirNotOpen
						}
					}
				} else if errIdx >= 0 && len(rs.Results) == 1 && sig.Results().Len() > 1 {
					t.outcome = "call"
				} else if errIdx < 0 {
					t.outcome = "end"
				}
			}
		}
		out = append(out, t)
	}
	return out, true
}
