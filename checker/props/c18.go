package props

import (
	"fmt"
	"go/ast"
	"go/token"
	"go/types"
	"regexp"
	"sort"
	"strings"

	"gpverif/core"
)

func init() { register("C18", c18) }

// flatStmts renders a statement list recursively into one line per simple statement / branch head.
func flatStmts(list []ast.Stmt, out *[]string) {
	for _, st := range list {
		switch s := st.(type) {
		case *ast.IfStmt:
			head := "if "
			if s.Init != nil {
				head += stmtString(s.Init) + "; "
			}
			*out = append(*out, head+core.Str(s.Cond))
			flatStmts(s.Body.List, out)
			if s.Else != nil {
				*out = append(*out, "else")
				flatStmts([]ast.Stmt{s.Else}, out)
			}
		case *ast.BlockStmt:
			flatStmts(s.List, out)
		case *ast.ForStmt:
			head := "for "
			if s.Init != nil {
				head += stmtString(s.Init)
			}
			head += ";"
			if s.Cond != nil {
				head += core.Str(s.Cond)
			}
			head += ";"
			if s.Post != nil {
				head += stmtString(s.Post)
			}
			*out = append(*out, head)
			flatStmts(s.Body.List, out)
		case *ast.LabeledStmt:
			*out = append(*out, s.Label.Name+":")
			flatStmts([]ast.Stmt{s.Stmt}, out)
		case *ast.IncDecStmt:
			*out = append(*out, core.Str(s.X)+s.Tok.String())
		case *ast.DeclStmt:
			if gd, ok := s.Decl.(*ast.GenDecl); ok {
				for _, sp := range gd.Specs {
					if vs, ok := sp.(*ast.ValueSpec); ok {
						for _, n := range vs.Names {
							*out = append(*out, "var "+n.Name+" "+core.Str(vs.Type))
						}
					}
				}
			}
		case *ast.EmptyStmt:
		default:
			*out = append(*out, stmtString(st))
		}
	}
}

func c18(r *core.Run) {
	r.Expl = "C18 (flow hash map behaves as a map with additive updates): decides (1) the map owns its keys: in Set and SetOrUpdate the slot for a new key is a slice of the map's own key arena (never the caller's slice), the caller's bytes are copied into it, the arena is grown before the slot is cut and the arena position advances by the key length; (2) Set and SetOrUpdate are siblings: identical bucket search, growth and insertion code, differing only in the update of an existing value and in the value stored; (3) Map.Merge's inlined iteration and Iter.Next are siblings: identical traversal (old / new buckets, evacuation checks, wrap-around), differing only in what is done with a found entry; (4) additive update and insertion agree on which parameter feeds which counter (all four); (5) lookup consults an old bucket exactly when it has not been evacuated (the same test the iterator and the growth code use). NOT decided: map semantics under growth as executed, exactly-once iteration, load-factor arithmetic."
	r.Floor = 12
	r.Rules = append(r.Rules, "key-arena-origin (P9)", "clone-agreement (P6)", "counter-positions", "evacuation-test-siblings")
	p := r.Prog("cgo")
	for _, name := range []string{"Map.Set", "Map.SetOrUpdate"} {
		c18Arena(r, p, name)
	}
	c18SetSiblings(r, p)
	c18MergeSiblings(r, p)
	ruleSetOrUpdateMapping(r, p)
	c18Lookup(r, p)
}

func c18Arena(r *core.Run, p *core.Prog, name string) {
	const rule = "key-arena-origin"
	f := r.MustFunc(rule, pkgHashmap, name)
	if f == nil {
		return
	}
	info := f.Info()
	key := f.Obj.Type().(*types.Signature).Params().At(0)
	fData := p.FieldObj(pkgHashmap, "Map", "keyData")
	fPos := p.FieldObj(pkgHashmap, "Map", "keyDataPos")
	var slotAssign, copyPos, growPos, advPos token.Pos
	slotOK, copyOK, growOK, advOK := false, false, false, false
	var slotVar string
	core.Walk(f.Decl.Body, false, func(x ast.Node) bool {
		switch s := x.(type) {
		case *ast.AssignStmt:
			if len(s.Lhs) != 1 || len(s.Rhs) != 1 {
				return true
			}
			if st, ok := ast.Unparen(s.Lhs[0]).(*ast.StarExpr); ok && strings.HasSuffix(core.TypeName(info.TypeOf(s.Lhs[0])), "hashmap.Key") {
				slotVar = core.Str(st.X)
				slotAssign = s.Pos()
				if se, ok := ast.Unparen(s.Rhs[0]).(*ast.SliceExpr); ok && core.SelField(info, se.X) == fData &&
					core.MentionsField(info, se.Low, fPos) && core.MentionsField(info, se.High, fPos) && strings.Contains(core.Str(se.High), "len("+key.Name()+")") {
					slotOK = true
				}
				if core.MentionsObj(info, s.Rhs[0], key) && !slotOK {
					slotOK = false
				}
			}
			if core.SelField(info, s.Lhs[0]) == fPos && s.Tok == token.ADD_ASSIGN && core.Str(s.Rhs[0]) == "len("+key.Name()+")" {
				advOK, advPos = true, s.Pos()
			}
			if core.SelField(info, s.Lhs[0]) == fData {
				if c, ok := s.Rhs[0].(*ast.CallExpr); ok && core.CallName(info, c) == "builtin.append" {
					growPos = s.Pos()
				}
			}
		case *ast.IfStmt:
			if b, ok := core.BinOp(s.Cond, token.GTR); ok && core.MentionsField(info, b.X, fPos) && strings.Contains(core.Str(b.X), "len("+key.Name()+")") && core.MentionsField(info, b.Y, fData) {
				growOK = true
			}
		case *ast.CallExpr:
			if core.CallName(info, s) == "builtin.copy" && len(s.Args) == 2 && core.ObjOf(info, s.Args[1]) == key {
				if st, ok := ast.Unparen(s.Args[0]).(*ast.StarExpr); ok && core.Str(st.X) == slotVar {
					copyOK, copyPos = true, s.Pos()
				}
			}
		}
		return true
	})
	r.Check(rule, name+":slot-is-slice-of-own-arena", p.Rel(f.Decl.Pos()), slotOK,
		"the key slot of a new entry must be m.keyData[pos:pos+len(key)]; storing the caller's slice makes later changes of the caller's buffer (the aggregation code reuses one key buffer for all entries) change the keys inside the map")
	r.Check(rule, name+":caller-bytes-copied-into-slot", p.Rel(f.Decl.Pos()), copyOK && copyPos > slotAssign, "copy(*slot, key) must follow the slot assignment")
	r.Check(rule, name+":arena-grown-before-slot-is-cut", p.Rel(f.Decl.Pos()), growOK && growPos.IsValid() && growPos < slotAssign, "the arena must be extended when pos+len(key) exceeds it, before slicing")
	r.Check(rule, name+":arena-position-advances-by-key-length", p.Rel(f.Decl.Pos()), advOK && advPos > slotAssign, "keyDataPos += len(key) after the slot was cut; otherwise the next key overwrites this one")
}

func c18SetSiblings(r *core.Run, p *core.Prog) {
	const rule = "clone-agreement"
	a := r.MustFunc(rule, pkgHashmap, "Map.Set")
	b := r.MustFunc(rule, pkgHashmap, "Map.SetOrUpdate")
	if a == nil || b == nil {
		return
	}
	norm := func(f *core.Fn) []string {
		var ls []string
		flatStmts(f.Decl.Body.List, &ls)
		var out []string
		cmpRe := regexp.MustCompile(`string\((\w+(?:\.\w+\[\w+\])?)\) != string\((\w+(?:\.\w+\[\w+\])?)\)`)
		for _, l := range ls {
			if strings.Contains(l, "panic(") || strings.Contains(l, "vals[i]") || strings.Contains(l, "*insertV =") {
				continue // the documented differences: what happens to the value
			}
			if m := cmpRe.FindStringSubmatch(l); m != nil {
				ops := []string{m[1], m[2]}
				sort.Strings(ops)
				l = "if keys-differ(" + ops[0] + "," + ops[1] + ")"
			}
			out = append(out, l)
		}
		return out
	}
	la, lb := norm(a), norm(b)
	diff := ""
	for i := 0; i < len(la) && i < len(lb); i++ {
		if la[i] != lb[i] {
			diff = fmt.Sprintf("statement %d: Set `%s` vs SetOrUpdate `%s`", i, la[i], lb[i])
			break
		}
	}
	if diff == "" && len(la) != len(lb) {
		diff = fmt.Sprintf("%d vs %d statements", len(la), len(lb))
	}
	r.Check(rule, "Map.Set~Map.SetOrUpdate", p.Rel(b.Decl.Pos()), diff == "", "bucket search, growth trigger, overflow handling and key insertion must be identical in both (only the treatment of the value may differ): "+diff)
	r.Stat("statements_compared", len(la))
}

func c18MergeSiblings(r *core.Run, p *core.Prog) {
	const rule = "clone-agreement"
	mg := r.MustFunc(rule, pkgHashmap, "Map.Merge")
	nx := r.MustFunc(rule, pkgHashmap, "Iter.Next")
	if mg == nil || nx == nil {
		return
	}
	from := func(f *core.Fn, label string) []ast.Stmt {
		for i, st := range f.Decl.Body.List {
			if ls, ok := st.(*ast.LabeledStmt); ok && ls.Label.Name == label {
				return append([]ast.Stmt{ls.Stmt}, f.Decl.Body.List[i+1:]...)
			}
		}
		return nil
	}
	a, b := from(mg, "next"), from(nx, "next")
	if a == nil || b == nil {
		r.Undecided(rule, "Map.Merge~Iter.Next:labels", p.Rel(mg.Decl.Pos()), "label `next:` not found in one of the two functions")
		return
	}
	var la, lb []string
	flatStmts(a, &la)
	flatStmts(b, &lb)
	mre := regexp.MustCompile(`\bm\b`)
	var na, nb []string
	for _, l := range la {
		// what Merge does with a found entry, and its way of continuing
		if strings.Contains(l, "SetOrUpdate") || l == "val := it.val" || l == "goto start" {
			continue
		}
		if l == "return " {
			l = "return"
		}
		na = append(na, l)
	}
	for _, l := range lb {
		l = mre.ReplaceAllString(l, "src")
		if l == "return true" {
			continue
		}
		if l == "return false" {
			l = "return"
		}
		nb = append(nb, l)
	}
	for i := range na {
		na[i] = strings.TrimSpace(strings.Replace(na[i], "it.src.", "it.m.", -1))
	}
	for i := range nb {
		nb[i] = strings.TrimSpace(strings.Replace(nb[i], "it.src.", "it.m.", -1))
	}
	diff := ""
	for i := 0; i < len(na) && i < len(nb); i++ {
		if na[i] != nb[i] {
			diff = fmt.Sprintf("statement %d: Merge `%s` vs Iter.Next `%s`", i, na[i], nb[i])
			break
		}
	}
	if diff == "" && len(na) != len(nb) {
		diff = fmt.Sprintf("%d vs %d statements", len(na), len(nb))
	}
	r.Check(rule, "Map.Merge~Iter.Next", p.Rel(mg.Decl.Pos()), diff == "", "Merge re-implements the iterator inline; both traversals must visit the same entries (old vs new buckets, evacuation and wrap-around logic): "+diff)
	r.Stat("statements_compared", len(na))
	// Merge hands the found entry to the additive update
	okAdd := false
	for _, c := range core.Calls(mg.Decl.Body, false) {
		if core.CallName(mg.Info(), c) == pkgHashmap+".Map.SetOrUpdate" {
			okAdd = true
		}
		if core.CallName(mg.Info(), c) == pkgHashmap+".Map.Set" {
			okAdd = false
			break
		}
	}
	r.Check(rule, "Map.Merge:additive", p.Rel(mg.Decl.Pos()), okAdd, "merged entries must be added to existing ones (SetOrUpdate), not replace them")
}

func c18Lookup(r *core.Run, p *core.Prog) {
	const rule = "evacuation-test-siblings"
	f := r.MustFunc(rule, pkgHashmap, "Map.mapaccessK")
	if f == nil {
		return
	}
	info := f.Info()
	n, bad := 0, ""
	core.Walk(f.Decl.Body, false, func(x ast.Node) bool {
		ifs, ok := x.(*ast.IfStmt)
		if !ok {
			return true
		}
		// body assigns b = <old bucket>
		var old string
		for _, st := range ifs.Body.List {
			if a, ok := st.(*ast.AssignStmt); ok && len(a.Lhs) == 1 && core.Str(a.Lhs[0]) == "b" {
				old = core.Str(a.Rhs[0])
			}
		}
		if old == "" || !strings.Contains(strings.ToLower(old), "old") {
			return true
		}
		n++
		u, ok := ast.Unparen(ifs.Cond).(*ast.UnaryExpr)
		okC := ok && u.Op == token.NOT
		if okC {
			c, isCall := ast.Unparen(u.X).(*ast.CallExpr)
			okC = isCall && core.CallName(info, c) == pkgHashmap+".evacuated" && len(c.Args) == 1 && core.Str(c.Args[0]) == old
		}
		if !okC {
			bad = fmt.Sprintf("%s: the old bucket is consulted under `%s`; it holds the entries of its keys exactly as long as it has not been evacuated, so the test must be `!evacuated(%s)` and nothing else — any extra condition makes lookups miss keys while the table is growing", p.Rel(ifs.Pos()), core.Str(ifs.Cond), old)
		}
		return true
	})
	r.Check(rule, "mapaccessK:old-bucket-iff-not-evacuated", p.Rel(f.Decl.Pos()), n == 1 && bad == "", orStr(bad, fmt.Sprintf("%d old-bucket selections found", n)))
	// no early return that depends on evacuation progress
	fEv := p.FieldObj(pkgHashmap, "Map", "nEvacuate")
	r.Check(rule, "mapaccessK:independent-of-evacuation-progress", p.Rel(f.Decl.Pos()), fEv == nil || !core.MentionsField(info, f.Decl.Body, fEv),
		"a lookup must not reason about the evacuation mark: the mark names the next bucket to evacuate, which still holds its entries")
}
