package props

import (
	"fmt"
	"go/ast"
	"go/token"
	"go/types"
	"sort"
	"strings"

	"gpverif/core"
)

func init() { register("C18", c18) }

// flatStmts renders a statement list recursively into one line per simple statement / branch head.
func flatStmts(list []ast.Stmt, out *[]string) {
	for _, st := range list {
		switch s := st.(type) {
		case *ast.IfStmt:
			head := "if "
			if s.Init != nil {
				head += stmtString(s.Init) + "; "
			}
			*out = append(*out, head+core.Str(s.Cond))
			flatStmts(s.Body.List, out)
			if s.Else != nil {
				*out = append(*out, "else")
				flatStmts([]ast.Stmt{s.Else}, out)
			}
		case *ast.BlockStmt:
			flatStmts(s.List, out)
		case *ast.ForStmt:
			head := "for "
			if s.Init != nil {
				head += stmtString(s.Init)
			}
			head += ";"
			if s.Cond != nil {
				head += core.Str(s.Cond)
			}
			head += ";"
			if s.Post != nil {
				head += stmtString(s.Post)
			}
			*out = append(*out, head)
			flatStmts(s.Body.List, out)
		case *ast.LabeledStmt:
			*out = append(*out, s.Label.Name+":")
			flatStmts([]ast.Stmt{s.Stmt}, out)
		case *ast.IncDecStmt:
			*out = append(*out, core.Str(s.X)+s.Tok.String())
		case *ast.DeclStmt:
			if gd, ok := s.Decl.(*ast.GenDecl); ok {
				for _, sp := range gd.Specs {
					if vs, ok := sp.(*ast.ValueSpec); ok {
						for _, n := range vs.Names {
							*out = append(*out, "var "+n.Name+" "+core.Str(vs.Type))
						}
					}
				}
			}
		case *ast.EmptyStmt:
		default:
			*out = append(*out, stmtString(st))
		}
	}
}

func c18(r *core.Run) {
	r.Expl = "C18 (flow hash map behaves as a map with additive updates): decides (1) the map owns its keys: in Set and SetOrUpdate the slot for a new key is a slice of the map's own key arena (never the caller's slice), the caller's bytes are copied into it, the arena is grown before the slot is cut and the arena position advances by the key length; every value ever stored into Map.keyData is a fresh allocation whose capacity equals its length, the arena appended to itself, or nil (the arena grows by append: spare capacity shared with another owner — e.g. two maps cut from one buffer — is overwritten by the growth); (2) Set and SetOrUpdate are siblings: identical bucket search, growth and insertion code, differing only in the update of an existing value and in the value stored; (3) Map.Merge's inlined iteration and Iter.Next are siblings: identical traversal (old / new buckets, evacuation checks, wrap-around), differing only in what is done with a found entry; (4) additive update and insertion agree on which parameter feeds which counter (all four); (5) lookup consults an old bucket exactly when it has not been evacuated (the same test the iterator and the growth code use). NOT decided: map semantics under growth as executed, exactly-once iteration, load-factor arithmetic."
	r.Floor = 12
	r.Rules = append(r.Rules, "key-arena-origin (P9)", "key-arena-exclusive (P9)", "clone-agreement (P6)", "counter-positions", "evacuation-test-siblings")
	p := r.Prog("cgo")
	for _, name := range []string{"Map.Set", "Map.SetOrUpdate"} {
		c18Arena(r, p, name)
	}
	c18ArenaOwnership(r, p)
	c18SetSiblings(r, p)
	c18MergeSiblings(r, p)
	ruleSetOrUpdateMapping(r, p)
	c18Lookup(r, p)
}

func c18Arena(r *core.Run, p *core.Prog, name string) {
	const rule = "key-arena-origin"
	f := r.MustFunc(rule, pkgHashmap, name)
	if f == nil {
		return
	}
	fData := p.FieldObj(pkgHashmap, "Map", "keyData")
	fPos := p.FieldObj(pkgHashmap, "Map", "keyDataPos")
	// The slot of a new key is `*slot = <arena slice>` in the function itself, or `*slot = m.helper(key)` with the helper
	// cutting, filling and returning the slice. scope = the function in which the arena is sliced; slotIs(e) recognises the
	// expression that denotes the slot there (`*insertK`, or the local the helper returns).
	scope := f
	key := f.Obj.Type().(*types.Signature).Params().At(0)
	info := f.Info()
	var slotAssignInF token.Pos
	slotIsDeref := true
	var slotLocal types.Object
	core.Walk(f.Decl.Body, false, func(x ast.Node) bool {
		s, ok := x.(*ast.AssignStmt)
		if !ok || len(s.Lhs) != 1 || len(s.Rhs) != 1 {
			return true
		}
		if _, ok := ast.Unparen(s.Lhs[0]).(*ast.StarExpr); ok && strings.HasSuffix(core.TypeName(info.TypeOf(s.Lhs[0])), "hashmap.Key") {
			slotAssignInF = s.Pos()
			if c, ok := ast.Unparen(s.Rhs[0]).(*ast.CallExpr); ok {
				if fo, ok := core.Callee(info, c).(*types.Func); ok {
					if h := p.FnOf(fo); h != nil && len(c.Args) == 1 && core.ObjOf(info, c.Args[0]) == key {
						// the helper must return one local; that local is the slot
						var ret types.Object
						nRet := 0
						core.Walk(h.Decl.Body, false, func(y ast.Node) bool {
							if rs, ok := y.(*ast.ReturnStmt); ok && len(rs.Results) == 1 {
								nRet++
								ret = core.ObjOf(h.Info(), rs.Results[0])
							}
							return true
						})
						if nRet == 1 && ret != nil {
							scope, slotIsDeref, slotLocal = h, false, ret
							key = h.Obj.Type().(*types.Signature).Params().At(0)
						}
					}
				}
			}
		}
		return true
	})
	info = scope.Info()
	// a local through which the slot is filled before it is stored: `s := <arena slice>; copy(s, key); *slot = s`
	via := map[types.Object]bool{}
	if slotIsDeref {
		core.Walk(scope.Decl.Body, false, func(x ast.Node) bool {
			if a, ok := x.(*ast.AssignStmt); ok && len(a.Lhs) == 1 && len(a.Rhs) == 1 {
				if _, isStar := ast.Unparen(a.Lhs[0]).(*ast.StarExpr); isStar && strings.HasSuffix(core.TypeName(info.TypeOf(a.Lhs[0])), "hashmap.Key") {
					if o := core.ObjOf(info, a.Rhs[0]); o != nil {
						via[o] = true
					}
				}
			}
			return true
		})
	}
	isSlot := func(e ast.Expr) bool {
		if slotIsDeref {
			if o := core.ObjOf(info, e); o != nil && via[o] {
				return true
			}
			_, ok := ast.Unparen(e).(*ast.StarExpr)
			return ok && strings.HasSuffix(core.TypeName(info.TypeOf(e)), "hashmap.Key")
		}
		return core.ObjOf(info, e) == slotLocal
	}
	// order of the statements as the walk meets them (source positions are meaningless across an expanded helper)
	seq := 0
	var slotAssign, copyPos, growPos, advPos int
	slotOK, copyOK, growOK, advOK := false, false, false, false
	core.Walk(scope.Decl.Body, false, func(x ast.Node) bool {
		seq++
		switch s := x.(type) {
		case *ast.AssignStmt:
			if len(s.Lhs) != 1 || len(s.Rhs) != 1 {
				return true
			}
			if isSlot(s.Lhs[0]) {
				if se, isSl := ast.Unparen(s.Rhs[0]).(*ast.SliceExpr); isSl && core.SelField(info, se.X) == fData {
					slotAssign = seq // where the arena is cut
				} else if slotAssign == 0 {
					slotAssign = seq
				}
				if se, ok := ast.Unparen(resolveLocal(info, scope.Decl.Body, s.Rhs[0])).(*ast.SliceExpr); ok && core.SelField(info, se.X) == fData &&
					core.MentionsField(info, se.Low, fPos) && core.MentionsField(info, se.High, fPos) && strings.Contains(core.Str(se.High), "len("+key.Name()+")") {
					slotOK = true
				}
			}
			if core.SelField(info, s.Lhs[0]) == fPos && s.Tok == token.ADD_ASSIGN && core.Str(s.Rhs[0]) == "len("+key.Name()+")" {
				advOK, advPos = true, seq
			}
			if core.SelField(info, s.Lhs[0]) == fData {
				if c, ok := s.Rhs[0].(*ast.CallExpr); ok && core.CallName(info, c) == "builtin.append" {
					growPos = seq
				}
			}
		case *ast.IfStmt:
			if bx, ok := core.BinOp(s.Cond, token.GTR); ok && core.MentionsField(info, bx.X, fPos) && strings.Contains(core.Str(bx.X), "len("+key.Name()+")") && core.MentionsField(info, bx.Y, fData) {
				growOK = true
			}
		case *ast.CallExpr:
			if core.CallName(info, s) == "builtin.copy" && len(s.Args) == 2 && core.ObjOf(info, s.Args[1]) == key && isSlot(s.Args[0]) {
				copyOK, copyPos = true, seq
			}
		}
		return true
	})
	if scope != f && !slotAssignInF.IsValid() {
		slotOK = false
	}
	r.Check(rule, name+":slot-is-slice-of-own-arena", p.Rel(f.Decl.Pos()), slotOK,
		"the key slot of a new entry must be m.keyData[pos:pos+len(key)]; storing the caller's slice makes later changes of the caller's buffer (the aggregation code reuses one key buffer for all entries) change the keys inside the map")
	r.Check(rule, name+":caller-bytes-copied-into-slot", p.Rel(f.Decl.Pos()), copyOK && copyPos > slotAssign, "copy(*slot, key) must follow the slot assignment")
	r.Check(rule, name+":arena-grown-before-slot-is-cut", p.Rel(f.Decl.Pos()), growOK && growPos > 0 && growPos < slotAssign, "the arena must be extended when pos+len(key) exceeds it, before slicing")
	r.Check(rule, name+":arena-position-advances-by-key-length", p.Rel(f.Decl.Pos()), advOK && advPos > slotAssign, "keyDataPos += len(key) after the slot was cut; otherwise the next key overwrites this one")
}

func c18SetSiblings(r *core.Run, p *core.Prog) {
	const rule = "clone-agreement"
	a := r.MustFunc(rule, pkgHashmap, "Map.Set")
	b := r.MustFunc(rule, pkgHashmap, "Map.SetOrUpdate")
	if a == nil || b == nil {
		return
	}
	// sets of statements with the conditions they execute under, canonically rendered (see guardedStatements); the documented
	// difference is what happens to the value: the update of an existing entry and the value stored for a new one
	norm := func(f *core.Fn) map[string]bool {
		out := map[string]bool{}
		for _, l := range guardedStatements(newCanon(f), f.Decl.Body.List) {
			st := l[strings.Index(l, "] ")+2:]
			if strings.Contains(st, "panic(") {
				continue
			}
			lhs := st
			if i := strings.Index(st, " "); i >= 0 {
				lhs = st[:i]
			}
			// value handling: stores through a *Val (an element of vals[], or the insert-slot pointer), return after the update
			if strings.Contains(lhs, ".vals[") && !strings.HasPrefix(lhs, "var<insert") && !strings.HasPrefix(lhs, "local:insert") {
				if !strings.Contains(st, " = &") { // `insertV = &b.vals[i]` (choosing the slot) is part of the common search
					continue
				}
			}
			if strings.HasPrefix(lhs, "*") && strings.Contains(lhs, "nsertV") {
				continue
			}
			out[l] = true
		}
		return out
	}
	la, lb := norm(a), norm(b)
	diff := ""
	for l := range la {
		if !lb[l] {
			diff = "only in Set: " + l
		}
	}
	for l := range lb {
		if !la[l] {
			diff = "only in SetOrUpdate: " + l
		}
	}
	r.Check(rule, "Map.Set~Map.SetOrUpdate", p.Rel(b.Decl.Pos()), diff == "" && len(la) >= 15, "bucket search, growth trigger, overflow handling and key insertion must be identical in both (only the treatment of the value may differ): "+diff)
	r.Stat("statements_compared", len(la))
}

func c18MergeSiblings(r *core.Run, p *core.Prog) {
	const rule = "clone-agreement"
	mg := r.MustFunc(rule, pkgHashmap, "Map.Merge")
	nx := r.MustFunc(rule, pkgHashmap, "Iter.Next")
	if mg == nil || nx == nil {
		return
	}
	from := func(f *core.Fn, label string) []ast.Stmt {
		for i, st := range f.Decl.Body.List {
			if ls, ok := st.(*ast.LabeledStmt); ok && ls.Label.Name == label {
				return append([]ast.Stmt{ls.Stmt}, f.Decl.Body.List[i+1:]...)
			}
		}
		return nil
	}
	a, b := from(mg, "next"), from(nx, "next")
	if a == nil || b == nil {
		r.Undecided(rule, "Map.Merge~Iter.Next:labels", p.Rel(mg.Decl.Pos()), "label `next:` not found in one of the two functions")
		return
	}
	// canonical summaries: the iterator is "IT" in both (receiver of Next, local of Merge), the iterated map is IT.m (the local
	// `m := it.m` of Next is inlined; the parameter of Merge is what iter() stored into it.m)
	cm, cx := newCanon(mg), newCanon(nx)
	cx.names[nx.Obj.Type().(*types.Signature).Recv()] = "IT"
	cm.names[mg.Obj.Type().(*types.Signature).Params().At(0)] = "IT.m"
	core.Walk(mg.Decl.Body, false, func(x ast.Node) bool {
		if vs, ok := x.(*ast.ValueSpec); ok {
			for _, nm := range vs.Names {
				if o := mg.Info().Defs[nm]; o != nil && strings.HasSuffix(core.TypeName(o.Type()), "hashmap.Iter") {
					cm.names[o] = "IT"
				}
			}
		}
		return true
	})
	var na, nb []string
	for _, l := range guardedStatements(cm, a) {
		// what Merge does with a found entry, and its way of continuing
		if strings.Contains(l, "SetOrUpdate(") {
			continue
		}
		l = strings.Replace(l, "] goto start", "] FOUND", 1)
		if strings.HasSuffix(l, "] return") {
			l = strings.TrimSuffix(l, "return") + "END"
		}
		na = append(na, l)
	}
	for _, l := range guardedStatements(cx, b) {
		l = strings.Replace(l, "] return true", "] FOUND", 1)
		l = strings.Replace(l, "] return false", "] END", 1)
		nb = append(nb, l)
	}
	sort.Strings(na)
	sort.Strings(nb)
	inA, inB := map[string]bool{}, map[string]bool{}
	for _, l := range na {
		inA[l] = true
	}
	for _, l := range nb {
		inB[l] = true
	}
	diff := ""
	for _, l := range na {
		if !inB[l] {
			diff = "only in Merge: " + l
		}
	}
	for _, l := range nb {
		if !inA[l] {
			diff = "only in Iter.Next: " + l
		}
	}
	r.Check(rule, "Map.Merge~Iter.Next", p.Rel(mg.Decl.Pos()), diff == "" && len(na) >= 15, "Merge re-implements the iterator inline; both traversals must visit the same entries (old vs new buckets, evacuation and wrap-around logic) — compared as sets of statements with the conditions they execute under, canonically rendered: "+diff)
	r.Stat("statements_compared", len(na))
	// Merge hands the found entry to the additive update
	okAdd := false
	for _, c := range core.Calls(mg.Decl.Body, false) {
		if core.CallName(mg.Info(), c) == pkgHashmap+".Map.SetOrUpdate" {
			okAdd = true
		}
		if core.CallName(mg.Info(), c) == pkgHashmap+".Map.Set" {
			okAdd = false
			break
		}
	}
	r.Check(rule, "Map.Merge:additive", p.Rel(mg.Decl.Pos()), okAdd, "merged entries must be added to existing ones (SetOrUpdate), not replace them")
}

func c18Lookup(r *core.Run, p *core.Prog) {
	const rule = "evacuation-test-siblings"
	f := r.MustFunc(rule, pkgHashmap, "Map.mapaccessK")
	if f == nil {
		return
	}
	info := f.Info()
	n, bad := 0, ""
	core.Walk(f.Decl.Body, false, func(x ast.Node) bool {
		ifs, ok := x.(*ast.IfStmt)
		if !ok {
			return true
		}
		// body assigns b = <old bucket>
		var old string
		for _, st := range ifs.Body.List {
			if a, ok := st.(*ast.AssignStmt); ok && len(a.Lhs) == 1 && core.Str(a.Lhs[0]) == "b" {
				old = core.Str(a.Rhs[0])
			}
		}
		if old == "" || !strings.Contains(strings.ToLower(old), "old") {
			return true
		}
		n++
		u, ok := ast.Unparen(ifs.Cond).(*ast.UnaryExpr)
		okC := ok && u.Op == token.NOT
		if okC {
			c, isCall := ast.Unparen(u.X).(*ast.CallExpr)
			okC = isCall && core.CallName(info, c) == pkgHashmap+".evacuated" && len(c.Args) == 1 && core.Str(c.Args[0]) == old
		}
		if !okC {
			bad = fmt.Sprintf("%s: the old bucket is consulted under `%s`; it holds the entries of its keys exactly as long as it has not been evacuated, so the test must be `!evacuated(%s)` and nothing else — any extra condition makes lookups miss keys while the table is growing", p.Rel(ifs.Pos()), core.Str(ifs.Cond), old)
		}
		return true
	})
	r.Check(rule, "mapaccessK:old-bucket-iff-not-evacuated", p.Rel(f.Decl.Pos()), n == 1 && bad == "", orStr(bad, fmt.Sprintf("%d old-bucket selections found", n)))
	// no early return that depends on evacuation progress
	fEv := p.FieldObj(pkgHashmap, "Map", "nEvacuate")
	r.Check(rule, "mapaccessK:independent-of-evacuation-progress", p.Rel(f.Decl.Pos()), fEv == nil || !core.MentionsField(info, f.Decl.Body, fEv),
		"a lookup must not reason about the evacuation mark: the mark names the next bucket to evacuate, which still holds its entries")
}

// c18ArenaOwnership: every store into Map.keyData is exclusively owned memory.
func c18ArenaOwnership(r *core.Run, p *core.Prog) {
	const rule = "key-arena-exclusive"
	fData := p.FieldObj(pkgHashmap, "Map", "keyData")
	if fData == nil {
		r.Missing(rule, "Map.keyData")
		return
	}
	// classify an expression: "" = exclusively owned, otherwise the reason it is not (or "?…" if unknown)
	var classify func(f *core.Fn, e ast.Expr, depth int) string
	classify = func(f *core.Fn, e ast.Expr, depth int) string {
		info := f.Info()
		e = ast.Unparen(e)
		if core.IsNil(info, e) {
			return ""
		}
		switch x := e.(type) {
		case *ast.CallExpr:
			switch core.CallName(info, x) {
			case "builtin.make":
				if len(x.Args) == 3 && core.Str(x.Args[1]) != core.Str(x.Args[2]) {
					if a, oka := core.ConstInt(info, x.Args[1]); oka {
						if b, okb := core.ConstInt(info, x.Args[2]); okb && a == b {
							return ""
						}
					}
					return "make with capacity beyond the length is fine for one owner only if nobody else slices it: " + core.Str(e)
				}
				return ""
			case "builtin.append":
				if len(x.Args) >= 1 && core.SelField(info, x.Args[0]) == fData {
					return ""
				}
				return "append to something other than the arena itself: " + core.Str(e)
			}
			return "?result of " + core.Str(x.Fun)
		case *ast.SliceExpr:
			if core.SelField(info, x.X) == fData {
				return ""
			}
			if x.Slice3 && x.Max != nil && core.Str(x.Max) == core.Str(x.High) {
				return classify(f, x.X, depth+1)
			}
			return fmt.Sprintf("%s is a slice of a larger buffer without a capacity limit: appending to the arena grows into the rest of that buffer", core.Str(e))
		case *ast.Ident:
			o := info.Uses[x]
			if o == nil {
				return "?" + x.Name
			}
			sig := f.Obj.Type().(*types.Signature)
			for i := 0; i < sig.Params().Len(); i++ {
				if sig.Params().At(i) != o {
					continue
				}
				if depth > 2 || f.Obj.Exported() {
					return fmt.Sprintf("parameter %s of %s: the arena is supplied by the caller", x.Name, f.Name)
				}
				// unexported function: every call site in the package must pass exclusively owned memory
				n := 0
				for _, g := range p.Funcs(pkgHashmap) {
					for _, c := range core.Calls(g.Decl.Body, true) {
						if core.Callee(g.Info(), c) == types.Object(f.Obj) && i < len(c.Args) {
							n++
							if why := classify(g, c.Args[i], depth+1); why != "" {
								return fmt.Sprintf("%s (argument of %s at %s)", why, f.Name, p.Rel(c.Pos()))
							}
						}
					}
				}
				if n == 0 {
					return "?no call site of " + f.Name
				}
				return ""
			}
			if d := singleDef(info, f.Decl.Body, o); d != nil {
				return classify(f, d, depth+1)
			}
			// x, y := a, b (parallel definition)
			var def ast.Expr
			core.Walk(f.Decl.Body, false, func(y ast.Node) bool {
				if a, ok := y.(*ast.AssignStmt); ok && len(a.Lhs) == len(a.Rhs) {
					for i, l := range a.Lhs {
						if core.ObjOf(info, l) == o {
							def = a.Rhs[i]
						}
					}
				}
				return true
			})
			if def != nil {
				return classify(f, def, depth+1)
			}
			return "?" + x.Name
		}
		return "?" + core.Str(e)
	}
	n := 0
	for _, f := range p.Funcs(pkgHashmap) {
		info := f.Info()
		k := 0
		core.Walk(f.Decl.Body, true, func(x ast.Node) bool {
			var val ast.Expr
			switch st := x.(type) {
			case *ast.AssignStmt:
				for i, l := range st.Lhs {
					if core.SelField(info, l) == fData && i < len(st.Rhs) && len(st.Lhs) == len(st.Rhs) {
						val = st.Rhs[i]
					}
				}
			case *ast.KeyValueExpr:
				if id, ok := st.Key.(*ast.Ident); ok && info.Uses[id] == types.Object(fData) {
					val = st.Value
				}
			}
			if val == nil {
				return true
			}
			n++
			k++
			why := classify(f, val, 0)
			key := fmt.Sprintf("%s:keyData-store#%d", f.Name, k)
			if strings.HasPrefix(why, "?") {
				r.Undecided(rule, key, p.Rel(val.Pos()), "origin of the value stored into Map.keyData not recognised: "+why[1:])
			} else {
				r.Check(rule, key, p.Rel(val.Pos()), why == "", why)
			}
			return true
		})
	}
	if n < 4 {
		r.Undecided(rule, "Map.keyData:stores", "-", fmt.Sprintf("only %d stores into Map.keyData found", n))
	}
}
