package props

import (
	"fmt"
	"go/ast"
	"go/token"
	"go/types"
	"strings"

	"gpverif/core"
)

const pkgHashmap = "pkg/types/hashmap"

var counterFields = []string{"BytesRcvd", "BytesSent", "PacketsRcvd", "PacketsSent"}

// ruleSetOrUpdateMapping: Map.SetOrUpdate adds parameter k to the same counter field in its update
// block and its insert block, covering all four fields; AggFlowMap.SetOrUpdate forwards positionally.
// Returns field name per parameter position of Map.SetOrUpdate (index 1..4).
func ruleSetOrUpdateMapping(r *core.Run, p *core.Prog) map[int]string {
	const rule = "counter-positions"
	f := r.MustFunc(rule, pkgHashmap, "Map.SetOrUpdate")
	if f == nil {
		return nil
	}
	info := f.Info()
	sig := f.Obj.Type().(*types.Signature)
	pos := map[types.Object]int{}
	for i := 0; i < sig.Params().Len(); i++ {
		pos[sig.Params().At(i)] = i
	}
	upd, ins := map[int]string{}, map[int]string{}
	core.Walk(f.Decl.Body, false, func(x ast.Node) bool {
		switch s := x.(type) {
		case *ast.AssignStmt:
			if s.Tok == token.ADD_ASSIGN && len(s.Lhs) == 1 {
				if fv := core.SelField(info, s.Lhs[0]); fv != nil {
					if k, ok := pos[core.ObjOf(info, s.Rhs[0])]; ok {
						if old, dup := upd[k]; dup && old != fv.Name() {
							upd[k] = old + "+" + fv.Name()
						} else {
							upd[k] = fv.Name()
						}
					}
				}
			}
		case *ast.CompositeLit:
			if core.TypeName(info.TypeOf(s)) == "pkg/types.Counters" {
				for _, el := range s.Elts {
					if kv, ok := el.(*ast.KeyValueExpr); ok {
						if k, ok := pos[core.ObjOf(info, kv.Value)]; ok {
							ins[k] = core.Str(kv.Key)
						}
					}
				}
			}
		}
		return true
	})
	out := map[int]string{}
	for k := 1; k <= 4; k++ {
		okK := upd[k] != "" && upd[k] == ins[k]
		r.Check(rule, fmt.Sprintf("Map.SetOrUpdate:param%d", k), p.Rel(f.Decl.Pos()), okK,
			fmt.Sprintf("parameter %d is added to %q when the key exists but stored as %q when it is inserted", k, upd[k], ins[k]))
		out[k] = upd[k]
	}
	seen := map[string]bool{}
	for _, v := range out {
		seen[v] = true
	}
	for _, cf := range counterFields {
		r.Check(rule, "Map.SetOrUpdate:covers:"+cf, p.Rel(f.Decl.Pos()), seen[cf], "no parameter feeds counter "+cf)
	}
	// AggFlowMap.SetOrUpdate forwards (key, eA..eD) in order
	if a := r.MustFunc(rule, pkgHashmap, "AggFlowMap.SetOrUpdate"); a != nil {
		ai := a.Info()
		asig := a.Obj.Type().(*types.Signature)
		n := 0
		okF := true
		for _, c := range core.Calls(a.Decl.Body, false) {
			if core.CallName(ai, c) != pkgHashmap+".Map.SetOrUpdate" || len(c.Args) != 5 {
				continue
			}
			n++
			if core.ObjOf(ai, c.Args[0]) != asig.Params().At(0) {
				okF = false
			}
			for k := 1; k <= 4; k++ {
				if core.ObjOf(ai, c.Args[k]) != asig.Params().At(k+1) {
					okF = false
				}
			}
		}
		r.Check(rule, "AggFlowMap.SetOrUpdate:forwards-positionally", p.Rel(a.Decl.Pos()), okF && n == 2, "both the IPv4 and the IPv6 branch must forward (key, eA, eB, eC, eD) unchanged")
		// the isIPv4 branch goes to the primary map
		// per path: the outcome of the test of isIPv4 (any polarity / early return) and the map the call goes to
		okB := false
		{
			ag := core.GraphOf(a)
			fPrim := p.FieldObj(pkgHashmap, "AggFlowMap", "PrimaryMap")
			fSec := p.FieldObj(pkgHashmap, "AggFlowMap", "SecondaryMap")
			if paths, okP := ag.Paths(core.Entry, core.Exit, 500); okP {
				nV4, nV6 := 0, 0
				okB = true
				for _, path := range paths {
					v4, known := false, false
					target := ""
					for i, id := range path {
						nd := ag.Nodes[id]
						if nd == nil {
							continue
						}
						if tk, isC := ag.Taken(path, i); isC {
							if atom, truth := normCond(nd.(ast.Expr), tk); core.ObjOf(ai, atom) == asig.Params().At(1) {
								v4, known = truth, true
							}
							continue
						}
						for _, c := range core.Calls(nd, false) {
							if core.CallName(ai, c) == pkgHashmap+".Map.SetOrUpdate" {
								rx, _ := core.MethodCall(ai, c)
								switch core.SelField(ai, rx) {
								case fPrim:
									target += "P"
								case fSec:
									target += "S"
								default:
									target += "?"
								}
							}
						}
					}
					switch {
					case known && v4:
						nV4++
						if target != "P" {
							okB = false
						}
					case known && !v4:
						nV6++
						if target != "S" {
							okB = false
						}
					default:
						if target != "" {
							okB = false
						}
					}
				}
				okB = okB && nV4 > 0 && nV6 > 0 && fPrim != nil && fSec != nil
			}
		}
		r.Check(rule, "AggFlowMap.SetOrUpdate:ipv4-to-primary", p.Rel(a.Decl.Pos()), okB, "isIPv4 must select the primary (IPv4) map, otherwise the secondary (IPv6) map")
	}
	return out
}

func nodeStr(n ast.Node) string {
	var sb strings.Builder
	core.Walk(n, true, func(x ast.Node) bool {
		if id, ok := x.(*ast.Ident); ok {
			sb.WriteString(id.Name + " ")
		}
		return true
	})
	return sb.String()
}

// columnOfValues: for `vals[i]` returns the column constant name vals was unpacked from.
func columnOfValues(info *types.Info, body ast.Node, e ast.Expr) string {
	ix, ok := ast.Unparen(e).(*ast.IndexExpr)
	if !ok {
		return ""
	}
	o := core.ObjOf(info, ix.X)
	if o == nil {
		return ""
	}
	col := ""
	core.Walk(body, true, func(x ast.Node) bool {
		if a, ok := x.(*ast.AssignStmt); ok && len(a.Lhs) == 1 && core.ObjOf(info, a.Lhs[0]) == o && len(a.Rhs) == 1 {
			if c, ok := a.Rhs[0].(*ast.CallExpr); ok && len(c.Args) >= 1 {
				if cix, ok := ast.Unparen(c.Args[0]).(*ast.IndexExpr); ok {
					if co := core.ObjOf(info, selOrIdent(cix.Index)); co != nil {
						col = co.Name()
					}
				}
			}
		}
		return true
	})
	return col
}

// ruleSetOrUpdateSites: at every call of Map.SetOrUpdate / AggFlowMap.SetOrUpdate in the packages
// given, the argument at the position of counter F denotes F.
func ruleSetOrUpdateSites(r *core.Run, p *core.Prog, mapping map[int]string, rels ...string) {
	const rule = "counter-positions"
	if mapping == nil {
		return
	}
	n := 0
	for _, rel := range rels {
		for _, fn := range p.Funcs(rel) {
			info := fn.Info()
			if fn.Name == "AggFlowMap.SetOrUpdate" {
				continue
			}
			ci := 0
			core.Walk(fn.Decl.Body, true, func(x ast.Node) bool {
				c, ok := x.(*ast.CallExpr)
				if !ok {
					return true
				}
				name := core.CallName(info, c)
				off := 0
				switch name {
				case pkgHashmap + ".Map.SetOrUpdate":
					off = 0
				case pkgHashmap + ".AggFlowMap.SetOrUpdate", pkgHashmap + ".AggFlowMapWithMetadata.SetOrUpdate":
					off = 1
				default:
					return true
				}
				if len(c.Args) != 5+off {
					return true
				}
				ci++
				n++
				for k := 1; k <= 4; k++ {
					arg := c.Args[k+off]
					got := ""
					if fv := core.SelField(info, arg); fv != nil {
						got = fv.Name()
					} else if col := columnOfValues(info, fn.Decl.Body, arg); col != "" {
						got = strings.TrimSuffix(col, "ColIdx")
					}
					r.Check(rule, fmt.Sprintf("%s:call#%d:arg%d", fn.Where(), ci, k), p.Rel(arg.Pos()), got == mapping[k],
						fmt.Sprintf("argument %d (%s) denotes %q but the callee adds it to %s", k, core.Str(arg), got, mapping[k]))
				}
				return true
			})
		}
	}
	r.Stat("call_sites", n)
}
