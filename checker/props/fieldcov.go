package props

import (
	"fmt"
	"go/ast"
	"go/token"
	"go/types"
	"strings"

	"gpverif/core"
)

// structFields lists the fields of named struct T that carry data (sync.* excluded).
func structFields(t *types.Named) []*types.Var {
	st, ok := t.Underlying().(*types.Struct)
	if !ok {
		return nil
	}
	var out []*types.Var
	for i := 0; i < st.NumFields(); i++ {
		f := st.Field(i)
		if n := core.NamedOf(f.Type()); n != nil && n.Obj().Pkg() != nil && n.Obj().Pkg().Path() == "sync" {
			continue
		}
		out = append(out, f)
	}
	return out
}

// ruleAccumulate: method `name` of a struct combines receiver and its single same-typed
// parameter field by field: every data field exactly once, with the same field of the
// parameter as source and the expected operator (+= / -= or the same-named method of the field).
func ruleAccumulate(r *core.Run, p *core.Prog, rel, name string, op token.Token) {
	const rule = "field-coverage"
	f := r.MustFunc(rule, rel, name)
	if f == nil {
		return
	}
	info := f.Info()
	sig := f.Obj.Type().(*types.Signature)
	if sig.Recv() == nil || sig.Params().Len() != 1 {
		r.Undecided(rule, rel+"."+name+":signature", p.Rel(f.Decl.Pos()), "expected a method with one parameter")
		return
	}
	T := core.NamedOf(sig.Recv().Type())
	if T == nil || core.NamedOf(sig.Params().At(0).Type()) == nil || core.NamedOf(sig.Params().At(0).Type()).Obj() != T.Obj() {
		r.Undecided(rule, rel+"."+name+":signature", p.Rel(f.Decl.Pos()), "parameter type differs from receiver type")
		return
	}
	recv, other := sig.Recv(), sig.Params().At(0)
	mname := name[strings.Index(name, ".")+1:]
	type rec struct {
		src  *types.Var
		opOK bool
		pos  token.Pos
	}
	recs := map[*types.Var][]rec{}
	fieldOn := func(e ast.Expr, base *types.Var) *types.Var {
		sel, ok := ast.Unparen(e).(*ast.SelectorExpr)
		if !ok {
			return nil
		}
		if core.ObjOf(info, sel.X) != base {
			return nil
		}
		return core.SelField(info, sel)
	}
	core.Walk(f.Decl.Body, false, func(x ast.Node) bool {
		switch s := x.(type) {
		case *ast.AssignStmt:
			if len(s.Lhs) != 1 || len(s.Rhs) != 1 {
				return true
			}
			df := fieldOn(s.Lhs[0], recv)
			if df == nil {
				return true
			}
			if s.Tok == token.ASSIGN {
				// recv.f = recv.f.M(other.g)  or recv.f = recv.f + other.g
				if c, ok := ast.Unparen(s.Rhs[0]).(*ast.CallExpr); ok && len(c.Args) == 1 {
					if rx, m := core.MethodCall(info, c); rx != nil && fieldOn(rx, recv) == df {
						recs[df] = append(recs[df], rec{fieldOn(c.Args[0], other), m == mname, s.Pos()})
						return true
					}
				}
				if b, ok := ast.Unparen(s.Rhs[0]).(*ast.BinaryExpr); ok && fieldOn(b.X, recv) == df {
					want := token.ADD
					if op == token.SUB_ASSIGN {
						want = token.SUB
					}
					recs[df] = append(recs[df], rec{fieldOn(b.Y, other), b.Op == want, s.Pos()})
					return true
				}
				recs[df] = append(recs[df], rec{nil, false, s.Pos()})
				return true
			}
			recs[df] = append(recs[df], rec{fieldOn(s.Rhs[0], other), s.Tok == op, s.Pos()})
		case *ast.ExprStmt:
			if c, ok := s.X.(*ast.CallExpr); ok && len(c.Args) == 1 {
				if rx, m := core.MethodCall(info, c); rx != nil {
					if df := fieldOn(rx, recv); df != nil {
						recs[df] = append(recs[df], rec{fieldOn(c.Args[0], other), m == mname, s.Pos()})
					}
				}
			}
		case *ast.ReturnStmt:
			// value form: return T{F: recv.F op other.F, …} (or … recv.F.M(other.F))
			if len(s.Results) != 1 {
				return true
			}
			cl, ok := ast.Unparen(resolveLocal(info, f.Decl.Body, s.Results[0])).(*ast.CompositeLit)
			if !ok || core.NamedOf(info.TypeOf(cl)) == nil || core.NamedOf(info.TypeOf(cl)).Obj() != T.Obj() {
				return true
			}
			for _, el := range cl.Elts {
				kv, ok := el.(*ast.KeyValueExpr)
				if !ok {
					continue
				}
				kid, _ := kv.Key.(*ast.Ident)
				if kid == nil {
					continue
				}
				df, _ := info.Uses[kid].(*types.Var)
				if df == nil {
					continue
				}
				want := token.ADD
				if op == token.SUB_ASSIGN {
					want = token.SUB
				}
				switch v := ast.Unparen(kv.Value).(type) {
				case *ast.BinaryExpr:
					recs[df] = append(recs[df], rec{fieldOn(v.Y, other), v.Op == want && fieldOn(v.X, recv) == df, kv.Pos()})
				case *ast.CallExpr:
					if rx, m := core.MethodCall(info, v); rx != nil && len(v.Args) == 1 {
						recs[df] = append(recs[df], rec{fieldOn(v.Args[0], other), m == mname && fieldOn(rx, recv) == df, kv.Pos()})
					}
				default:
					recs[df] = append(recs[df], rec{nil, false, kv.Pos()})
				}
			}
		}
		return true
	})
	for _, fld := range structFields(T) {
		key := fmt.Sprintf("%s.%s:field:%s", core.RelPkg(f.Pkg.PkgPath), name, fld.Name())
		rs := recs[fld]
		switch {
		case len(rs) == 0:
			r.Check(rule, key, p.Rel(f.Decl.Pos()), false, fmt.Sprintf("%s never combines field %s: it is lost whenever two values are merged", name, fld.Name()))
		case len(rs) > 1:
			r.Check(rule, key, p.Rel(rs[1].pos), false, fmt.Sprintf("%s combines field %s %d times: it is counted more than once per merge", name, fld.Name(), len(rs)))
		case rs[0].src != fld:
			sn := "<not a field of the parameter>"
			if rs[0].src != nil {
				sn = rs[0].src.Name()
			}
			r.Check(rule, key, p.Rel(rs[0].pos), false, fmt.Sprintf("%s combines field %s with %s of the other operand", name, fld.Name(), sn))
		case !rs[0].opOK:
			r.Check(rule, key, p.Rel(rs[0].pos), false, fmt.Sprintf("%s combines field %s with the wrong operation", name, fld.Name()))
		default:
			r.Check(rule, key, p.Rel(rs[0].pos), true, "")
		}
	}
}
