package props

import (
	"fmt"
	"go/ast"
	"go/token"
	"go/types"
	"sort"
	"strings"

	"gpverif/core"
)

func init() {
	register("C14", c14)
	register("C13", c13)
}

const pkgResults = "pkg/results"

// containsTime reports whether t is, or structurally contains, time.Time.
func containsTime(t types.Type, depth int) bool {
	if depth > 4 {
		return false
	}
	if n := core.NamedOf(t); n != nil && n.Obj().Pkg() != nil && n.Obj().Pkg().Path() == "time" && n.Obj().Name() == "Time" {
		return true
	}
	if st, ok := t.Underlying().(*types.Struct); ok {
		for i := 0; i < st.NumFields(); i++ {
			if containsTime(st.Field(i).Type(), depth+1) {
				return true
			}
		}
	}
	return false
}

// ruleTimeEquality: no == / != on values that contain a time.Time inside fn (P11).
func ruleTimeEquality(r *core.Run, p *core.Prog, f *core.Fn) {
	const rule = "time-equality"
	info := f.Info()
	n := 0
	var bad []string
	core.Walk(f.Decl.Body, true, func(x ast.Node) bool {
		b, ok := x.(*ast.BinaryExpr)
		if !ok || (b.Op != token.EQL && b.Op != token.NEQ) {
			return true
		}
		n++
		if t := info.TypeOf(b.X); t != nil && containsTime(t, 0) {
			bad = append(bad, fmt.Sprintf("%s: %s compares time.Time values with %s (also compares location and monotonic reading; equal instants in different zones differ)", p.Rel(b.Pos()), core.Str(b), b.Op))
		}
		return true
	})
	r.Check(rule, f.Where(), p.Rel(f.Decl.Pos()), len(bad) == 0, strings.Join(bad, "; "))
	r.Stat("comparisons_inspected", n)
}

// ruleLexLess: T.Less is a lexicographic chain over all fields of T: a sequence of steps
// `if differs(F) { return less(F) }` and a final `return less(F)`, every step on one field F of
// both operands, all fields of T covered, no field twice.
func ruleLexLess(r *core.Run, p *core.Prog, typ string) {
	const rule = "lexicographic-less"
	f := r.MustFunc(rule, pkgResults, typ+".Less")
	T := p.Type(pkgResults, typ)
	if f == nil || T == nil {
		return
	}
	info := f.Info()
	sig := f.Obj.Type().(*types.Signature)
	recv, other := sig.Recv(), sig.Params().At(0)
	fieldsOf := func(e ast.Node, base *types.Var) map[string]bool {
		m := map[string]bool{}
		core.Walk(e, false, func(x ast.Node) bool {
			if s, ok := x.(*ast.SelectorExpr); ok && core.ObjOf(info, s.X) == base {
				if fv := core.SelField(info, s); fv != nil {
					m[fv.Name()] = true
				}
			}
			return true
		})
		return m
	}
	single := func(e ast.Node) (string, bool) {
		a, b := fieldsOf(e, recv), fieldsOf(e, other)
		if len(a) != 1 || len(b) != 1 {
			return "", false
		}
		for k := range a {
			if b[k] {
				return k, true
			}
		}
		return "", false
	}
	// Path form of a lexicographic chain (indifferent to if-chain / tagless switch / nesting / condition polarity): on every
	// path each test decides whether ONE field of both operands differs; tests found equal are passed, the first test found
	// different ends the path with a return that orders by the same field and the same key expressions; the path on which
	// nothing differs ends with a return ordering by one further field.
	var order []string
	okShape := true
	detail := ""
	g := core.GraphOf(f)
	paths, okP := g.Paths(core.Entry, core.Exit, 5000)
	if !okP {
		okShape, detail = false, "too many paths"
	}
	differs := func(cond ast.Expr, taken bool) (field string, diff bool, kx, ky string, ok bool) {
		fld, ok1 := single(cond)
		if !ok1 {
			return "", false, "", "", false
		}
		if x, y, eq, okE := eqTest(cond, taken); okE {
			return fld, !eq, core.Str(x), core.Str(y), true
		}
		atom, truth := normCond(cond, taken)
		if c, isCall := atom.(*ast.CallExpr); isCall {
			if sel, isSel := c.Fun.(*ast.SelectorExpr); isSel && len(c.Args) == 1 && (sel.Sel.Name == "Equal" || sel.Sel.Name == "EqualFold") {
				return fld, !truth, core.Str(sel.X), core.Str(c.Args[0]), true
			}
		}
		return "", false, "", "", false
	}
	longest := -1
	for _, path := range paths {
		var passed []string
		ended := false
		for i, id := range path {
			n := g.Nodes[id]
			if n == nil {
				continue
			}
			if tk, isC := g.Taken(path, i); isC {
				fld, diff, kx, ky, ok := differs(n.(ast.Expr), tk)
				if !ok {
					okShape, detail = false, fmt.Sprintf("%s: the test %s does not decide whether one field of both operands differs", p.Rel(n.Pos()), core.Str(n.(ast.Expr)))
					continue
				}
				if ended {
					okShape, detail = false, "a field is tested after another was already found different: "+pathLines(p, g, path)
				}
				if diff {
					ended = true
					passed = append(passed, fld+"\x00"+kx+"\x00"+ky)
				} else {
					passed = append(passed, fld)
				}
				continue
			}
			rs, isRet := n.(*ast.ReturnStmt)
			if !isRet || len(rs.Results) != 1 {
				if _, isAssign := n.(*ast.AssignStmt); isAssign {
					continue
				}
				continue
			}
			fr, okR := single(rs)
			if !okR {
				okShape, detail = false, fmt.Sprintf("%s: the return does not order by exactly one field of both operands", p.Rel(rs.Pos()))
				continue
			}
			if ended {
				last := strings.Split(passed[len(passed)-1], "\x00")
				rx, ry := cmpOperands(rs.Results[0])
				if last[0] != fr {
					okShape, detail = false, fmt.Sprintf("a step tests field %s but orders by %s: %s", last[0], fr, pathLines(p, g, path))
				} else if rx == "" || rx != last[1] || ry != last[2] {
					okShape, detail = false, fmt.Sprintf("a step decides 'differs' on (%s, %s) but orders by (%s, %s): values that differ under the first but tie under the second are neither less nor greater, and the remaining fields are never consulted", last[1], last[2], rx, ry)
				}
			} else {
				// nothing differed: the final tie-break
				if len(passed) > longest {
					longest = len(passed)
					order = nil
					for _, q := range passed {
						order = append(order, strings.Split(q, "\x00")[0])
					}
					order = append(order, fr)
				}
			}
		}
	}
	if longest < 0 && okShape {
		okShape, detail = false, "no path on which all tested fields are equal"
	}
	r.Check(rule, typ+".Less:chain-shape", p.Rel(f.Decl.Pos()), okShape, detail)
	seen := map[string]int{}
	for _, o := range order {
		seen[o]++
	}
	for _, fld := range structFields(T) {
		r.Check(rule, typ+".Less:field:"+fld.Name(), p.Rel(f.Decl.Pos()), seen[fld.Name()] == 1,
			fmt.Sprintf("field %s is consulted %d times by %s.Less (order of fields: %v): rows that differ only in an unconsulted field have no defined order", fld.Name(), seen[fld.Name()], typ, order))
	}
	ruleTimeEquality(r, p, f)
	// the abstract table (for the parts that are plain ordered comparisons) must be antisymmetric
	bf := abstractBoolFn(info, f.Decl.Body)
	if bf.undec == "" && len(bf.rels) > 0 {
		bad := ""
		for _, env := range bf.envs() {
			mir := absEnv{rel: map[string]int{}, b: env.b}
			diff := false
			for k, v := range env.rel {
				mir.rel[k] = -v
				if v != 0 {
					diff = true
				}
			}
			hasOpaque := len(bf.bools) > 0
			if hasOpaque {
				continue
			}
			a, b := bf.table[env.key(bf.rels, bf.bools)], bf.table[mir.key(bf.rels, bf.bools)]
			if a && b {
				bad = "Less(a,b) and Less(b,a) both hold for " + env.key(bf.rels, bf.bools)
			}
			if diff && !a && !b {
				bad = "neither Less(a,b) nor Less(b,a) although the operands differ: " + env.key(bf.rels, bf.bools)
			}
		}
		r.Check(rule, typ+".Less:strict-order-on-comparable-fields", p.Rel(f.Decl.Pos()), bad == "", bad)
	}
}

func c14(r *core.Run) {
	r.Expl = "C14 (deterministic ordering, limit keeps the top rows): decides (1) no ordering function of pkg/results compares time.Time values with == / != (instants in different zones); (2) Labels.Less and Attributes.Less are lexicographic chains that consult every field of their struct exactly once, each step testing and ordering by the same field; Row.Less delegates to them; (3) every comparator closure returned by results.By — identified by its (sort key, direction, ascending) position in the switch — orders by the key expression for that position (packets/bytes: sum, received, sent; time: timestamp) applied symmetrically to both rows, with the truth table 'key less -> true, key greater -> false, keys equal -> tie-break by e1.Less(e2)' (mirrored for descending), enumerated exhaustively over the order type of the keys; (4) the sort is applied before the row limit in the engine and in the distributed finaliser. NOT decided: that sort.Sort realises the order (library), permutation invariance as executed, that rows truncated by the CLI were produced by a sorting Runner."
	r.Floor = 40
	r.Rules = append(r.Rules, "time-equality (P11)", "lexicographic-less (P3 compare form)", "sort-closure-table (P7)", "sort-before-limit (P1)")
	p := r.Prog("cgo")
	ruleLexLess(r, p, "Labels")
	ruleLexLess(r, p, "Attributes")
	if f := r.MustFunc("lexicographic-less", pkgResults, "Row.Less"); f != nil {
		ruleTimeEquality(r, p, f)
		info := f.Info()
		calls := map[string]bool{}
		for _, c := range core.Calls(f.Decl.Body, false) {
			calls[core.CallName(info, c)] = true
		}
		r.Check("lexicographic-less", "Row.Less:delegates", p.Rel(f.Decl.Pos()), calls[pkgResults+".Labels.Less"] && calls[pkgResults+".Attributes.Less"], "Row.Less must order by Attributes.Less and, for equal attributes, by Labels.Less")
	}
	c14By(r, p)
	c14SortBeforeLimit(r, p)
}

func c14By(r *core.Run, p *core.Prog) {
	const rule = "sort-closure-table"
	f := r.MustFunc(rule, pkgResults, "By")
	if f == nil {
		return
	}
	ruleTimeEquality(r, p, f)
	info := f.Info()
	sig := f.Obj.Type().(*types.Signature)
	if sig.Params().Len() != 3 {
		r.Undecided(rule, "By:signature", p.Rel(f.Decl.Pos()), "expected By(sort, direction, ascending)")
		return
	}
	pSort, pDir, pAsc := sig.Params().At(0), sig.Params().At(1), sig.Params().At(2)
	wantFields := map[string][]string{
		"SortPackets|DirectionBoth": {"PacketsRcvd", "PacketsSent"}, "SortPackets|DirectionSum": {"PacketsRcvd", "PacketsSent"},
		"SortPackets|DirectionIn": {"PacketsRcvd"}, "SortPackets|DirectionOut": {"PacketsSent"},
		"SortTraffic|DirectionBoth": {"BytesRcvd", "BytesSent"}, "SortTraffic|DirectionSum": {"BytesRcvd", "BytesSent"},
		"SortTraffic|DirectionIn": {"BytesRcvd"}, "SortTraffic|DirectionOut": {"BytesSent"},
		"SortTime|": {"Timestamp"},
	}
	n := 0
	var visit func(list []ast.Stmt, sortC, dirC []string)
	type cmpFn struct {
		Type *ast.FuncType
		Body *ast.BlockStmt
		pos  token.Pos
	}
	closure := func(fl *cmpFn, sortC, dirC []string, asc bool) {
		n++
		if len(dirC) == 0 {
			dirC = []string{""}
		}
		for _, sc := range sortC {
			for _, dc := range dirC {
				id := fmt.Sprintf("By:%s:%s:%s", sc, dc, map[bool]string{true: "asc", false: "desc"}[asc])
				where := p.Rel(fl.pos)
				want, known := wantFields[sc+"|"+dc]
				if !known {
					r.Check(rule, id, where, false, "no documented sort key for this (sort, direction) position")
					continue
				}
				if len(fl.Type.Params.List) == 0 {
					continue
				}
				var e1, e2 types.Object
				var ps []types.Object
				for _, fld := range fl.Type.Params.List {
					for _, nm := range fld.Names {
						ps = append(ps, info.Defs[nm])
					}
				}
				if len(ps) != 2 {
					r.Undecided(rule, id, where, "closure arity")
					continue
				}
				e1, e2 = ps[0], ps[1]
				bf := abstractBoolFn(info, fl.Body)
				if bf.undec != "" {
					r.Undecided(rule, id, where, bf.undec)
					continue
				}
				// classify atoms
				var tie, eqAtom, ltAtom, gtAtom string
				for _, b := range bf.bools {
					switch {
					case strings.HasSuffix(b, e1.Name()+".Less("+e2.Name()+")"):
						tie = b + "|fwd"
					case strings.HasSuffix(b, e2.Name()+".Less("+e1.Name()+")"):
						tie = b + "|rev"
					case strings.Contains(b, ".Equal("):
						eqAtom = b
					case strings.Contains(b, ".Before("):
						ltAtom = b
					case strings.Contains(b, ".After("):
						gtAtom = b
					}
				}
				fieldsIn := func(e ast.Expr, base types.Object) []string {
					m := map[string]bool{}
					onlyBase := true
					e = resolveLocal(info, fl.Body, e) // a key hoisted into a local of the comparator
					core.Walk(e, false, func(x ast.Node) bool {
						if id, ok := x.(*ast.Ident); ok {
							if o := info.Uses[id]; o == e1 || o == e2 {
								if o != base {
									onlyBase = false
								}
							}
						}
						if s, ok := x.(*ast.SelectorExpr); ok {
							if fv := core.SelField(info, s); fv != nil {
								if _, isStruct := fv.Type().Underlying().(*types.Struct); !isStruct || fv.Name() == "Timestamp" {
									m[fv.Name()] = true
								}
							}
						}
						return true
					})
					var out []string
					for k := range m {
						out = append(out, k)
					}
					sort.Strings(out)
					if !onlyBase {
						out = append(out, "<mixes both rows>")
					}
					return out
				}
				keyOK, keyDetail := true, ""
				bad := ""
				if len(bf.rels) == 1 && eqAtom == "" {
					k := bf.rels[0]
					fx, fy := fieldsIn(bf.relX[k], e1), fieldsIn(bf.relY[k], e2)
					if strings.Join(fx, ",") != strings.Join(want, ",") || strings.Join(fy, ",") != strings.Join(want, ",") {
						keyOK, keyDetail = false, fmt.Sprintf("orders by %v of the first row against %v of the second; the key for (%s,%s) is %v of both", fx, fy, sc, dc, want)
					}
					for _, env := range bf.envs() {
						v := bf.table[env.key(bf.rels, bf.bools)]
						rel := env.rel[k]
						var wantV bool
						switch {
						case rel == 0 && tie != "":
							wantV = env.b[strings.Split(tie, "|")[0]]
						case rel == 0:
							wantV = false
						default:
							wantV = (rel < 0) == asc
						}
						if v != wantV {
							bad = fmt.Sprintf("key %s: closure yields %v, want %v", map[int]string{-1: "less", 0: "equal", 1: "greater"}[rel], v, wantV)
						}
					}
				} else if eqAtom != "" && (ltAtom != "" || gtAtom != "") && len(bf.rels) == 0 {
					// time form: Equal / Before / After on the key
					cmpAtom := ltAtom
					if !asc {
						cmpAtom = gtAtom
					}
					if cmpAtom == "" {
						bad = "ascending order must use Before, descending After"
					}
					for _, a := range []string{eqAtom, cmpAtom} {
						if a != "" && !strings.Contains(a, "Timestamp") {
							keyOK, keyDetail = false, "time sort must compare Labels.Timestamp"
						}
					}
					for _, env := range bf.envs() {
						v := bf.table[env.key(bf.rels, bf.bools)]
						var wantV bool
						if env.b[eqAtom] {
							if tie == "" {
								wantV = false
							} else {
								wantV = env.b[strings.Split(tie, "|")[0]]
							}
						} else {
							wantV = env.b[cmpAtom]
						}
						if v != wantV && bad == "" {
							bad = "truth table differs from 'equal -> tie-break, else before/after'"
						}
					}
				} else {
					bad = fmt.Sprintf("unrecognised comparator shape (relations %v, atoms %v)", bf.rels, bf.bools)
				}
				tieOK := tie != "" && strings.HasSuffix(tie, map[bool]string{true: "|fwd", false: "|rev"}[asc])
				r.Check(rule, id+":key", where, keyOK, keyDetail)
				r.Check(rule, id+":table", where, bad == "", bad)
				r.Check(rule, id+":tie-break", where, tieOK, "equal keys must be ordered by e1.Less(e2) when ascending and e2.Less(e1) when descending, so that ties have a fixed order")
			}
		}
	}
	// every closure is identified by the path that returns it: the sort-key constant and the direction constant found equal
	// on the path (switch cases or == tests) and the outcome of the test of `ascending` (any polarity, any branch order)
	g := core.GraphOf(f)
	cases := enumTests(f.Decl.Body)
	paths, okP := g.Paths(core.Entry, core.Exit, 20000)
	if !okP {
		r.Undecided(rule, "By:paths", p.Rel(f.Decl.Pos()), "too many paths")
		return
	}
	seenPos := map[string]bool{}
	for _, path := range paths {
		sc, dc := "", ""
		asc, ascKnown := false, false
		for i, id := range path {
			nd := g.Nodes[id]
			if nd == nil {
				continue
			}
			if tk, isC := g.Taken(path, i); isC {
				if subj, k, eq, ok := enumCond(cases, nd, tk); ok && eq {
					if o := core.ObjOf(info, selOrIdent(k)); o != nil {
						switch core.ObjOf(info, subj) {
						case pSort:
							sc = o.Name()
						case pDir:
							dc = o.Name()
						}
					}
					continue
				}
				if atom, truth := normCond(nd.(ast.Expr), tk); core.ObjOf(info, atom) == pAsc {
					asc, ascKnown = truth, true
				}
				continue
			}
			if rs, ok := nd.(*ast.ReturnStmt); ok && len(rs.Results) == 1 {
				var fl *cmpFn
				switch rv := ast.Unparen(resolveLocal(info, f.Decl.Body, rs.Results[0])).(type) {
				case *ast.FuncLit:
					fl = &cmpFn{rv.Type, rv.Body, rv.Pos()}
				case *ast.Ident:
					if fo, ok := info.Uses[rv].(*types.Func); ok {
						if h := p.FnOf(fo); h != nil {
							fl = &cmpFn{h.Decl.Type, h.Decl.Body, h.Decl.Pos()}
						}
					}
				}
				if fl == nil || sc == "" || !ascKnown {
					continue
				}
				key := fmt.Sprintf("%d|%s|%s|%v", fl.pos, sc, dc, asc)
				if seenPos[key] {
					continue
				}
				seenPos[key] = true
				var dcs []string
				if dc != "" {
					dcs = []string{dc}
				}
				closure(fl, []string{sc}, dcs, asc)
			}
		}
	}
	_ = visit
	if n < 18 {
		r.Undecided(rule, "By:closures", p.Rel(f.Decl.Pos()), fmt.Sprintf("only %d (sort key, direction, ascending) positions with a comparator closure recognised (18 on the reference tree)", n))
	}
}

func c14SortBeforeLimit(r *core.Run, p *core.Prog) {
	const rule = "sort-before-limit"
	// distributed finaliser: rows sorted -> PostProcess -> truncation
	if f := r.MustFunc(rule, "cmd/global-query/pkg/distributed", "finalizeResult"); f != nil {
		info := f.Info()
		g := core.GraphOf(f)
		fRows := p.FieldObj(pkgResults, "Result", "Rows")
		cl := func(n ast.Node, cond *bool) []ev {
			var out []ev
			for _, c := range core.Calls(n, false) {
				switch core.CallName(info, c) {
				case pkgResults + ".RowsMap.ToRowsSortedTo", pkgResults + ".RowsMap.ToRowsSorted", pkgResults + ".by.Sort":
					out = append(out, ev{label: "sort"})
				case pkgResults + ".RowsMap.ToRows", pkgResults + ".RowsMap.ToRowsTo":
					out = append(out, ev{label: "unsorted-rows"})
				case "pkg/query.Statement.PostProcess":
					out = append(out, ev{label: "postprocess"})
				}
			}
			if a, ok := n.(*ast.AssignStmt); ok && len(a.Lhs) == 1 && len(a.Rhs) == 1 && core.SelField(info, a.Lhs[0]) == fRows {
				rhs := resolveLocal(info, f.Decl.Body, a.Rhs[0])
				if _, ok := ast.Unparen(rhs).(*ast.SliceExpr); ok {
					out = append(out, ev{label: "truncate"})
				} else if c, ok := ast.Unparen(rhs).(*ast.CallExpr); ok {
					// a helper that returns a prefix of the rows it is given
					if fo, ok := core.Callee(info, c).(*types.Func); ok {
						if h := p.FnOf(fo); h != nil {
							core.Walk(h.Decl.Body, false, func(x ast.Node) bool {
								if rs, ok := x.(*ast.ReturnStmt); ok && len(rs.Results) >= 1 {
									if _, ok := ast.Unparen(rs.Results[0]).(*ast.SliceExpr); ok {
										out = append(out, ev{label: "truncate"})
										return false
									}
								}
								return true
							})
						}
					}
				}
			}
			return out
		}
		ts, ok := traces(f, g, cl, 2000)
		bad, nT := "", 0
		if ok {
			for _, t := range ts {
				if t.has("unsorted-rows") {
					bad = "rows are taken from the map unsorted: " + pathLines(p, g, t.path)
				}
				if t.has("truncate") {
					nT++
					if !t.has("sort") || t.first("sort") > t.first("truncate") {
						bad = "rows are truncated to the limit before they were sorted: " + pathLines(p, g, t.path)
					}
				}
				if t.has("postprocess") && (!t.has("sort") || t.first("sort") > t.first("postprocess")) {
					bad = "post-processing (which applies the row limit) runs on unsorted rows: " + pathLines(p, g, t.path)
				}
			}
		}
		r.Check(rule, "distributed.finalizeResult", p.Rel(f.Decl.Pos()), ok && bad == "" && nT > 0, bad)
	}
	// engine: sort of rs precedes result.Rows = rs
	if f := r.MustFunc(rule, "pkg/goDB/engine", "QueryRunner.RunStatement"); f != nil {
		info := f.Info()
		fRows := p.FieldObj(pkgResults, "Result", "Rows")
		var sortPos, assignPos token.Pos
		var sortedVar, assignedVar types.Object
		core.Walk(f.Decl.Body, false, func(x ast.Node) bool {
			if c, ok := x.(*ast.CallExpr); ok && core.CallName(info, c) == pkgResults+".by.Sort" && len(c.Args) == 1 {
				sortPos, sortedVar = c.Pos(), core.ObjOf(info, c.Args[0])
			}
			if a, ok := x.(*ast.AssignStmt); ok && len(a.Lhs) == 1 && core.SelField(info, a.Lhs[0]) == fRows {
				assignPos, assignedVar = a.Pos(), core.ObjOf(info, a.Rhs[0])
			}
			return true
		})
		okE := sortPos.IsValid() && assignPos.IsValid() && sortedVar != nil && sortedVar == assignedVar
		if okE {
			g := core.GraphOf(f)
			var sn, an int = -1, -1
			for id, n := range g.Nodes {
				if n != nil && n.Pos() <= sortPos && sortPos < n.End() {
					sn = id
				}
				if n != nil && n.Pos() <= assignPos && assignPos < n.End() {
					an = id
				}
			}
			okE = sn >= 0 && an >= 0 && g.Dominated(an, map[int]bool{sn: true})
		}
		r.Check(rule, "engine.RunStatement", p.Rel(f.Decl.Pos()), okE, "the rows handed to the result must be the slice that was sorted by results.By(stmt…), on every path")
	}
}

func c13(r *core.Run) {
	r.Expl = "C13 (time binning conserves traffic, one aligned row per bin): decides that TimeBinner.BinTime passes every input row through exactly one MergeRow per loop iteration (no skipped row), that on every path on which a row's timestamp is non-zero its label is rebuilt with time.Unix from the binned Unix value before it is merged (one canonical location, so the struct-equality map key is instant equality and equal bins collapse), that output rows are taken only from the map, sorted; that RowsMap.MergeRow adds counters with Counters.Add (all four fields); and that a user bin size is assigned only behind the >= 5m and multiple-of-5m guards. NOT decided: the ceiling arithmetic of BinTimestamp, idempotence, CalcTimeBinSize."
	r.Floor = 8
	r.Rules = append(r.Rules, "binning-path-rule (P2)", "field-coverage", "guarded-assignment (P1)")
	p := r.Prog("cgo")
	const rule = "binning-path-rule"
	if f := r.MustFunc(rule, pkgResults, "TimeBinner.BinTime"); f != nil {
		info := f.Info()
		var loop *ast.RangeStmt
		fRows := p.FieldObj(pkgResults, "Result", "Rows")
		core.Walk(f.Decl.Body, false, func(x ast.Node) bool {
			if rs, ok := x.(*ast.RangeStmt); ok && loop == nil && core.SelField(info, rs.X) == fRows {
				loop = rs
			}
			return true
		})
		if loop == nil {
			r.Undecided(rule, "BinTime:row-loop", p.Rel(f.Decl.Pos()), "no loop over res.Rows")
		} else {
			g := core.NewGraph(info, loop.Body)
			fTS := p.FieldObj(pkgResults, "Labels", "Timestamp")
			var merged types.Object
			var mergeArgHelper *core.Fn
			// label events, readable in BinTime's loop body or in a helper that prepares the row
			labelEvents := func(ci *types.Info, n ast.Node, cond *bool) []ev {
				var out []ev
				if cond != nil {
					e, truth := normCond(n.(ast.Expr), *cond)
					if c, ok := e.(*ast.CallExpr); ok {
						if _, m := core.MethodCall(ci, c); m == "IsZero" && core.MentionsField(ci, c, fTS) {
							out = append(out, ev{label: map[bool]string{true: "ts-zero", false: "ts-set"}[truth]})
						}
					}
				}
				if a, ok := n.(*ast.AssignStmt); ok && len(a.Lhs) == 1 && core.SelField(ci, a.Lhs[0]) == fTS {
					if c, ok := ast.Unparen(a.Rhs[0]).(*ast.CallExpr); ok && core.CallName(ci, c) == "time.Unix" {
						out = append(out, ev{label: "relabel-unix", node: a})
					} else {
						out = append(out, ev{label: "relabel-other", node: a})
					}
				}
				return out
			}
			cl := func(n ast.Node, cond *bool) []ev {
				out := labelEvents(info, n, cond)
				for _, c := range core.Calls(n, false) {
					if core.CallName(info, c) == pkgResults+".RowsMap.MergeRow" && len(c.Args) == 1 {
						merged = core.ObjOf(info, c.Args[0])
						if hc, ok := ast.Unparen(c.Args[0]).(*ast.CallExpr); ok {
							if fo, ok := core.Callee(info, hc).(*types.Func); ok {
								if h := p.FnOf(fo); h != nil {
									mergeArgHelper = h
									merged = fo
								}
							}
						}
						out = append(out, ev{label: "merge", node: c})
					}
				}
				if b, ok := n.(*ast.BranchStmt); ok && (b.Tok == token.CONTINUE || b.Tok == token.BREAK) {
					out = append(out, ev{label: "skip"})
				}
				return out
			}
			fake := &core.Fn{Prog: p, Pkg: f.Pkg, Decl: &ast.FuncDecl{Body: loop.Body, Name: f.Decl.Name, Type: &ast.FuncType{}}, Obj: f.Obj, Name: f.Name}
			ts, ok := traces(fake, g, cl, 2000)
			bad := ""
			if ok {
				for _, t := range ts {
					if t.count("merge") != 1 || t.has("skip") {
						bad = fmt.Sprintf("an iteration merges its row %d times (skip=%v): traffic is lost or duplicated: %s", t.count("merge"), t.has("skip"), pathLines(p, g, t.path))
					}
					if t.has("relabel-other") {
						bad = "the binned label is not built with time.Unix: " + pathLines(p, g, t.path)
					}
					if mergeArgHelper == nil && t.has("ts-set") && (!t.has("relabel-unix") || t.first("relabel-unix") > t.first("merge")) {
						bad = "a row with a timestamp is merged without its label having been rebuilt by time.Unix(binned, 0): labels of one bin can differ in location and split the bin: " + pathLines(p, g, t.path)
					}
					if mergeArgHelper == nil && !t.has("ts-set") && !t.has("ts-zero") {
						bad = "a row is merged without its timestamp having been examined: " + pathLines(p, g, t.path)
					}
				}
			}
			if ok && mergeArgHelper != nil {
				// the row is prepared by a helper: the same label rule on every path of the helper, up to its return
				h := mergeArgHelper
				hg := core.GraphOf(h)
				hts, hok := traces(h, hg, func(n ast.Node, cond *bool) []ev { return labelEvents(h.Info(), n, cond) }, 2000)
				if !hok {
					ok = false
				}
				nSet := 0
				for _, t := range hts {
					if t.has("relabel-other") {
						bad = "the binned label is not built with time.Unix: " + pathLines(p, hg, t.path)
					}
					if t.has("ts-set") {
						nSet++
						if !t.has("relabel-unix") {
							bad = "a row with a timestamp is returned for merging without its label having been rebuilt by time.Unix(binned, 0): " + pathLines(p, hg, t.path)
						}
					} else if !t.has("ts-zero") {
						bad = "a row is prepared for merging without its timestamp having been examined: " + pathLines(p, hg, t.path)
					}
				}
				if nSet == 0 && bad == "" {
					bad = h.Name + " never relabels a row"
				}
			}
			r.Check(rule, "BinTime:every-row-merged-once-with-canonical-label", p.Rel(loop.Pos()), ok && bad == "" && merged != nil, bad)
		}
		// output rows only from the map, sorted
		okOut := false
		core.Walk(f.Decl.Body, false, func(x ast.Node) bool {
			if a, ok := x.(*ast.AssignStmt); ok && len(a.Lhs) == 1 && core.SelField(info, a.Lhs[0]) == fRows {
				if c, ok := ast.Unparen(a.Rhs[0]).(*ast.CallExpr); ok {
					cn := core.CallName(info, c)
					okOut = cn == pkgResults+".RowsMap.ToRowsSortedTo" || cn == pkgResults+".RowsMap.ToRowsSorted"
				}
			}
			return true
		})
		r.Check(rule, "BinTime:rows-from-map-sorted", p.Rel(f.Decl.Pos()), okOut, "res.Rows must be replaced by the sorted contents of the re-aggregation map")
	}
	// MergeRow adds with Counters.Add
	if f := r.MustFunc(rule, pkgResults, "RowsMap.MergeRow"); f != nil {
		info := f.Info()
		add, assign := false, false
		core.Walk(f.Decl.Body, false, func(x ast.Node) bool {
			if c, ok := x.(*ast.CallExpr); ok && core.CallName(info, c) == "pkg/types.Counters.Add" {
				add = true
			}
			if a, ok := x.(*ast.AssignStmt); ok {
				if _, ok := ast.Unparen(a.Lhs[0]).(*ast.IndexExpr); ok {
					assign = true
				}
			}
			return true
		})
		r.Check(rule, "MergeRow:additive", p.Rel(f.Decl.Pos()), add && assign, "rows with an existing key must be combined with Counters.Add and stored back")
	}
	ruleAccumulate(r, p, "pkg/types", "Counters.Add", token.ADD_ASSIGN)
	// bin size guards in args
	c13BinGuards(r, p)
}

func c13BinGuards(r *core.Run, p *core.Prog) {
	const rule = "guarded-assignment"
	var target *core.Fn
	fBin := p.FieldObj("pkg/query", "Statement", "TimeBinSize")
	if fBin == nil {
		r.Missing(rule, "query.Statement.TimeBinSize")
		return
	}
	for _, f := range p.Funcs("pkg/query") {
		info := f.Info()
		core.Walk(f.Decl.Body, false, func(x ast.Node) bool {
			if a, ok := x.(*ast.AssignStmt); ok {
				for _, l := range a.Lhs {
					if core.SelField(info, l) == fBin && target == nil && strings.Contains(strings.ToLower(f.Name), "time") {
						target = f
					}
				}
			}
			return true
		})
	}
	if target == nil {
		r.Undecided(rule, "TimeBinSize:assignment", "-", "no function of pkg/query assigns Statement.TimeBinSize from a user value")
		return
	}
	info := target.Info()
	g := core.GraphOf(target)
	// assignments whose RHS is a parsed duration variable (not a constant / CalcTimeBinSize result)
	n := 0
	for id, node := range g.Nodes {
		a, ok := node.(*ast.AssignStmt)
		if !ok {
			continue
		}
		for i, l := range a.Lhs {
			if core.SelField(info, l) != fBin || i >= len(a.Rhs) {
				continue
			}
			v := core.ObjOf(info, a.Rhs[i])
			if v == nil {
				continue // constant or computed by CalcTimeBinSize
			}
			// an assignment under `v == <constant>` stores a known value: nothing to guard
			pinned := false
			for gid, gn := range g.Nodes {
				ce, ok := gn.(ast.Expr)
				if !ok || len(g.Succ[gid]) != 2 {
					continue
				}
				if b, ok := core.BinOp(ce, token.EQL); ok && core.ObjOf(info, b.X) == v {
					if _, isC := info.Types[b.Y]; isC && info.Types[b.Y].Value != nil {
						_, elseN, _ := g.CondEdges(gid)
						if g.Dominated(id, map[int]bool{gid: true}) && !g.Reach(elseN, id, map[int]bool{gid: true}) {
							pinned = true
						}
					}
				}
			}
			if pinned {
				continue
			}
			n++
			hasMin, hasMod := false, false
			for gid, gn := range g.Nodes {
				ce, ok := gn.(ast.Expr)
				if !ok || len(g.Succ[gid]) != 2 || !core.MentionsObj(info, ce, v) {
					continue
				}
				thenN, _, _ := g.CondEdges(gid)
				if !(g.Dominated(id, map[int]bool{gid: true}) && !g.Reach(thenN, id, map[int]bool{gid: true})) {
					continue
				}
				for _, d := range core.Conjuncts(ce, true) {
					if b, ok := core.BinOp(d, token.LSS); ok && core.ObjOf(info, b.X) == v {
						hasMin = true
					}
					if b, ok := core.BinOp(d, token.NEQ); ok {
						if m, ok := core.BinOp(b.X, token.REM); ok && core.ObjOf(info, m.X) == v {
							hasMod = true
						}
					}
				}
			}
			r.Check(rule, target.Name+":bin-size-minimum", p.Rel(a.Pos()), hasMin, "a user-supplied bin size must be rejected when below the 5 minute resolution before it is stored")
			r.Check(rule, target.Name+":bin-size-multiple", p.Rel(a.Pos()), hasMod, "a user-supplied bin size must be rejected unless it is a multiple of the 5 minute resolution before it is stored")
		}
	}
	if n == 0 {
		r.Undecided(rule, target.Name+":user-bin-size", p.Rel(target.Decl.Pos()), "no assignment of a parsed duration to TimeBinSize found")
	}
}

// cmpOperands returns the rendered operands (X, Y) of a comparison: X op Y, X.M(Y), !X.M(Y).
func cmpOperands(e ast.Expr) (string, string) {
	e = ast.Unparen(e)
	if u, ok := e.(*ast.UnaryExpr); ok && u.Op == token.NOT {
		e = ast.Unparen(u.X)
	}
	switch x := e.(type) {
	case *ast.BinaryExpr:
		return core.Str(x.X), core.Str(x.Y)
	case *ast.CallExpr:
		if sel, ok := x.Fun.(*ast.SelectorExpr); ok && len(x.Args) == 1 {
			return core.Str(sel.X), core.Str(x.Args[0])
		}
	}
	return "", ""
}
