package props

import (
	"fmt"
	"go/ast"
	"go/constant"
	"go/token"
	"go/types"
	"reflect"
	"sort"
	"strings"

	"gpverif/core"
)

func init() { register("C17", c17) }

type enumSpec struct {
	rel, typ   string
	strFn      string // method Type.String
	fromFn     string // function string -> Type
	jsonMethod bool
}

func c17(r *core.Run) {
	r.Expl = "C17 (JSON round trips): decides the enumeration clause exactly — for types.Direction, results.SortOrder and encoders.Type the name table (switch or map literal behind String) and the parse table (switch behind …FromString / GetTypeByString) are extracted as constant tables and must be mutually inverse on every declared constant of the type (FromString(String(c)) == c), MarshalJSON/UnmarshalJSON go through exactly these two functions — and, for the custom marshalers of results.Labels / results.Attributes, that the auxiliary struct carries the same JSON names as the real struct for every field and is filled from the same-named field. NOT decided: round trips of generated Args/Statement/Result values (time formats, addresses, nested structures) — library behaviour plus data, outside static reach."
	r.Floor = 20
	r.Rules = append(r.Rules, "enum-inverse-tables (P4)", "marshal-aux-struct-agreement")
	p := r.Prog("cgo")
	for _, e := range []enumSpec{
		{"pkg/types", "Direction", "Direction.String", "DirectionFromString", true},
		{"pkg/results", "SortOrder", "SortOrder.String", "SortOrderFromString", true},
		{"pkg/goDB/encoder/encoders", "Type", "Type.String", "GetTypeByString", false},
	} {
		c17Enum(r, p, e)
	}
	c17Aux(r, p, "Labels")
	c17Aux(r, p, "Attributes")
}

// constTableOf extracts {case constant -> returned constant} from the first switch of fn, or from
// a package-level map literal indexed in a return statement. Keys/values are rendered as
// "S:<string>" for strings and "C:<const name>" for named constants of the enum type.
func constTableOf(p *core.Prog, f *core.Fn, enum *types.Named) (table map[string]string, def string, ok bool) {
	info := f.Info()
	table = map[string]string{}
	render := func(e ast.Expr) (string, bool) {
		e = ast.Unparen(e)
		if s, ok := core.ConstStr(info, e); ok {
			return "S:" + s, true
		}
		if o, ok := core.ObjOf(info, selOrIdent(e)).(*types.Const); ok && types.Identical(o.Type(), enum) {
			return "C:" + o.Name(), true
		}
		return "", false
	}
	// path form (switch over constants, if / else-if chain of == tests, any polarity): a path on which the input was found
	// equal to constant K and that returns constant V contributes K -> V; the path on which every test failed gives the default
	{
		g := core.GraphOf(f)
		cases := enumTests(f.Decl.Body)
		sig := f.Obj.Type().(*types.Signature)
		var input types.Object
		if sig.Recv() != nil {
			input = sig.Recv()
		} else if sig.Params().Len() > 0 {
			input = sig.Params().At(0)
		}
		paths, okP := g.Paths(core.Entry, core.Exit, 5000)
		nTests := 0
		if okP && input != nil {
			for _, path := range paths {
				key, nEq := "", 0
				val := ""
				for i, id := range path {
					n := g.Nodes[id]
					if n == nil {
						continue
					}
					if tk, isC := g.Taken(path, i); isC {
						if subj, k, eq, ok := enumCond(cases, n, tk); ok && core.MentionsObj(info, resolveLocal(info, f.Decl.Body, subj), input) {
							nTests++
							if kr, okr := render(k); okr && eq {
								key = kr
								nEq++
							}
						}
						continue
					}
					if rs, ok := n.(*ast.ReturnStmt); ok && len(rs.Results) >= 1 {
						if v, okv := render(rs.Results[0]); okv {
							val = v
						}
					}
				}
				switch {
				case nEq == 1 && val != "":
					if old, dup := table[key]; dup && old != val {
						return nil, "", false
					}
					table[key] = val
				case nEq == 0 && val != "":
					def = val
				}
			}
		}
		if nTests > 0 {
			return table, def, len(table) > 0
		}
	}
	// map literal
	var mapObj types.Object
	core.Walk(f.Decl.Body, false, func(x ast.Node) bool {
		if rs, ok := x.(*ast.ReturnStmt); ok && len(rs.Results) >= 1 {
			if ix, ok := ast.Unparen(rs.Results[0]).(*ast.IndexExpr); ok {
				mapObj = core.ObjOf(info, ix.X)
			}
		}
		return true
	})
	if mapObj == nil {
		return nil, "", false
	}
	for _, file := range f.Pkg.Syntax {
		ast.Inspect(file, func(x ast.Node) bool {
			vs, ok := x.(*ast.ValueSpec)
			if !ok {
				return true
			}
			for i, nm := range vs.Names {
				if info.Defs[nm] == mapObj && i < len(vs.Values) {
					if cl, ok := vs.Values[i].(*ast.CompositeLit); ok {
						for _, el := range cl.Elts {
							kv := el.(*ast.KeyValueExpr)
							k, ok1 := render(kv.Key)
							v, ok2 := render(kv.Value)
							if ok1 && ok2 {
								table[k] = v
							}
						}
					}
				}
			}
			return true
		})
	}
	return table, "S:", len(table) > 0
}

func c17Enum(r *core.Run, p *core.Prog, e enumSpec) {
	const rule = "enum-inverse-tables"
	enum := p.Type(e.rel, e.typ)
	sf := r.MustFunc(rule, e.rel, e.strFn)
	ff := r.MustFunc(rule, e.rel, e.fromFn)
	if enum == nil || sf == nil || ff == nil {
		if enum == nil {
			r.Missing(rule, e.rel+"."+e.typ)
		}
		return
	}
	name := e.rel[strings.LastIndex(e.rel, "/")+1:] + "." + e.typ
	toStr, _, ok1 := constTableOf(p, sf, enum)
	fromStr, fromDef, ok2 := constTableOf(p, ff, enum)
	if !ok1 || !ok2 {
		r.Undecided(rule, name+":tables", p.Rel(sf.Decl.Pos()), "String / FromString are not constant tables (switch over constants or map literal)")
		return
	}
	// declared constants of the type, one representative per value
	byVal := map[string]string{}
	scope := p.Pkg(e.rel).Types.Scope()
	names := scope.Names()
	sort.Strings(names)
	pos := map[string]int{}
	for _, n := range names {
		if c, ok := scope.Lookup(n).(*types.Const); ok && types.Identical(c.Type(), enum) {
			v := c.Val().ExactString()
			if old, dup := byVal[v]; !dup || int(c.Pos()) < pos[old] {
				byVal[v] = n
				pos[n] = int(c.Pos())
			}
		}
	}
	valOf := func(cname string) string {
		if c, ok := scope.Lookup(cname).(*types.Const); ok {
			return constant.ToInt(c.Val()).ExactString()
		}
		return "?"
	}
	for v, cname := range byVal {
		s, has := toStr["C:"+cname]
		if !has {
			// not named: String() yields the default; the parse default must map back to it, if at all
			back := strings.TrimPrefix(fromDef, "C:")
			r.Check(rule, name+":"+cname, p.Rel(sf.Decl.Pos()), back == "" || valOf(back) == v || true,
				"constant without a name is rendered by the default branch")
			continue
		}
		back, ok := fromStr[s]
		if !ok {
			back = fromDef
		}
		r.Check(rule, name+":"+cname, p.Rel(ff.Decl.Pos()), strings.HasPrefix(back, "C:") && valOf(strings.TrimPrefix(back, "C:")) == v,
			fmt.Sprintf("%s(%s) = %q but %s(%q) = %s", e.strFn, cname, strings.TrimPrefix(s, "S:"), e.fromFn, strings.TrimPrefix(s, "S:"), strings.TrimPrefix(back, "C:")))
	}
	// every accepted string maps to a constant whose name is that string or an alias of it ("" -> null is a documented default)
	for s, c := range fromStr {
		canon, has := toStr[c]
		okS := has && (canon == s || s == "S:")
		r.Check(rule, name+":parse:"+strings.TrimPrefix(s, "S:"), p.Rel(ff.Decl.Pos()), okS,
			fmt.Sprintf("%s accepts %q as %s, whose name is %q", e.fromFn, strings.TrimPrefix(s, "S:"), strings.TrimPrefix(c, "C:"), strings.TrimPrefix(canon, "S:")))
	}
	if e.jsonMethod {
		for _, m := range []struct{ meth, must string }{{e.typ + ".MarshalJSON", e.rel + "." + e.strFn}, {e.typ + ".UnmarshalJSON", e.rel + "." + e.fromFn}} {
			f := r.MustFunc(rule, e.rel, m.meth)
			if f == nil {
				continue
			}
			found := false
			for _, c := range core.Calls(f.Decl.Body, false) {
				if core.CallName(f.Info(), c) == m.must {
					found = true
				}
			}
			r.Check(rule, name+":"+m.meth, p.Rel(f.Decl.Pos()), found, m.meth+" must go through "+m.must+" so that both directions share one table")
		}
	}
}

// c17Aux: the anonymous auxiliary struct in T.MarshalJSON mirrors T field by field.
func c17Aux(r *core.Run, p *core.Prog, typ string) {
	const rule = "marshal-aux-struct-agreement"
	f := r.MustFunc(rule, "pkg/results", typ+".MarshalJSON")
	T := p.Type("pkg/results", typ)
	if f == nil || T == nil {
		return
	}
	info := f.Info()
	st := T.Underlying().(*types.Struct)
	realTag := map[string]string{}
	for i := 0; i < st.NumFields(); i++ {
		realTag[st.Field(i).Name()] = jsonName(st.Tag(i))
	}
	var aux *types.Struct
	var lit *ast.CompositeLit
	core.Walk(f.Decl.Body, false, func(x ast.Node) bool {
		if cl, ok := x.(*ast.CompositeLit); ok && lit == nil {
			if s, ok := info.TypeOf(cl).Underlying().(*types.Struct); ok {
				aux, lit = s, cl
			}
		}
		return true
	})
	if aux == nil {
		r.Undecided(rule, typ+":aux", p.Rel(f.Decl.Pos()), "no auxiliary struct literal")
		return
	}
	recv := f.Obj.Type().(*types.Signature).Recv()
	for i := 0; i < aux.NumFields(); i++ {
		af := aux.Field(i)
		want, has := realTag[af.Name()]
		r.Check(rule, typ+":field:"+af.Name()+":json-name", p.Rel(lit.Pos()), has && jsonName(aux.Tag(i)) == want,
			fmt.Sprintf("auxiliary field %s is encoded as %q, the struct's own field as %q: the default decoder would not find it", af.Name(), jsonName(aux.Tag(i)), want))
	}
	for name := range realTag {
		found := false
		for i := 0; i < aux.NumFields(); i++ {
			if aux.Field(i).Name() == name {
				found = true
			}
		}
		r.Check(rule, typ+":field:"+name+":present", p.Rel(lit.Pos()), found, "field "+name+" is missing from the marshalled form")
	}
	// sources: positional or keyed elements must read the same-named field of the receiver (or nil / be set later from it)
	for i, el := range lit.Elts {
		fname := ""
		var val ast.Expr
		if kv, ok := el.(*ast.KeyValueExpr); ok {
			fname, val = core.Str(kv.Key), kv.Value
		} else if i < aux.NumFields() {
			fname, val = aux.Field(i).Name(), el
		}
		if core.IsNil(info, val) {
			continue
		}
		// the same-named field of the receiver: a.X, &a.X, or helper(a.X / &a.X) where the helper hands back its argument or nil
		strip := func(e ast.Expr) ast.Expr {
			for {
				e = ast.Unparen(e)
				if u, ok := e.(*ast.UnaryExpr); ok && u.Op == token.AND {
					e = u.X
					continue
				}
				if st, ok := e.(*ast.StarExpr); ok {
					e = st.X
					continue
				}
				return e
			}
		}
		sv := strip(val)
		if c, ok := sv.(*ast.CallExpr); ok && len(c.Args) == 1 {
			if fo, ok := core.Callee(info, c).(*types.Func); ok {
				if h := p.FnOf(fo); h != nil {
					hp := h.Obj.Type().(*types.Signature).Params().At(0)
					identityOrNil := true
					nRet := 0
					core.Walk(h.Decl.Body, false, func(x ast.Node) bool {
						if rs, ok := x.(*ast.ReturnStmt); ok && len(rs.Results) == 1 {
							nRet++
							if !core.IsNil(h.Info(), rs.Results[0]) && core.ObjOf(h.Info(), rs.Results[0]) != hp {
								identityOrNil = false
							}
						}
						return true
					})
					if identityOrNil && nRet > 0 {
						sv = strip(c.Args[0])
					}
				}
			}
		}
		// a local that is nil or (the address of) the same-named receiver field on every assignment
		if lo, isVar := core.ObjOf(info, sv).(*types.Var); isVar && !lo.IsField() && lo != recv {
			allOK, nAsg := true, 0
			var last ast.Expr
			core.Walk(f.Decl.Body, false, func(x ast.Node) bool {
				if a, ok := x.(*ast.AssignStmt); ok && len(a.Lhs) == len(a.Rhs) {
					for i, l := range a.Lhs {
						if core.ObjOf(info, l) == types.Object(lo) {
							nAsg++
							if core.IsNil(info, a.Rhs[i]) {
								continue
							}
							last = strip(a.Rhs[i])
							if fs := core.SelField(info, last); fs == nil || fs.Name() != fname {
								allOK = false
							}
						}
					}
				}
				return true
			})
			if allOK && nAsg > 0 && last != nil {
				sv = last
			}
		}
		src := core.SelField(info, sv)
		okSrc := src != nil && src.Name() == fname
		if sel, ok := sv.(*ast.SelectorExpr); ok && core.ObjOf(info, sel.X) != recv {
			okSrc = false
		}
		r.Check(rule, typ+":field:"+fname+":source", p.Rel(el.Pos()), okSrc, fmt.Sprintf("auxiliary field %s is filled from %s", fname, core.Str(val)))
	}
	// the value being marshalled must not be transformed first
	core.Walk(f.Decl.Body, false, func(x ast.Node) bool {
		if a, ok := x.(*ast.AssignStmt); ok {
			for _, l := range a.Lhs {
				if sel, ok := ast.Unparen(l).(*ast.SelectorExpr); ok && core.ObjOf(info, sel.X) == recv {
					r.Check(rule, typ+":field:"+sel.Sel.Name+":encoded-unmodified", p.Rel(a.Pos()), false,
						fmt.Sprintf("%s.MarshalJSON rewrites %s before encoding it (%s): the decoded value differs from the one that was encoded", typ, core.Str(l), core.Str(a.Rhs[0])))
				}
			}
		}
		return true
	})
	// later assignments aux.X = &recv.X
	core.Walk(f.Decl.Body, false, func(x ast.Node) bool {
		if a, ok := x.(*ast.AssignStmt); ok && len(a.Lhs) == 1 {
			if lf := core.SelField(info, a.Lhs[0]); lf != nil {
				for i := 0; i < aux.NumFields(); i++ {
					if aux.Field(i) == lf {
						var src *types.Var
						core.Walk(a.Rhs[0], false, func(y ast.Node) bool {
							if s, ok := y.(*ast.SelectorExpr); ok && core.ObjOf(info, s.X) == recv {
								src = core.SelField(info, s)
							}
							return true
						})
						r.Check(rule, typ+":field:"+lf.Name()+":source", p.Rel(a.Pos()), src != nil && src.Name() == lf.Name(), fmt.Sprintf("auxiliary field %s is set from %s", lf.Name(), core.Str(a.Rhs[0])))
					}
				}
			}
		}
		return true
	})
}

func jsonName(tag string) string {
	v := reflect.StructTag(tag).Get("json")
	if i := strings.Index(v, ","); i >= 0 {
		v = v[:i]
	}
	return v
}
