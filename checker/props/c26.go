package props

import (
	"fmt"
	"go/ast"
	"go/token"
	"go/types"
	"strings"

	"gpverif/core"
)

func init() { register("C26", c26) }

const pkgCSV = "cmd/gpdb/pkg/csvimport"

func c26(r *core.Run) {
	r.Expl = "C26 (CSV import stores what it reports): decides (1) rows are accumulated with the additive map API only — package csvimport never calls the overwriting Map.Set — and the counters are handed to SetOrUpdate in the callee's positional order; (2) on every path through one iteration of the row loop, after RowsRead++ exactly one of RowsImported++ / RowsSkipped++ happens, or the function returns an error; a row counted as imported was inserted, a skipped one was not; (3) the non-decreasing-timestamp test precedes the insertion on every path and its failing branch returns an error; (4) pending blocks are flushed in ascending timestamp order (sorted before writing) and flushAll runs before the success return, its error propagating; write errors of a block abort the import. NOT decided: that the stored rows equal the file's rows as values, IP-version retry of parseKey, schema parsing."
	r.Floor = 10
	r.Rules = append(r.Rules, "who-may-call (P10)", "row-accounting path rule (P2)", "guard-before-insert (P1)", "flush-order", "counter-positions")
	p := r.Prog("cgo")
	// (1) no Map.Set in the package
	n := 0
	for _, fn := range p.Funcs(pkgCSV) {
		for _, c := range core.Calls(fn.Decl.Body, true) {
			cn := core.CallName(fn.Info(), c)
			if strings.HasPrefix(cn, pkgHashmap+".") {
				n++
				r.Check("who-may-call", fmt.Sprintf("%s:%s", fn.Where(), cn), p.Rel(c.Pos()), cn != pkgHashmap+".Map.Set",
					"rows that share interface, timestamp and flow key must be summed: Map.Set replaces the earlier row while both are counted as imported")
			}
		}
	}
	if n == 0 {
		r.Undecided("who-may-call", "csvimport:hashmap-calls", "-", "package csvimport does not touch the flow map API at all")
	}
	m := ruleSetOrUpdateMapping(r, p)
	ruleSetOrUpdateSites(r, p, m, pkgCSV)
	c26Loop(r, p)
	c26Flush(r, p)
}

func c26Loop(r *core.Run, p *core.Prog) {
	const rule = "row-accounting"
	f := r.MustFunc(rule, pkgCSV, "Import")
	if f == nil {
		return
	}
	info := f.Info()
	fRead := p.FieldObj(pkgCSV, "Summary", "RowsRead")
	fImp := p.FieldObj(pkgCSV, "Summary", "RowsImported")
	fSkip := p.FieldObj(pkgCSV, "Summary", "RowsSkipped")
	var loop *ast.ForStmt
	core.Walk(f.Decl.Body, false, func(x ast.Node) bool {
		if fs, ok := x.(*ast.ForStmt); ok && loop == nil && core.MentionsField(info, fs.Body, fRead) {
			loop = fs
		}
		return true
	})
	if loop == nil || fRead == nil || fImp == nil || fSkip == nil {
		r.Undecided(rule, "Import:row-loop", p.Rel(f.Decl.Pos()), "row loop / Summary counters not found")
		return
	}
	g := core.NewGraph(info, loop.Body)
	cl := func(n ast.Node, cond *bool) []ev {
		var out []ev
		if inc, ok := n.(*ast.IncDecStmt); ok && inc.Tok == token.INC {
			switch core.SelField(info, inc.X) {
			case fRead:
				out = append(out, ev{label: "read"})
			case fImp:
				out = append(out, ev{label: "imported"})
			case fSkip:
				out = append(out, ev{label: "skipped"})
			}
		}
		for _, c := range core.Calls(n, false) {
			cn := core.CallName(info, c)
			if strings.HasPrefix(cn, pkgHashmap+".") && (strings.HasSuffix(cn, ".SetOrUpdate") || strings.HasSuffix(cn, ".Set")) {
				out = append(out, ev{label: "insert", node: c})
			}
		}
		if cond != nil {
			if b, ok := core.BinOp(n.(ast.Expr), token.LSS); ok && strings.Contains(strings.ToLower(core.Str(b.X)), "timestamp") && strings.Contains(strings.ToLower(core.Str(b.Y)), "timestamp") {
				// the high-water mark must be one scalar for the whole input (not kept per interface / per key)
				if o := core.ObjOf(info, b.Y); o != nil && o.Pos() < loop.Pos() {
					out = append(out, ev{label: map[bool]string{true: "time-regression", false: "time-ok"}[*cond]})
				} else {
					out = append(out, ev{label: "partial-time-test"})
				}
			}
		}
		if _, ok := n.(*ast.ReturnStmt); ok {
			out = append(out, ev{label: "return"})
		}
		if b, ok := n.(*ast.BranchStmt); ok && b.Tok == token.BREAK {
			out = append(out, ev{label: "break"})
		}
		return out
	}
	fake := &core.Fn{Prog: p, Pkg: f.Pkg, Decl: &ast.FuncDecl{Body: loop.Body, Name: f.Decl.Name, Type: &ast.FuncType{}}, Obj: f.Obj, Name: f.Name}
	ts, ok := traces(fake, g, cl, 50000)
	if !ok {
		r.Undecided(rule, "Import:iteration-paths", p.Rel(loop.Pos()), "too many paths")
		return
	}
	r.Stat("paths_enumerated", len(ts))
	var bAcc, bIns, bReg string
	nIns := 0
	for _, t := range ts {
		if !t.has("read") {
			continue // EOF / cancellation before a row was read
		}
		pl := pathLines(p, g, t.path)
		tot := t.count("imported") + t.count("skipped")
		if t.has("return") {
			if tot > 1 {
				bAcc = "a row is accounted more than once before an error return: " + pl
			}
		} else if tot != 1 {
			bAcc = fmt.Sprintf("a row that was read is counted %d times as imported/skipped (rows read must equal imported plus skipped): %s", tot, pl)
		}
		if t.has("imported") != t.has("insert") && !t.has("return") {
			bIns = fmt.Sprintf("imported=%v but inserted=%v on %s", t.has("imported"), t.has("insert"), pl)
		}
		if t.count("insert") > 1 {
			bIns = "a row is inserted twice: " + pl
		}
		if t.has("insert") {
			nIns++
			if t.has("time-regression") {
				bReg = "a row whose timestamp goes backwards reaches the insertion: " + pl
			}
		}
		if t.has("time-regression") && !t.has("return") {
			bReg = "input that goes backwards in time is not rejected with an error: " + pl
		}
	}
	r.Check(rule, "Import:read-equals-imported-plus-skipped", p.Rel(loop.Pos()), bAcc == "", bAcc)
	r.Check(rule, "Import:imported-iff-inserted", p.Rel(loop.Pos()), bIns == "" && nIns > 0, bIns)
	// the regression test must exist on insertion paths once a timestamp is known: at least one inserting path passes "time-ok"
	sawGuard := false
	for _, t := range ts {
		if t.has("insert") && t.has("time-ok") {
			sawGuard = true
		}
	}
	for _, t := range ts {
		if t.has("partial-time-test") && bReg == "" {
			bReg = "the timestamp of a row is compared with a mark that is re-derived per row (per interface / per key) instead of the single high-water mark of the input: a file whose time goes backwards between rows of different interfaces is accepted: " + pathLines(p, g, t.path)
		}
	}
	r.Check("guard-before-insert", "Import:time-regression-rejected", p.Rel(loop.Pos()), bReg == "" && sawGuard, orStr(bReg, "no `timestamp < currentTimestamp` test on the way to the insertion"))
	// flushAll before the success return
	var fa *ast.CallExpr
	core.Walk(f.Decl.Body, false, func(x ast.Node) bool {
		if c, ok := x.(*ast.CallExpr); ok && core.CallName(info, c) == pkgCSV+".flushAll" {
			fa = c
		}
		return true
	})
	if fa == nil {
		r.Check("flush-order", "Import:flushAll-before-success", p.Rel(f.Decl.Pos()), false, "pending blocks are never flushed at the end of the input")
	} else {
		use, why := core.ErrDisposition(info, f.Decl.Body, fa)
		gf := core.GraphOf(f)
		id := gf.NodeOf(fa)
		okDom := true
		for _, rn := range gf.Returns() {
			rs := gf.Nodes[rn].(*ast.ReturnStmt)
			if len(rs.Results) == 2 && core.IsNil(info, rs.Results[1]) && !gf.Dominated(rn, map[int]bool{id: true}) {
				okDom = false
			}
		}
		r.Check("flush-order", "Import:flushAll-before-success", p.Rel(fa.Pos()), okDom && (use == core.ErrChecked || use == core.ErrReturned), "every success return must be preceded by flushAll whose error aborts ("+why+")")
	}
}

func c26Flush(r *core.Run, p *core.Prog) {
	const rule = "flush-order"
	for _, name := range []string{"flushBeforeTimestamp", "flushAll"} {
		f := r.MustFunc(rule, pkgCSV, name)
		if f == nil {
			continue
		}
		info := f.Info()
		// sort.Slice(timestamps, less ascending) precedes the range over timestamps that writes
		var sorted types.Object
		asc := false
		var sortPos, writePos token.Pos
		var wcall *ast.CallExpr
		core.Walk(f.Decl.Body, true, func(x ast.Node) bool {
			c, ok := x.(*ast.CallExpr)
			if !ok {
				return true
			}
			switch core.CallName(info, c) {
			case "sort.Slice":
				if len(c.Args) == 2 {
					sorted = core.ObjOf(info, c.Args[0])
					sortPos = c.Pos()
					if fl, ok := c.Args[1].(*ast.FuncLit); ok {
						bf := abstractBoolFn(info, fl.Body)
						if bf.undec == "" && len(bf.rels) == 1 && len(bf.bools) == 0 {
							asc = true
							for _, env := range bf.envs() {
								if bf.table[env.key(bf.rels, bf.bools)] != (env.rel[bf.rels[0]] < 0) {
									asc = false
								}
							}
							// operands must be x[i] ~ x[j] in that order
							k := bf.rels[0]
							if !(strings.HasSuffix(core.Str(bf.relX[k]), "[i]") && strings.HasSuffix(core.Str(bf.relY[k]), "[j]")) {
								asc = false
							}
						}
					}
				}
			case "slices.Sort", "sort.Ints":
				sorted, sortPos, asc = core.ObjOf(info, c.Args[0]), c.Pos(), true
			case pkgGoDB + ".DBWriter.Write":
				writePos, wcall = c.Pos(), c
			}
			return true
		})
		okLoop := false
		core.Walk(f.Decl.Body, false, func(x ast.Node) bool {
			if rs, ok := x.(*ast.RangeStmt); ok && sorted != nil && core.ObjOf(info, rs.X) == sorted && writePos > rs.Pos() && writePos < rs.End() && rs.Pos() > sortPos {
				okLoop = true
			}
			return true
		})
		r.Check(rule, name+":blocks-written-in-ascending-time", p.Rel(f.Decl.Pos()), sorted != nil && asc && okLoop, "the timestamps collected from the pending map (random order) must be sorted ascending before the blocks are written: the storage layer rejects / misorders out-of-order blocks")
		if wcall != nil {
			use, why := core.ErrDisposition(info, f.Decl.Body, wcall)
			r.Check(rule, name+":write-error-aborts", p.Rel(wcall.Pos()), use == core.ErrChecked || use == core.ErrReturned, why)
		}
	}
}
