package props

import (
	"fmt"
	"go/ast"
	"go/token"
	"go/types"
	"regexp"
	"sort"
	"strings"

	"gpverif/core"
)

func init() { register("C19", c19) }

func c19(r *core.Run) {
	r.Expl = "C19 (packet parsing extracts the documented key and never panics): decides (1) every constant index / slice bound applied to the IP layer in ParsePacketV4/V6 is dominated by the bounds hint on the fixed header or by a 'len(ipLayer) < L -> classify as truncated and return' guard with L beyond the index; the indices of the common-port table are bounded by the guards in isCommonPort and the table's dimensions; (2) the header offsets used (protocol, addresses, ports, TCP flags, fragment field, ICMP type) equal the RFC 791 / RFC 8200 / RFC 9293 / RFC 768 values (frozen oracle); the EPHash layout constants are contiguous, non-overlapping and sized to the hash; (3) the port section is mirror-symmetric: the statement that stores the source port unless the destination port is a common one and the statement that stores the destination port unless the source port is common are each other's image under source<->destination, so the key of a conversation seen in one direction is the reverse of the key seen in the other; (4) ParsePacketV4 and ParsePacketV6 are siblings up to the documented differences (fragment check, ICMP constant). NOT decided: behaviour for slices shorter than the fixed IP header (precondition on the capture source), the arithmetic of the fragment offset."
	r.Floor = 30
	r.Rules = append(r.Rules, "constant-index-bounds (P1)", "rfc-offset-oracle (P4)", "mirror-statement (P6)", "sibling-agreement (P6)")
	p := r.Prog("cgo")
	for _, v := range []string{"V4", "V6"} {
		c19Bounds(r, p, v)
		c19Mirror(r, p, v)
	}
	c19Oracle(r, p)
	c19CommonPort(r, p)
	c19Siblings(r, p)
	for _, v := range []string{"V4", "V6"} {
		c22Reverse(r, p, v)
	}
}

func c19Bounds(r *core.Run, p *core.Prog, v string) {
	const rule = "constant-index-bounds"
	f := r.MustFunc(rule, pkgCapture, "ParsePacket"+v)
	if f == nil {
		return
	}
	info := f.Info()
	g := core.GraphOf(f)
	layer := f.Obj.Type().(*types.Signature).Params().At(0)
	type guard struct {
		node  int
		limit int64 // indices < limit are safe after this node (on its safe edge)
		cond  bool
	}
	var guards []guard
	for id, n := range g.Nodes {
		switch x := n.(type) {
		case *ast.AssignStmt:
			// _ = ipLayer[K]
			if len(x.Lhs) == 1 && len(x.Rhs) == 1 {
				if lid, ok := x.Lhs[0].(*ast.Ident); ok && lid.Name == "_" {
					if ix, ok := ast.Unparen(x.Rhs[0]).(*ast.IndexExpr); ok && core.ObjOf(info, ix.X) == layer {
						if k, ok := core.ConstInt(info, ix.Index); ok {
							guards = append(guards, guard{id, k + 1, false})
						}
					}
				}
			}
		case ast.Expr:
			if len(g.Succ[id]) == 2 {
				if b, ok := core.BinOp(x, token.LSS); ok {
					if la, ok := lenArg(info, resolveLocal(info, f.Decl.Body, b.X)); ok && core.ObjOf(info, la) == layer {
						if k, ok := core.ConstInt(info, b.Y); ok {
							guards = append(guards, guard{id, k, true})
						}
					}
				}
			}
		}
	}
	n := 0
	for id, node := range g.Nodes {
		if node == nil {
			continue
		}
		nodeID := id
		checkAccess := func(need int64, pos token.Pos, label string) {
			n++
			// the access must be unreachable from entry when every adequate guard only lets its
			// unsafe edge through (hint: nothing; `len < L`: only the branch on which the packet IS too short)
			adequate := map[int]guard{}
			for _, gd := range guards {
				if gd.limit >= need {
					adequate[gd.node] = gd
				}
			}
			ok := true
			if _, self := adequate[nodeID]; !self {
				seen := map[int]bool{core.Entry: true}
				stack := []int{core.Entry}
				for len(stack) > 0 && ok {
					cur := stack[len(stack)-1]
					stack = stack[:len(stack)-1]
					succs := g.Succ[cur]
					if gd, isG := adequate[cur]; isG {
						if !gd.cond {
							continue
						}
						thenN, _, _ := g.CondEdges(cur)
						succs = []int{thenN}
					}
					for _, sx := range succs {
						if sx == nodeID {
							ok = false
							break
						}
						if !seen[sx] {
							seen[sx] = true
							stack = append(stack, sx)
						}
					}
				}
			}
			r.Check(rule, fmt.Sprintf("ParsePacket%s:access-below-%d:%s", v, need, label), p.Rel(pos), ok,
				fmt.Sprintf("the IP layer is accessed up to byte %d without a dominating bounds hint / truncation check of at least that length: a shorter packet panics instead of being classified as truncated", need-1))
		}
		// constant accesses to parameter `par` inside fn (and, one level further, inside helpers it hands the layer to)
		var accesses func(fn *core.Fn, par types.Object, depth int, emit func(need int64, pos token.Pos, label string))
		accesses = func(fn *core.Fn, par types.Object, depth int, emit func(need int64, pos token.Pos, label string)) {
			fi := fn.Info()
			core.Walk(fn.Decl.Body, true, func(x ast.Node) bool {
				switch e := x.(type) {
				case *ast.IndexExpr:
					if core.ObjOf(fi, e.X) == par {
						if k, ok := core.ConstInt(fi, e.Index); ok {
							emit(k+1, e.Pos(), fn.Name+":"+core.Str(e))
						} else {
							r.Undecided(rule, fmt.Sprintf("ParsePacket%s:variable-index:%s:%s", v, fn.Name, core.Str(e)), p.Rel(e.Pos()), "IP layer indexed by a non-constant in a helper")
						}
					}
				case *ast.SliceExpr:
					if core.ObjOf(fi, e.X) == par && e.High != nil {
						if k, ok := core.ConstInt(fi, e.High); ok {
							emit(k, e.Pos(), fn.Name+":"+core.Str(e))
						} else {
							r.Undecided(rule, fmt.Sprintf("ParsePacket%s:variable-slice:%s:%s", v, fn.Name, core.Str(e)), p.Rel(e.Pos()), "IP layer sliced by a non-constant in a helper")
						}
					}
				case *ast.CallExpr:
					if fo, ok := core.Callee(fi, e).(*types.Func); ok && depth < 2 {
						if h := p.FnOf(fo); h != nil {
							hs := h.Obj.Type().(*types.Signature)
							for ai, a := range e.Args {
								if core.ObjOf(fi, a) == par && ai < hs.Params().Len() {
									accesses(h, hs.Params().At(ai), depth+1, emit)
								}
							}
						}
					}
				}
				return true
			})
		}
		core.Walk(node, false, func(x ast.Node) bool {
			var need int64 = -1
			var pos token.Pos
			switch e := x.(type) {
			case *ast.CallExpr:
				if fo, ok := core.Callee(info, e).(*types.Func); ok {
					if h := p.FnOf(fo); h != nil {
						hs := h.Obj.Type().(*types.Signature)
						for ai, a := range e.Args {
							if core.ObjOf(info, a) == layer && ai < hs.Params().Len() {
								accesses(h, hs.Params().At(ai), 1, checkAccess)
							}
						}
					}
				}
			case *ast.IndexExpr:
				if core.ObjOf(info, e.X) == layer {
					if k, ok := core.ConstInt(info, e.Index); ok {
						need, pos = k+1, e.Pos()
					} else {
						r.Undecided(rule, fmt.Sprintf("ParsePacket%s:variable-index:%s", v, core.Str(e)), p.Rel(e.Pos()), "IP layer indexed by a non-constant")
					}
				}
			case *ast.SliceExpr:
				if core.ObjOf(info, e.X) == layer && e.High != nil {
					if k, ok := core.ConstInt(info, e.High); ok {
						need, pos = k, e.Pos()
					} else {
						r.Undecided(rule, fmt.Sprintf("ParsePacket%s:variable-slice:%s", v, core.Str(e)), p.Rel(e.Pos()), "IP layer sliced by a non-constant")
					}
				}
			}
			if need < 0 {
				return true
			}
			checkAccess(need, pos, core.Str(x.(ast.Expr)))
			return true
		})
	}
	if n < 8 {
		r.Undecided(rule, "ParsePacket"+v+":accesses", p.Rel(f.Decl.Pos()), fmt.Sprintf("only %d constant accesses to the IP layer found", n))
	}
	// each truncation guard's failing branch sets errno Truncated and returns
	for _, gd := range guards {
		if !gd.cond {
			continue
		}
		var ifs *ast.IfStmt
		core.Walk(f.Decl.Body, false, func(x ast.Node) bool {
			if s, ok := x.(*ast.IfStmt); ok && ast.Node(s.Cond) == g.Nodes[gd.node] {
				ifs = s
			}
			return true
		})
		okT := false
		if ifs != nil {
			sets, rets := false, false
			for _, st := range ifs.Body.List {
				if a, ok := st.(*ast.AssignStmt); ok && strings.Contains(core.Str(a.Rhs[0]), "ErrnoPacketTruncated") {
					sets = true
				}
				if _, ok := st.(*ast.ReturnStmt); ok {
					rets = true
				}
			}
			okT = sets && rets
		}
		r.Check(rule, fmt.Sprintf("ParsePacket%s:truncation-guard-%d-classifies", v, gd.limit), p.Rel(g.Nodes[gd.node].Pos()), okT, "a packet shorter than the transport header must be classified ErrnoPacketTruncated and not parsed further")
	}
}

// c19Mirror: the two statements of the port section are each other's mirror image.
func c19Mirror(r *core.Run, p *core.Prog, v string) {
	const rule = "mirror-statement"
	f := r.MustFunc(rule, pkgCapture, "ParsePacket"+v)
	if f == nil {
		return
	}
	info := f.Info()
	// the innermost if statements whose body copies into the hash's port slots; rendered canonically (locals inlined,
	// parameters by position) and de-duplicated, so that a port section that was moved into a helper and is expanded at two
	// call sites, or whose conditions were hoisted into locals, reads the same
	cn := newCanon(f)
	var stmts []*ast.IfStmt
	var stray []string
	isPortCopy := func(n ast.Node) bool {
		c, ok := n.(*ast.CallExpr)
		return ok && core.CallName(info, c) == "builtin.copy" && strings.Contains(core.Str(c.Args[0]), "Port")
	}
	directCopy := func(s *ast.IfStmt) bool {
		for _, st := range s.Body.List {
			if es, ok := st.(*ast.ExprStmt); ok && isPortCopy(es.X) {
				return true
			}
		}
		return false
	}
	guardedCopies := map[ast.Node]bool{}
	core.Walk(f.Decl.Body, false, func(x ast.Node) bool {
		if s, ok := x.(*ast.IfStmt); ok && directCopy(s) {
			stmts = append(stmts, s)
			for _, st := range s.Body.List {
				if es, ok := st.(*ast.ExprStmt); ok {
					guardedCopies[es.X] = true
				}
			}
		}
		return true
	})
	core.Walk(f.Decl.Body, false, func(x ast.Node) bool {
		if isPortCopy(x) && !guardedCopies[x] {
			stray = append(stray, p.Rel(x.Pos()))
		}
		return true
	})
	render := func(s *ast.IfStmt) string {
		var sb strings.Builder
		sb.WriteString("if " + cn.cond(s.Cond, true) + " {")
		for _, st := range s.Body.List {
			if es, ok := st.(*ast.ExprStmt); ok {
				sb.WriteString(cn.str(es.X) + ";")
			} else {
				sb.WriteString(fmt.Sprintf("<%T>;", st))
			}
		}
		sb.WriteString("}")
		if s.Else != nil {
			sb.WriteString("else<…>")
		}
		return sb.String()
	}
	{
		seen := map[string]bool{}
		var uniq []*ast.IfStmt
		for _, s := range stmts {
			if k := render(s); !seen[k] {
				seen[k] = true
				uniq = append(uniq, s)
			}
		}
		stmts = uniq
	}
	swap := func(s string) string {
		re := regexp.MustCompile(`SPort|DPort|sport|dport`)
		return re.ReplaceAllStringFunc(s, func(m string) string {
			switch m {
			case "SPort":
				return "DPort"
			case "DPort":
				return "SPort"
			case "sport":
				return "dport"
			}
			return "sport"
		})
	}
	ok := len(stmts) == 2 && len(stray) == 0 && swap(render(stmts[0])) == render(stmts[1])
	detail := fmt.Sprintf("%d conditional port stores, %d unconditional", len(stmts), len(stray))
	if len(stmts) == 2 {
		detail = fmt.Sprintf("first: %s — second: %s — mirror of first: %s", render(stmts[0]), render(stmts[1]), swap(render(stmts[0])))
	}
	r.Check(rule, "ParsePacket"+v+":port-section-mirror-symmetric", p.Rel(f.Decl.Pos()), ok,
		"the key of a packet a->b must be the reverse of the key of the answering packet b->a: the rule that keeps / drops the source port must be the source<->destination mirror image of the rule for the destination port, and both must be independent of each other ("+detail+")")
}

func c19Oracle(r *core.Run, p *core.Prog) {
	const rule = "rfc-offset-oracle"
	// values per RFC 791 (IPv4 header), RFC 8200 (IPv6 header), RFC 9293 (TCP: flags in byte 13), RFC 768 (UDP ports)
	want := map[string]int64{
		"ipLayerV4ProtoPos": 9, "ipLayerV4SipStart": 12, "ipLayerV4SipEnd": 16, "ipLayerV4DipStart": 16, "ipLayerV4DipEnd": 20,
		"ipLayerV4SPortStart": 20, "ipLayerV4SPortEnd": 22, "ipLayerV4DPortStart": 22, "ipLayerV4DPortEnd": 24, "ipLayerV4TCPFlagsPos": 33,
		"ipLayerV4FragFlagFirstByte": 6, "ipLayerV4FragFlagLastByte": 7,
		"ipLayerV6ProtoPos": 6, "ipLayerV6SipStart": 8, "ipLayerV6SipEnd": 24, "ipLayerV6DipStart": 24, "ipLayerV6DipEnd": 40,
		"ipLayerV6SPortStart": 40, "ipLayerV6SPortEnd": 42, "ipLayerV6DPortStart": 42, "ipLayerV6DPortEnd": 44, "ipLayerV6TCPFlagsPos": 53,
		"ipLayerTypeV4": 4, "ipLayerTypeV6": 6,
	}
	for name, w := range want {
		v, ok := constI(p, pkgCapture, name)
		r.Check(rule, "capture."+name, pkgCapture+"."+name, ok && v == w, fmt.Sprintf("declared %d, the header format says %d", v, w))
	}
	for name, w := range map[string]int64{"ICMP": 1, "TCP": 6, "UDP": 17, "ESP": 50, "ICMPv6": 58} {
		v, ok := constI(p, pkgCT, name)
		r.Check(rule, "capturetypes."+name, pkgCT+"."+name, ok && v == w, fmt.Sprintf("declared %d, IANA protocol number is %d", v, w))
	}
	// EPHash layout: sip|sport|dip|dport|proto contiguous
	for _, v := range []struct {
		ver string
		ip  int64
	}{{"V4", 4}, {"V6", 16}} {
		get := func(n string) int64 { x, _ := constI(p, pkgCT, "EPHash"+v.ver+n); return x }
		size, _ := constI(p, pkgCT, "EPHashSize"+v.ver)
		okL := get("SipStart") == 0 && get("SipEnd") == v.ip && get("SPortStart") == v.ip && get("SPortEnd") == v.ip+2 &&
			get("DipStart") == v.ip+2 && get("DipEnd") == 2*v.ip+2 && get("DPortStart") == 2*v.ip+2 && get("DPortEnd") == 2*v.ip+4 &&
			get("ProtocolPos") == 2*v.ip+4 && size == 2*v.ip+5 &&
			get("SPortFirstByte") == get("SPortStart") && get("SPortLastByte") == get("SPortStart")+1 && get("DPortFirstByte") == get("DPortStart") && get("DPortLastByte") == get("DPortStart")+1
		r.Check(rule, "EPHash"+v.ver+":layout-contiguous", pkgCT, okL, "the hash must be sip|sport|dip|dport|protocol without gaps or overlaps, its size constant covering exactly that")
	}
}

func c19CommonPort(r *core.Run, p *core.Prog) {
	const rule = "constant-index-bounds"
	f := r.MustFunc(rule, pkgCapture, "isCommonPort")
	if f == nil {
		return
	}
	info := f.Info()
	// the table access t[a][b][c]
	var acc *ast.IndexExpr
	core.Walk(f.Decl.Body, false, func(x ast.Node) bool {
		if ix, ok := x.(*ast.IndexExpr); ok {
			if in, ok := ast.Unparen(ix.X).(*ast.IndexExpr); ok {
				if _, ok := ast.Unparen(in.X).(*ast.IndexExpr); ok && acc == nil {
					acc = ix
				}
			}
		}
		return true
	})
	if acc == nil {
		r.Undecided(rule, "isCommonPort:table-access", p.Rel(f.Decl.Pos()), "no three-level table access")
		return
	}
	idx := []ast.Expr{acc.Index}
	cur := acc
	for {
		in, ok := ast.Unparen(cur.X).(*ast.IndexExpr)
		if !ok {
			break
		}
		idx = append([]ast.Expr{in.Index}, idx...)
		cur = in
	}
	t := info.TypeOf(cur.X)
	// upper bounds that hold at the access on every path reaching it (any shape / polarity of the guards)
	g := core.GraphOf(f)
	accNode := -1
	for id, n := range g.Nodes {
		if n != nil && n.Pos() <= acc.Pos() && acc.End() <= n.End() {
			if accNode < 0 || (g.Nodes[accNode].End()-g.Nodes[accNode].Pos()) > (n.End()-n.Pos()) {
				accNode = id
			}
		}
	}
	var bounds map[string]int64
	if accNode >= 0 {
		if paths, ok := g.Paths(core.Entry, accNode, 2000); ok {
			for _, path := range paths {
				ub := upperBoundsOnPath(info, f.Decl.Body, g, path, accNode)
				if bounds == nil {
					bounds = ub
					continue
				}
				for k, v := range bounds { // keep what holds on every path (the weakest bound)
					if w, ok := ub[k]; !ok {
						delete(bounds, k)
					} else if w > v {
						bounds[k] = w
					}
				}
			}
		}
	}
	if bounds == nil {
		bounds = map[string]int64{}
	}
	for i, e := range idx {
		a, ok := t.Underlying().(*types.Array)
		if !ok {
			r.Undecided(rule, fmt.Sprintf("isCommonPort:dimension%d", i), p.Rel(e.Pos()), "table level is not a fixed-size array")
			return
		}
		max, guarded := bounds[core.Str(resolveLocal(info, f.Decl.Body, e))]
		if !guarded {
			// full range of the index type
			if b, ok := info.TypeOf(e).Underlying().(*types.Basic); ok && b.Kind() == types.Uint8 {
				max, guarded = 255, true
			}
		}
		r.Check(rule, fmt.Sprintf("isCommonPort:index%d-within-table", i), p.Rel(e.Pos()), guarded && max < a.Len(),
			fmt.Sprintf("index %s can be as large as %d, the table dimension is %d", core.Str(e), max, a.Len()))
		t = a.Elem()
	}
}

// c19Siblings: ParsePacketV4 and ParsePacketV6 differ only by the version marker and the documented exceptions.
func c19Siblings(r *core.Run, p *core.Prog) {
	const rule = "sibling-agreement"
	f4 := r.MustFunc(rule, pkgCapture, "ParsePacketV4")
	f6 := r.MustFunc(rule, pkgCapture, "ParsePacketV6")
	if f4 == nil || f6 == nil {
		return
	}
	// Each parser is summarised as the set of its control-flow paths, a path being the (unordered) collection of what it
	// tests and what it stores, rendered canonically (locals inlined, parameters by position, version markers renamed).
	// The summary does not depend on if-chain vs switch, on condition polarity, on local names, on hoisted expressions or
	// on the order of independent statements.
	ren := strings.NewReplacer("V4", "V6", "ipv4", "ipv6", "ICMPv6", "ICMP")
	summarise := func(f *core.Fn) (map[string]bool, bool) {
		info := f.Info()
		g := core.GraphOf(f)
		cn := newCanon(f)
		cn.rename = func(s string) string { return ren.Replace(s) }
		cases := enumTests(f.Decl.Body)
		v4only := func(s string) bool { return strings.Contains(s, "Frag") || strings.Contains(s, ".ESP") }
		paths, ok := g.Paths(core.Entry, core.Exit, 20000)
		if !ok {
			return nil, false
		}
		out := map[string]bool{}
		for _, path := range paths {
			var evs []string
			drop := false
			known := map[string]bool{} // protocol constants already decided on this path
			for i, id := range path {
				n := g.Nodes[id]
				if n == nil {
					continue
				}
				if tk, isC := g.Taken(path, i); isC {
					if subj, k, eq, ok := enumCond(cases, n, tk); ok {
						e := fmt.Sprintf("%s==%s:%v", cn.str(subj), cn.str(k), eq)
						if v4only(e) {
							continue
						}
						if eq && len(known) > 0 {
							for kk := range known {
								if kk != cn.str(k) {
									drop = true // two different protocol values on one path: infeasible
								}
							}
						}
						if eq {
							known[cn.str(k)] = true
						}
						evs = append(evs, "test "+e)
						continue
					}
					atoms, truths := atomsOf(n.(ast.Expr), tk)
					for j, a := range atoms {
						e := fmt.Sprintf("%s:%v", cn.str(a), truths[j])
						if !v4only(e) {
							evs = append(evs, "test "+e)
						}
					}
					continue
				}
				switch st := n.(type) {
				case *ast.AssignStmt:
					for j, l := range st.Lhs {
						lo, _ := core.ObjOf(info, rootIdent(l)).(*types.Var)
						if lo == nil {
							continue
						}
						isResult := false
						sig := f.Obj.Type().(*types.Signature)
						for k := 0; k < sig.Results().Len(); k++ {
							if sig.Results().At(k) == lo {
								isResult = true
							}
						}
						if !isResult {
							continue // locals are inlined by the canonical rendering
						}
						rhs := ""
						if j < len(st.Rhs) {
							rhs = cn.str(st.Rhs[j])
						}
						e := fmt.Sprintf("store %s=%s", cn.str(l), rhs)
						if strings.Contains(e, "FragmentIgnore") {
							drop = true // the IPv4-only fragment exit
						}
						if !v4only(e) {
							evs = append(evs, e)
						}
					}
				case *ast.ExprStmt:
					if c, ok := st.X.(*ast.CallExpr); ok && core.CallName(info, c) == "builtin.copy" {
						evs = append(evs, "store "+cn.str(c))
					}
				}
			}
			if drop {
				continue
			}
			sort.Strings(evs)
			out[strings.Join(evs, " | ")] = true
		}
		return out, true
	}
	s4, ok4 := summarise(f4)
	s6, ok6 := summarise(f6)
	if !ok4 || !ok6 {
		r.Undecided(rule, "ParsePacketV4~ParsePacketV6", p.Rel(f6.Decl.Pos()), "too many paths")
		return
	}
	diff := ""
	for k := range s4 {
		if !s6[k] {
			diff = "IPv4 only: " + k
		}
	}
	for k := range s6 {
		if !s4[k] {
			diff = "IPv6 only: " + k
		}
	}
	r.Stat("paths_enumerated", len(s4)+len(s6))
	r.Check(rule, "ParsePacketV4~ParsePacketV6", p.Rel(f6.Decl.Pos()), diff == "" && len(s4) >= 6,
		"the IPv4 and IPv6 parsers must treat ports, flags and truncation identically (allowed differences: the IPv4 fragment check, the ICMP protocol constant); a path (what it tests and stores) of one has no counterpart in the other — "+diff)
}

// rootIdent strips selectors, indices, slices and dereferences down to the identifier an lvalue is rooted in.
func rootIdent(e ast.Expr) ast.Expr {
	for {
		switch x := ast.Unparen(e).(type) {
		case *ast.SelectorExpr:
			e = x.X
		case *ast.IndexExpr:
			e = x.X
		case *ast.SliceExpr:
			e = x.X
		case *ast.StarExpr:
			e = x.X
		default:
			return e
		}
	}
}

func stmtString(s ast.Stmt) string {
	switch x := s.(type) {
	case *ast.ExprStmt:
		return core.Str(x.X)
	case *ast.AssignStmt:
		var l, r []string
		for _, e := range x.Lhs {
			l = append(l, core.Str(e))
		}
		for _, e := range x.Rhs {
			r = append(r, core.Str(e))
		}
		return strings.Join(l, ",") + " " + x.Tok.String() + " " + strings.Join(r, ",")
	case *ast.IfStmt:
		out := "if " + core.Str(x.Cond) + " {"
		for _, b := range x.Body.List {
			out += stmtString(b) + "; "
		}
		out += "}"
		if x.Else != nil {
			out += " else " + stmtString(x.Else)
		}
		return out
	case *ast.BlockStmt:
		out := "{"
		for _, b := range x.List {
			out += stmtString(b) + "; "
		}
		return out + "}"
	case *ast.ReturnStmt:
		var r []string
		for _, e := range x.Results {
			r = append(r, core.Str(e))
		}
		return "return " + strings.Join(r, ",")
	case *ast.BranchStmt:
		if x.Label != nil {
			return x.Tok.String() + " " + x.Label.Name
		}
		return x.Tok.String()
	case *ast.LabeledStmt:
		return x.Label.Name + ": " + stmtString(x.Stmt)
	case *ast.DeclStmt:
		return "decl"
	}
	return fmt.Sprintf("<%T>", s)
}
