package props

import (
	"fmt"
	"go/ast"
	"go/token"
	"go/types"
	"strings"

	"gpverif/core"
)

func init() { register("C29", c29) }

// readOnlyOver: function f must not modify the maps held in the given fields of its receiver nor
// the values reachable through their range variables.
func flowLogWrites(p *core.Prog, f *core.Fn) []string {
	info := f.Info()
	recv := f.Obj.Type().(*types.Signature).Recv()
	var out []string
	// range variables over receiver maps
	vals := map[types.Object]bool{}
	core.Walk(f.Decl.Body, true, func(x ast.Node) bool {
		if rs, ok := x.(*ast.RangeStmt); ok && rs.Value != nil {
			if sel, ok := ast.Unparen(rs.X).(*ast.SelectorExpr); ok && core.ObjOf(info, sel.X) == recv {
				vals[core.ObjOf(info, rs.Value)] = true
			}
		}
		return true
	})
	rootOf := func(e ast.Expr) (types.Object, int) {
		d := 0
		for {
			switch x := ast.Unparen(e).(type) {
			case *ast.SelectorExpr:
				e = x.X
				d++
			case *ast.IndexExpr:
				e = x.X
				d++
			case *ast.StarExpr:
				e = x.X
				d++
			default:
				return core.ObjOf(info, e), d
			}
		}
	}
	core.Walk(f.Decl.Body, true, func(x ast.Node) bool {
		switch s := x.(type) {
		case *ast.AssignStmt:
			if s.Tok == token.DEFINE {
				return true
			}
			for _, l := range s.Lhs {
				o, d := rootOf(l)
				if d > 0 && (o == recv || vals[o]) {
					out = append(out, fmt.Sprintf("%s: %s %s …", p.Rel(l.Pos()), core.Str(l), s.Tok))
				}
			}
		case *ast.IncDecStmt:
			o, d := rootOf(s.X)
			if d > 0 && (o == recv || vals[o]) {
				out = append(out, fmt.Sprintf("%s: %s%s", p.Rel(s.Pos()), core.Str(s.X), s.Tok))
			}
		case *ast.CallExpr:
			name := core.CallName(info, s)
			if name == "builtin.delete" && len(s.Args) == 2 {
				if o, _ := rootOf(s.Args[0]); o == recv {
					out = append(out, fmt.Sprintf("%s: delete(%s, …)", p.Rel(s.Pos()), core.Str(s.Args[0])))
				}
			}
			if name == "builtin.clear" && len(s.Args) == 1 {
				if o, _ := rootOf(s.Args[0]); o == recv {
					out = append(out, fmt.Sprintf("%s: clear(%s)", p.Rel(s.Pos()), core.Str(s.Args[0])))
				}
			}
			if rx, m := core.MethodCall(info, s); rx != nil {
				if o, _ := rootOf(rx); vals[o] && (m == "Reset" || m == "UpdateFlow") {
					out = append(out, fmt.Sprintf("%s: %s.%s()", p.Rel(s.Pos()), core.Str(rx), m))
				}
			}
		}
		return true
	})
	return out
}

func c29(r *core.Run) {
	r.Expl = "C29 (live queries see current flows and change nothing): decides (1) the live-query path is read-only on the capture state: FlowLog.Aggregate assigns no field reachable from the flow log, deletes / clears nothing in its maps and calls no mutating Flow method; Capture.flowMap obtains its data from Aggregate (never from Rotate / transferAndAggregate); GetFlowMaps takes the capture lock before and releases it after reading, on every path; (2) the condition filter writes only into the fresh result map it allocated (never into its input) and hands the counters over in the callee's order; evaluating conditions neither stores through the key nor into captured state (the in-memory keys are the flow map's own keys); (3) the live data is aggregated exactly like rotated data: Aggregate and transferAndAggregate emit through the same key projection and SetOrUpdate argument order, with the same has-packets test. NOT decided: that live rows are grouped by the query attributes like stored rows (they are not projected to the requested attributes — observation F25), schedules of live queries between write-outs."
	r.Floor = 10
	r.Rules = append(r.Rules, "read-only-path (P8)", "lock-pairing (P1)", "fresh-result-only", "counter-positions", "evaluation-pure")
	p := r.Prog("cgo")
	const rule = "read-only-path"
	if f := r.MustFunc(rule, pkgCapture, "FlowLog.Aggregate"); f != nil {
		w := flowLogWrites(p, f)
		r.Check(rule, "FlowLog.Aggregate:no-writes-to-flow-log", p.Rel(f.Decl.Pos()), len(w) == 0,
			"the live-query snapshot modifies the flow log ("+strings.Join(w, "; ")+"): flows removed or changed here are missing from, or re-classified in, the next write-out")
		// sibling of the rotation: same has-packets semantics and emission
		info := f.Info()
		emits := 0
		for _, c := range core.Calls(f.Decl.Body, false) {
			if core.CallName(info, c) == pkgHashmap+".Map.SetOrUpdate" {
				emits++
			}
		}
		r.Check(rule, "FlowLog.Aggregate:emits-both-ip-versions", p.Rel(f.Decl.Pos()), emits == 2, fmt.Sprintf("%d emissions (one per IP version expected)", emits))
	}
	if f := r.MustFunc(rule, pkgCapture, "Capture.flowMap"); f != nil {
		info := f.Info()
		agg, rot := false, false
		for _, c := range core.Calls(f.Decl.Body, true) {
			switch core.CallName(info, c) {
			case pkgCapture + ".FlowLog.Aggregate":
				agg = true
			case pkgCapture + ".FlowLog.Rotate", pkgCapture + ".FlowLog.transferAndAggregate":
				rot = true
			}
		}
		r.Check(rule, "Capture.flowMap:uses-Aggregate", p.Rel(f.Decl.Pos()), agg && !rot, "a live query must read the flow log with Aggregate; Rotate resets the flows and drops idle ones")
	}
	// nothing else reachable from GetFlowMaps rotates
	if f := r.MustFunc("lock-pairing", pkgCapture, "Manager.GetFlowMaps"); f != nil {
		info := f.Info()
		var loop *ast.RangeStmt
		core.Walk(f.Decl.Body, false, func(x ast.Node) bool {
			if rs, ok := x.(*ast.RangeStmt); ok && loop == nil {
				loop = rs
			}
			return true
		})
		if loop == nil {
			r.Undecided("lock-pairing", "GetFlowMaps:loop", p.Rel(f.Decl.Pos()), "no per-interface loop")
		} else {
			wrap := &ast.BlockStmt{List: loop.Body.List}
			g := core.NewGraph(info, wrap)
			cl := func(n ast.Node, cond *bool) []ev {
				var out []ev
				for _, c := range core.Calls(n, false) {
					_, m := core.MethodCall(info, c)
					cn := core.CallName(info, c)
					switch {
					case m == "Lock" && strings.Contains(core.Str(c.Fun), "capLock"):
						out = append(out, ev{label: "lock"})
					case m == "Unlock" && strings.Contains(core.Str(c.Fun), "capLock"):
						out = append(out, ev{label: "unlock"})
					case cn == pkgCapture+".Capture.flowMap":
						out = append(out, ev{label: "read"})
					case cn == pkgCapture+".Capture.rotate":
						out = append(out, ev{label: "rotate"})
					}
				}
				return out
			}
			fake := &core.Fn{Prog: p, Pkg: f.Pkg, Decl: &ast.FuncDecl{Body: wrap, Name: f.Decl.Name, Type: &ast.FuncType{}}, Obj: f.Obj, Name: f.Name}
			ts, ok := traces(fake, g, cl, 5000)
			bad, n := "", 0
			if ok {
				for _, t := range ts {
					if t.has("rotate") {
						bad = "a live query rotates the capture"
					}
					if t.has("read") {
						n++
						if !(t.count("lock") == 1 && t.count("unlock") == 1 && t.first("lock") < t.first("read") && t.first("read") < t.first("unlock")) {
							bad = "the flow log is read outside a lock / unlock pair of the capture lock: " + pathLines(p, g, t.path)
						}
					}
				}
			}
			r.Check("lock-pairing", "GetFlowMaps:read-between-lock-and-unlock", p.Rel(loop.Pos()), ok && bad == "" && n > 0, bad)
		}
	}
	// QueryFilter: writes only to the fresh result
	if f := r.MustFunc("fresh-result-only", pkgGoDB, "QueryFilter"); f != nil {
		info := f.Info()
		var fl *ast.FuncLit
		core.Walk(f.Decl.Body, true, func(x ast.Node) bool {
			if l, ok := x.(*ast.FuncLit); ok && fl == nil {
				fl = l
			}
			return true
		})
		if fl == nil {
			r.Undecided("fresh-result-only", "QueryFilter:closure", p.Rel(f.Decl.Pos()), "no filter closure")
		} else {
			input := info.Defs[fl.Type.Params.List[0].Names[0]]
			var fresh types.Object
			core.Walk(fl.Body, false, func(x ast.Node) bool {
				if a, ok := x.(*ast.AssignStmt); ok && len(a.Rhs) == 1 {
					if c, ok := a.Rhs[0].(*ast.CallExpr); ok && core.CallName(info, c) == pkgHashmap+".NewAggFlowMap" {
						fresh = core.ObjOf(info, a.Lhs[0])
					}
				}
				return true
			})
			bad, n := "", 0
			core.Walk(fl.Body, false, func(x ast.Node) bool {
				c, ok := x.(*ast.CallExpr)
				if !ok {
					return true
				}
				rx, m := core.MethodCall(info, c)
				if rx == nil {
					return true
				}
				// the map the call works on: selectors stripped, locals that merely name a sub-map followed to their
				// definition (`dst := result.PrimaryMap`), stopping at the fresh result and at the input
				root := rx
				for i := 0; i < 8; i++ {
					root = ast.Unparen(root)
					if s, ok := root.(*ast.SelectorExpr); ok {
						root = s.X
						continue
					}
					if o := core.ObjOf(info, root); o != nil && (o == fresh || o == input) {
						break
					}
					if d := resolveLocal(info, fl.Body, root); d != root {
						root = d
						continue
					}
					break
				}
				o := core.ObjOf(info, root)
				mutating := m == "Set" || m == "SetOrUpdate" || m == "Merge" || m == "Clear" || m == "ClearFast" || m == "Delete"
				if mutating {
					n++
					if o != fresh || fresh == nil {
						bad = fmt.Sprintf("%s: %s modifies %s, which is not the freshly allocated result map", p.Rel(c.Pos()), m, core.Str(rx))
					}
				}
				if o == input && mutating {
					bad = fmt.Sprintf("%s: the filter modifies its input map (%s)", p.Rel(c.Pos()), m)
				}
				return true
			})
			r.Check("fresh-result-only", "QueryFilter:writes-only-fresh-result", p.Rel(fl.Pos()), bad == "" && n > 0 && fresh != nil, bad)
			// both maps filtered with the same condition call
			evals := 0
			for _, c := range core.Calls(fl.Body, false) {
				if _, m := core.MethodCall(info, c); m == "Evaluate" {
					evals++
				}
			}
			r.Check("fresh-result-only", "QueryFilter:both-ip-versions-filtered", p.Rel(fl.Pos()), evals == 2, fmt.Sprintf("%d condition evaluations (IPv4 and IPv6 map expected)", evals))
			// Whether an entry of the live map is returned is decided by the condition alone. Every branch of the filter
			// closure must therefore be one of: the nil test of the condition, the iterator's Next(), the verdict of
			// Conditional.Evaluate (possibly through a local), or a test of the query's structural IP version (the field the
			// stored-data path uses to skip a sub-map). Any other test can leave out flows that the same query returns once
			// they are written out.
			fIPv := p.FieldObj(pkgGoDB, "Query", "ipVersion")
			fCond := p.FieldObj(pkgGoDB, "Query", "Conditional")
			gl := core.NewGraph(info, fl.Body)
			badGuard := ""
			for id, n := range gl.Nodes {
				e, isExpr := n.(ast.Expr)
				if !isExpr || len(gl.Succ[id]) != 2 || gl.Succ[id][0] == gl.Succ[id][1] {
					continue
				}
				for _, leaf := range boolLeaves(resolveLocal(info, fl.Body, ast.Unparen(e))) {
					re := resolveLocal(info, fl.Body, ast.Unparen(leaf))
					allowed := false
					for _, c := range core.Calls(re, false) {
						if _, m := core.MethodCall(info, c); m == "Next" || m == "Evaluate" {
							allowed = true
						}
					}
					if u, ok := ast.Unparen(re).(*ast.UnaryExpr); ok && u.Op == token.NOT {
						for _, c := range core.Calls(resolveLocal(info, fl.Body, ast.Unparen(u.X)), false) {
							if _, m := core.MethodCall(info, c); m == "Evaluate" {
								allowed = true
							}
						}
					}
					if x, y, _, ok := eqTest(re, true); ok && core.IsNil(info, y) && fCond != nil && core.SelField(info, resolveLocal(info, fl.Body, ast.Unparen(x))) == fCond {
						allowed = true
					}
					if fIPv != nil && mentionsFieldR(info, fl.Body, re, fIPv) {
						allowed = true
					}
					if !allowed {
						badGuard = fmt.Sprintf("%s: `%s` decides whether entries of the live flow map are evaluated at all", p.Rel(e.Pos()), core.Str(leaf))
					}
				}
			}
			r.Check("fresh-result-only", "QueryFilter:only-the-condition-excludes-entries", p.Rel(fl.Pos()), badGuard == "", badGuard)
		}
	}
	m := ruleSetOrUpdateMapping(r, p)
	ruleSetOrUpdateSites(r, p, m, pkgGoDB, pkgCapture)
	// evaluation purity of the condition closures (shared with C09/C11)
	if f := r.MustFunc("evaluation-pure", pkgNode, "generateCompareValue"); f != nil {
		info := f.Info()
		n, bad := 0, ""
		core.Walk(f.Decl.Body, true, func(x ast.Node) bool {
			fl, ok := x.(*ast.FuncLit)
			if !ok {
				return true
			}
			n++
			if fl.Type.Params != nil && len(fl.Type.Params.List) == 1 && len(fl.Type.Params.List[0].Names) == 1 {
				key := info.Defs[fl.Type.Params.List[0].Names[0]]
				if imp := keyStores(info, fl.Body, key); len(imp) > 0 {
					bad = fmt.Sprintf("%s: %s", p.Rel(fl.Pos()), strings.Join(imp, "; "))
				}
			}
			return false
		})
		r.Check("evaluation-pure", "condition-closures:do-not-write-the-key", p.Rel(f.Decl.Pos()), bad == "" && n >= 20, orStr(bad, fmt.Sprintf("%d closures", n))+" — a live query evaluates conditions on the flow map's own keys")
	}
}
