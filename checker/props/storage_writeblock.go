package props

import (
	"fmt"
	"go/ast"
	"go/token"
	"go/types"
	"sort"
	"strings"

	"gpverif/core"
)

const (
	pkgGpfile  = "pkg/goDB/storage/gpfile"
	pkgStorage = "pkg/goDB/storage"
	pkgEncoder = "pkg/goDB/encoder"
	pkgGoDB    = "pkg/goDB"
)

// wbEvent is one storage-relevant action in GPFile.writeBlock.
type wbEvent struct {
	kind string // emit seekback seekother reset flush addblock offupd offset settype
	node ast.Node
	// emit
	emitter string       // "null" | "default" | "?"
	countTo types.Object // variable receiving the byte count
	from    types.Object // for kind copy: the variable copied from
	// settype
	tval string // "null" | "default" | "?"
	// addblock
	lit *ast.CompositeLit
	// offupd
	rhs ast.Expr
}

// ruleWriteBlockTrace enumerates every entry→exit path of GPFile.writeBlock and
// runs the commit-protocol automaton over the storage events on it.
func ruleWriteBlockTrace(r *core.Run, p *core.Prog, want map[string]bool) {
	const rule = "writeBlock-trace"
	f := r.MustFunc(rule, pkgGpfile, "GPFile.writeBlock")
	if f == nil {
		return
	}
	info := f.Info()
	fldFile := p.FieldObj(pkgGpfile, "GPFile", "file")
	fldBuf := p.FieldObj(pkgGpfile, "GPFile", "fileWriteBuffer")
	fldCur := p.FieldObj(pkgStorage, "BlockHeader", "CurrentOffset")
	fldDefEnc := p.FieldObj(pkgGpfile, "GPFile", "defaultEncoder")
	fldDefType := p.FieldObj(pkgGpfile, "GPFile", "defaultEncoderType")
	if fldFile == nil || fldBuf == nil || fldCur == nil || fldDefEnc == nil || fldDefType == nil {
		r.Missing(rule, "GPFile.{file,fileWriteBuffer,defaultEncoder,defaultEncoderType} / BlockHeader.CurrentOffset")
		return
	}
	sig := f.Obj.Type().(*types.Signature)
	if sig.Params().Len() != 2 || sig.Results().Len() != 1 {
		r.Undecided(rule, "writeBlock:signature", p.Rel(f.Decl.Pos()), "expected writeBlock(timestamp, data) error")
		return
	}
	dataParam := sig.Params().At(1)
	g := core.GraphOf(f)

	fileBacked := func(e ast.Expr) bool {
		return core.MentionsField(info, e, fldBuf) || core.MentionsField(info, e, fldFile)
	}
	isNullConst := func(e ast.Expr) bool {
		o := core.ObjOf(info, selOrIdent(e))
		return o != nil && o.Name() == "EncoderTypeNull"
	}
	// Which variables hold the recorded encoder type? (identifiers used as EncoderType: in AddBlock literals)
	typeVars := map[types.Object]bool{}
	resolveLit := func(e ast.Expr) *ast.CompositeLit {
		if cl, ok := ast.Unparen(e).(*ast.CompositeLit); ok {
			return cl
		}
		if o := core.ObjOf(info, e); o != nil {
			var lit *ast.CompositeLit
			n := 0
			core.Walk(f.Decl.Body, false, func(x ast.Node) bool {
				if a, ok := x.(*ast.AssignStmt); ok {
					for i, l := range a.Lhs {
						if core.ObjOf(info, l) == o && i < len(a.Rhs) {
							n++
							lit, _ = ast.Unparen(a.Rhs[i]).(*ast.CompositeLit)
						}
					}
				}
				return true
			})
			if n == 1 {
				return lit
			}
		}
		return nil
	}
	litField := func(cl *ast.CompositeLit, name string) ast.Expr {
		for _, el := range cl.Elts {
			if kv, ok := el.(*ast.KeyValueExpr); ok {
				if id, ok := kv.Key.(*ast.Ident); ok && id.Name == name {
					return kv.Value
				}
			}
		}
		return nil
	}
	core.Walk(f.Decl.Body, false, func(x ast.Node) bool {
		if c, ok := core.IsCall(info, x, pkgStorage+".BlockHeader.AddBlock"); ok && len(c.Args) == 2 {
			if cl := resolveLit(c.Args[1]); cl != nil {
				if v := litField(cl, "EncoderType"); v != nil {
					if o := core.ObjOf(info, v); o != nil {
						if _, isVar := o.(*types.Var); isVar {
							typeVars[o] = true
						}
					}
				}
			}
		}
		return true
	})

	events := map[int][]wbEvent{}
	undec := []string{}
	for id, n := range g.Nodes {
		if n == nil {
			continue
		}
		if _, isDefer := n.(*ast.DeferStmt); isDefer {
			continue
		}
		var evs []wbEvent
		// the variable receiving a call's first result
		firstResultVar := func(call *ast.CallExpr) types.Object {
			if a, ok := n.(*ast.AssignStmt); ok && len(a.Rhs) == 1 && ast.Unparen(a.Rhs[0]) == call && len(a.Lhs) >= 1 {
				return core.ObjOf(info, a.Lhs[0])
			}
			return nil
		}
		for _, call := range core.Calls(n, false) {
			recv, m := core.MethodCall(info, call)
			switch {
			case m == "Compress" && len(call.Args) == 3:
				if !fileBacked(call.Args[2]) {
					continue // compress-to-memory shape: not an emit
				}
				em := "?"
				if tn := core.TypeName(info.TypeOf(recv)); strings.HasSuffix(tn, "encoder/null.Encoder") {
					em = "null"
				} else if core.MentionsField(info, recv, fldDefEnc) {
					em = "default"
				}
				if o := core.ObjOf(info, call.Args[0]); o != dataParam {
					undec = append(undec, fmt.Sprintf("%s: Compress input is %s, not the block data parameter", p.Rel(call.Pos()), core.Str(call.Args[0])))
				}
				evs = append(evs, wbEvent{kind: "emit", node: call, emitter: em, countTo: firstResultVar(call)})
			case m == "Write" && recv != nil && fileBacked(recv):
				em := "?"
				if len(call.Args) == 1 && core.ObjOf(info, call.Args[0]) == dataParam {
					em = "null"
				}
				evs = append(evs, wbEvent{kind: "emit", node: call, emitter: em, countTo: firstResultVar(call)})
			case m == "Seek" && recv != nil && core.MentionsField(info, recv, fldFile) && len(call.Args) == 2:
				wh, okc := core.ConstInt(info, call.Args[1])
				if okc && wh == 0 && core.MentionsField(info, call.Args[0], fldCur) {
					evs = append(evs, wbEvent{kind: "seekback", node: call})
				} else {
					evs = append(evs, wbEvent{kind: "seekother", node: call})
				}
			case m == "Reset" && recv != nil && core.MentionsField(info, recv, fldBuf):
				evs = append(evs, wbEvent{kind: "reset", node: call})
			case m == "Flush" && recv != nil && core.MentionsField(info, recv, fldBuf):
				evs = append(evs, wbEvent{kind: "flush", node: call})
			case m == "Truncate" && recv != nil && core.MentionsField(info, recv, fldFile):
				evs = append(evs, wbEvent{kind: "seekother", node: call})
			case core.CallName(info, call) == pkgStorage+".BlockHeader.AddBlock" && len(call.Args) == 2:
				cl := resolveLit(call.Args[1])
				if cl == nil {
					undec = append(undec, fmt.Sprintf("%s: AddBlock argument is not a (variable bound to a) storage.Block literal", p.Rel(call.Pos())))
				}
				evs = append(evs, wbEvent{kind: "addblock", node: call, lit: cl})
			}
		}
		if a, ok := n.(*ast.AssignStmt); ok {
			// value copies between integer locals (`nWritten, err = n, nil`): the byte count keeps its identity
			if len(a.Lhs) == len(a.Rhs) && (a.Tok == token.ASSIGN || a.Tok == token.DEFINE) {
				for i := range a.Lhs {
					to, okT := core.ObjOf(info, a.Lhs[i]).(*types.Var)
					from, okF := core.ObjOf(info, stripConv(info, a.Rhs[i])).(*types.Var)
					if okT && okF && !to.IsField() && !from.IsField() && to != from {
						evs = append(evs, wbEvent{kind: "copy", node: a, countTo: to, from: from})
					}
				}
			}
			for i, l := range a.Lhs {
				if core.SelField(info, l) == fldCur {
					if a.Tok == token.ADD_ASSIGN {
						evs = append(evs, wbEvent{kind: "offupd", node: a, rhs: a.Rhs[0]})
					} else {
						evs = append(evs, wbEvent{kind: "offset", node: a})
					}
				}
				if o := core.ObjOf(info, l); o != nil && typeVars[o] && i < len(a.Rhs) {
					tv := "?"
					if isNullConst(a.Rhs[i]) {
						tv = "null"
					} else if core.MentionsField(info, a.Rhs[i], fldDefType) {
						tv = "default"
					} else if c, ok := ast.Unparen(a.Rhs[i]).(*ast.CallExpr); ok {
						if rv, m := core.MethodCall(info, c); m == "Type" && core.MentionsField(info, rv, fldDefEnc) {
							tv = "default"
						}
					}
					evs = append(evs, wbEvent{kind: "settype", node: a, tval: tv})
				}
			}
		}
		if vs, ok := n.(*ast.ValueSpec); ok {
			for i, nm := range vs.Names {
				if o := info.Defs[nm]; o != nil && typeVars[o] && i < len(vs.Values) {
					tv := "?"
					if isNullConst(vs.Values[i]) {
						tv = "null"
					} else if core.MentionsField(info, vs.Values[i], fldDefType) {
						tv = "default"
					}
					evs = append(evs, wbEvent{kind: "settype", node: vs, tval: tv})
				}
			}
		}
		sort.SliceStable(evs, func(i, j int) bool { return evs[i].node.Pos() < evs[j].node.Pos() })
		if len(evs) > 0 {
			events[id] = evs
		}
	}

	// duplicate test: the boolean result of BlockIndex
	var existsVar types.Object
	core.Walk(f.Decl.Body, false, func(x ast.Node) bool {
		if a, ok := x.(*ast.AssignStmt); ok && len(a.Rhs) == 1 {
			if c, ok := core.IsCall(info, a.Rhs[0], pkgStorage+".BlockHeader.BlockIndex"); ok && c != nil && len(a.Lhs) == 2 {
				existsVar = core.ObjOf(info, a.Lhs[1])
			}
		}
		return true
	})

	paths, ok := g.Paths(core.Entry, core.Exit, 20000)
	where := p.Rel(f.Decl.Pos())
	if !ok {
		r.Undecided(rule, "writeBlock:paths", where, "more than 20000 paths; the trace rule cannot enumerate them")
		return
	}
	r.Stat("paths_enumerated", len(paths))
	type verdict struct {
		bad    bool
		detail string
		seen   int
	}
	clauses := []string{
		"rollback-between-emits", "flush-after-last-emit", "len-is-last-emit-count", "offset-advances-by-last-emit-count",
		"encoder-type-matches-emitter", "block-offset-is-committed-offset", "rawlen-is-input-length",
		"duplicate-check-dominates-add", "no-commit-on-error-path", "success-implies-commit", "empty-block-recorded-empty",
		"no-foreign-seek-or-truncate", "compress-error-checked",
	}
	v := map[string]*verdict{}
	for _, c := range clauses {
		v[c] = &verdict{}
	}
	fail := func(c string, path []int, msg string) {
		if !v[c].bad {
			v[c].bad = true
			v[c].detail = msg + " on path " + pathLines(p, g, path)
		}
	}
	for _, path := range paths {
		if !feasible(info, g, path) {
			continue
		}
		var seq []wbEvent
		sawExistsFalse := false
		failing, succeeding := false, false
		errTaken := map[types.Object]bool{}
		for i, n := range path {
			for _, e := range events[n] {
				seq = append(seq, e)
			}
			if taken, isCond := g.Taken(path, i); isCond {
				cond := g.Nodes[n].(ast.Expr)
				if existsVar != nil {
					if core.ObjOf(info, cond) == existsVar && !taken {
						sawExistsFalse = true
					}
					if u, ok := ast.Unparen(cond).(*ast.UnaryExpr); ok && u.Op == token.NOT && core.ObjOf(info, u.X) == existsVar && taken {
						sawExistsFalse = true
					}
				}
				if b, ok := core.BinOp(cond, token.NEQ); ok && core.IsNil(info, b.Y) {
					if o := core.ObjOf(info, b.X); o != nil && core.IsErrorType(o.Type()) {
						errTaken[o] = taken
					}
				}
			}
			if rs, ok := g.Nodes[n].(*ast.ReturnStmt); ok && len(rs.Results) == 1 {
				res := rs.Results[0]
				switch {
				case core.IsNil(info, res):
					succeeding = true
				case core.ObjOf(info, res) != nil && errTaken[core.ObjOf(info, res)]:
					failing = true
				default:
					if _, isCall := ast.Unparen(res).(*ast.CallExpr); isCall {
						cn := core.CallName(info, ast.Unparen(res).(*ast.CallExpr))
						if cn == "fmt.Errorf" || cn == "errors.New" {
							failing = true
						}
					}
				}
			}
		}
		// run the automaton
		var lastEmit *wbEvent
		nEmit, nAdd, nUpd := 0, 0, 0
		seekSince, resetSince, flushSince := false, false, false
		lastType := ""
		updSeen := false
		for i := range seq {
			e := &seq[i]
			switch e.kind {
			case "emit":
				v["rollback-between-emits"].seen++
				if lastEmit != nil && !(seekSince && resetSince) {
					fail("rollback-between-emits", path, fmt.Sprintf("second emit at %s follows emit at %s without both file.Seek(header.CurrentOffset, 0) and fileWriteBuffer.Reset in between (seek=%v reset=%v): bytes of the first attempt that left the bufio buffer stay in the file while the header records the committed offset", p.Rel(e.node.Pos()), p.Rel(lastEmit.node.Pos()), seekSince, resetSince))
				}
				lastEmit = e
				nEmit++
				seekSince, resetSince, flushSince = false, false, false
				if a, ok := enclosingAssign(f.Decl.Body, e.node); ok {
					if use, why := core.ErrDisposition(info, f.Decl.Body, e.node.(*ast.CallExpr)); use != core.ErrChecked && use != core.ErrReturned {
						fail("compress-error-checked", path, fmt.Sprintf("error of emitting call at %s is not tested before commit (%s)", p.Rel(a.Pos()), why))
					}
				} else {
					fail("compress-error-checked", path, fmt.Sprintf("emitting call at %s: result not assigned", p.Rel(e.node.Pos())))
				}
			case "copy":
				if lastEmit != nil && lastEmit.countTo != nil && e.from == lastEmit.countTo {
					cp := *lastEmit
					cp.countTo = e.countTo
					lastEmit = &cp
				}
			case "seekback":
				seekSince = true
			case "seekother":
				fail("no-foreign-seek-or-truncate", path, fmt.Sprintf("%s moves or truncates the column file to something other than the committed offset", p.Rel(e.node.Pos())))
			case "reset":
				resetSince = true
			case "flush":
				flushSince = true
			case "settype":
				lastType = e.tval
			case "offset":
				fail("offset-advances-by-last-emit-count", path, fmt.Sprintf("%s assigns header.CurrentOffset instead of advancing it", p.Rel(e.node.Pos())))
			case "offupd":
				nUpd++
				updSeen = true
				v["offset-advances-by-last-emit-count"].seen++
				if lastEmit == nil || lastEmit.countTo == nil || !exprIsConvOf(info, e.rhs, lastEmit.countTo) {
					fail("offset-advances-by-last-emit-count", path, fmt.Sprintf("%s advances the committed offset by %s, which is not the count returned by the last emitting call", p.Rel(e.node.Pos()), core.Str(e.rhs)))
				}
				if !flushSince {
					fail("flush-after-last-emit", path, fmt.Sprintf("offset committed at %s without fileWriteBuffer.Flush after the last emit", p.Rel(e.node.Pos())))
				}
			case "addblock":
				nAdd++
				v["duplicate-check-dominates-add"].seen++
				if !sawExistsFalse {
					fail("duplicate-check-dominates-add", path, fmt.Sprintf("AddBlock at %s is reachable without the timestamp-exists test having been false", p.Rel(e.node.Pos())))
				}
				if e.lit == nil {
					continue
				}
				off := litFieldOf(e.lit, "Offset")
				v["block-offset-is-committed-offset"].seen++
				if off == nil || !core.MentionsField(info, off, fldCur) || updSeen {
					fail("block-offset-is-committed-offset", path, fmt.Sprintf("block recorded at %s with Offset %s (must be header.CurrentOffset before it is advanced)", p.Rel(e.node.Pos()), core.Str(off)))
				}
				ln, raw, et := litFieldOf(e.lit, "Len"), litFieldOf(e.lit, "RawLen"), litFieldOf(e.lit, "EncoderType")
				if nEmit == 0 {
					v["empty-block-recorded-empty"].seen++
					if ln != nil || raw != nil || et == nil || !isNullConst(et) {
						fail("empty-block-recorded-empty", path, fmt.Sprintf("block recorded at %s without any emit must have zero Len/RawLen and the null encoder type", p.Rel(e.node.Pos())))
					}
					continue
				}
				v["flush-after-last-emit"].seen++
				if !flushSince {
					fail("flush-after-last-emit", path, fmt.Sprintf("block recorded at %s without fileWriteBuffer.Flush after the last emit at %s", p.Rel(e.node.Pos()), p.Rel(lastEmit.node.Pos())))
				}
				v["len-is-last-emit-count"].seen++
				if ln == nil || lastEmit.countTo == nil || !exprIsConvOf(info, ln, lastEmit.countTo) {
					fail("len-is-last-emit-count", path, fmt.Sprintf("block Len at %s is %s, not the count returned by the last emitting call at %s", p.Rel(e.node.Pos()), core.Str(ln), p.Rel(lastEmit.node.Pos())))
				}
				v["rawlen-is-input-length"].seen++
				if raw == nil || !isLenOf(info, resolveLocal(info, f.Decl.Body, stripConv(info, raw)), dataParam) {
					fail("rawlen-is-input-length", path, fmt.Sprintf("block RawLen at %s is %s, not the length of the data passed in", p.Rel(e.node.Pos()), core.Str(raw)))
				}
				v["encoder-type-matches-emitter"].seen++
				tv := "?"
				if et != nil {
					if isNullConst(et) {
						tv = "null"
					} else if core.MentionsField(info, et, fldDefType) {
						tv = "default"
					} else if o := core.ObjOf(info, et); o != nil && typeVars[o] {
						tv = lastType
					}
				}
				if lastEmit.emitter == "?" || tv == "?" || tv == "" {
					fail("encoder-type-matches-emitter", path, fmt.Sprintf("cannot relate recorded encoder type (%s) to the emitting encoder (%s) at %s", tv, lastEmit.emitter, p.Rel(e.node.Pos())))
				} else if tv != lastEmit.emitter {
					fail("encoder-type-matches-emitter", path, fmt.Sprintf("block at %s records encoder type %q but its bytes were emitted by the %q encoder at %s: the reader would decode with the wrong codec", p.Rel(e.node.Pos()), tv, lastEmit.emitter, p.Rel(lastEmit.node.Pos())))
				}
			}
		}
		if failing {
			v["no-commit-on-error-path"].seen++
			if nAdd > 0 || nUpd > 0 {
				fail("no-commit-on-error-path", path, "an error return is reached after the header was updated")
			}
		}
		if succeeding {
			v["success-implies-commit"].seen++
			if nAdd != 1 || (nEmit > 0 && nUpd != 1) || (nEmit == 0 && nUpd != 0) {
				fail("success-implies-commit", path, fmt.Sprintf("success return with %d AddBlock, %d offset updates, %d emits (want exactly one AddBlock and one offset update iff bytes were emitted)", nAdd, nUpd, nEmit))
			}
		}
	}
	for _, u := range undec {
		r.Undecided(rule, "writeBlock:shape", where, u)
	}
	for _, c := range clauses {
		if want != nil && !want[c] {
			continue
		}
		key := "writeBlock:" + c
		switch {
		case v[c].bad:
			r.Check(rule, key, where, false, v[c].detail)
		case v[c].seen == 0 && c != "no-foreign-seek-or-truncate" && c != "compress-error-checked" && c != "rollback-between-emits":
			r.Undecided(rule, key, where, "no path exercises this clause: the events it speaks about were not recognised in writeBlock")
		default:
			r.Check(rule, key, where, true, fmt.Sprintf("%d paths, %d relevant events", len(paths), v[c].seen))
		}
	}
}

func selOrIdent(e ast.Expr) ast.Expr {
	if s, ok := ast.Unparen(e).(*ast.SelectorExpr); ok {
		return s.Sel
	}
	return e
}

func litFieldOf(cl *ast.CompositeLit, name string) ast.Expr {
	for _, el := range cl.Elts {
		if kv, ok := el.(*ast.KeyValueExpr); ok {
			if id, ok := kv.Key.(*ast.Ident); ok && id.Name == name {
				return kv.Value
			}
		}
	}
	return nil
}

// exprIsConvOf: e is obj or T(obj) for integer conversions.
func exprIsConvOf(info *types.Info, e ast.Expr, obj types.Object) bool {
	e = ast.Unparen(e)
	if core.ObjOf(info, e) == obj {
		return true
	}
	if c, ok := e.(*ast.CallExpr); ok && len(c.Args) == 1 {
		if tv, ok := info.Types[c.Fun]; ok && tv.IsType() {
			return exprIsConvOf(info, c.Args[0], obj)
		}
	}
	return false
}

// isLenOf: e is len(obj) or T(len(obj)).
func isLenOf(info *types.Info, e ast.Expr, obj types.Object) bool {
	e = ast.Unparen(e)
	if c, ok := e.(*ast.CallExpr); ok && len(c.Args) == 1 {
		if tv, ok := info.Types[c.Fun]; ok && tv.IsType() {
			return isLenOf(info, c.Args[0], obj)
		}
		if core.CallName(info, c) == "builtin.len" {
			return core.ObjOf(info, c.Args[0]) == obj
		}
	}
	return false
}

func enclosingAssign(body *ast.BlockStmt, n ast.Node) (*ast.AssignStmt, bool) {
	path := core.PathTo(body, n)
	for i := len(path) - 1; i >= 0; i-- {
		if a, ok := path[i].(*ast.AssignStmt); ok {
			return a, true
		}
		if _, ok := path[i].(ast.Stmt); ok {
			return nil, false
		}
	}
	return nil, false
}

func pathLines(p *core.Prog, g *core.Graph, path []int) string {
	var ls []string
	last := -1
	for _, n := range path {
		if g.Nodes[n] == nil {
			continue
		}
		l := p.Fset.Position(g.Nodes[n].Pos()).Line
		if l != last {
			ls = append(ls, fmt.Sprint(l))
			last = l
		}
	}
	if len(ls) > 24 {
		ls = append(ls[:12], append([]string{"…"}, ls[len(ls)-11:]...)...)
	}
	return "L" + strings.Join(ls, "→")
}
