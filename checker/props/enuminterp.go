package props

import (
	"fmt"
	"go/ast"
	"go/token"
	"go/types"

	"gpverif/core"
)

// enumInterp interprets a small side-effect-free function over finite symbolic inputs: values are
// names of enum constants or string literals; expressions are symbolic inputs (looked up by their
// rendered form), constants, locals, ==, !=, &&, ||, ! and the predicates registered in preds.
// It evaluates the syntax tree on an assignment of the inputs; it does not run the program.
type enumInterp struct {
	info   *types.Info
	env    map[string]string // rendered expression -> value
	locals map[types.Object]string
	preds  map[string]func(v string) bool // method name -> predicate on the receiver's value
	undec  string
}

func (ei *enumInterp) val(e ast.Expr) (string, bool) {
	e = ast.Unparen(e)
	if v, ok := ei.env[core.Str(e)]; ok {
		return v, true
	}
	if s, ok := core.ConstStr(ei.info, e); ok {
		return s, true
	}
	if o := core.ObjOf(ei.info, selOrIdent(e)); o != nil {
		if c, ok := o.(*types.Const); ok {
			return c.Name(), true
		}
		if v, ok := ei.locals[o]; ok {
			return v, true
		}
	}
	ei.undec = "cannot evaluate " + core.Str(e)
	return "", false
}

func (ei *enumInterp) cond(e ast.Expr) (bool, bool) {
	e = ast.Unparen(e)
	switch x := e.(type) {
	case *ast.UnaryExpr:
		if x.Op == token.NOT {
			v, ok := ei.cond(x.X)
			return !v, ok
		}
	case *ast.BinaryExpr:
		switch x.Op {
		case token.LAND:
			a, ok := ei.cond(x.X)
			if !ok {
				return false, false
			}
			if !a {
				return false, true
			}
			return ei.cond(x.Y)
		case token.LOR:
			a, ok := ei.cond(x.X)
			if !ok {
				return false, false
			}
			if a {
				return true, true
			}
			return ei.cond(x.Y)
		case token.EQL, token.NEQ:
			a, ok1 := ei.val(x.X)
			b, ok2 := ei.val(x.Y)
			if !ok1 || !ok2 {
				return false, false
			}
			return (a == b) == (x.Op == token.EQL), true
		}
	case *ast.CallExpr:
		if rx, m := core.MethodCall(ei.info, x); rx != nil {
			if p, ok := ei.preds[m]; ok {
				v, okv := ei.val(rx)
				if !okv {
					return false, false
				}
				return p(v), true
			}
		}
	}
	ei.undec = "cannot evaluate condition " + core.Str(e)
	return false, false
}

// run interprets a statement list; returns the returned value.
func (ei *enumInterp) run(list []ast.Stmt) (ret string, returned bool, ok bool) {
	for _, st := range list {
		switch s := st.(type) {
		case *ast.AssignStmt:
			if len(s.Lhs) != 1 || len(s.Rhs) != 1 {
				ei.undec = "multi-assignment"
				return "", false, false
			}
			v, okv := ei.val(s.Rhs[0])
			if !okv {
				return "", false, false
			}
			o := core.ObjOf(ei.info, s.Lhs[0])
			if o == nil {
				ei.undec = "assignment to " + core.Str(s.Lhs[0])
				return "", false, false
			}
			ei.locals[o] = v
		case *ast.IfStmt:
			if s.Init != nil {
				if _, _, ok := ei.run([]ast.Stmt{s.Init}); !ok {
					return "", false, false
				}
			}
			c, okc := ei.cond(s.Cond)
			if !okc {
				return "", false, false
			}
			if c {
				r, rt, ok := ei.run(s.Body.List)
				if !ok || rt {
					return r, rt, ok
				}
			} else if s.Else != nil {
				var r string
				var rt, ok bool
				switch e := s.Else.(type) {
				case *ast.BlockStmt:
					r, rt, ok = ei.run(e.List)
				default:
					r, rt, ok = ei.run([]ast.Stmt{e})
				}
				if !ok || rt {
					return r, rt, ok
				}
			}
		case *ast.ReturnStmt:
			if len(s.Results) != 1 {
				ei.undec = "return arity"
				return "", false, false
			}
			v, okv := ei.val(s.Results[0])
			return v, true, okv
		case *ast.BlockStmt:
			r, rt, ok := ei.run(s.List)
			if !ok || rt {
				return r, rt, ok
			}
		default:
			ei.undec = fmt.Sprintf("unsupported statement %T", st)
			return "", false, false
		}
	}
	return "", false, true
}
