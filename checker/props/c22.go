package props

import (
	"fmt"
	"go/ast"
	"go/types"

	"gpverif/core"
)

func init() { register("C22", c22) }

const pkgCT = "pkg/capture/capturetypes"

func constI(p *core.Prog, rel, name string) (int64, bool) {
	v, ok := p.Const(rel, name)
	if !ok {
		return 0, false
	}
	var i int64
	_, err := fmt.Sscan(v, &i)
	return i, err == nil
}

func c22(r *core.Run) {
	r.Expl = "C22 (flow orientation independent of the first packet): decides, by evaluating the comparison-only heuristics over a complete set of representatives of the order types of their inputs (port bytes relative to each other and to the constants in the code), (1) classifyByPortsV4/V6: for every pair of different ports the verdict for (source, destination) and for the mirrored packet are opposite (remains <-> reverts), so a conversation is oriented the same way whichever side is seen first; (2) TCP: for all 256 flag bytes a SYN without ACK remains, a SYN with ACK reverts — whatever other flags are set — and everything else is decided by the ports; ICMP/ICMPv6: for all 256 type values requests (RFC 792: 8, 13; RFC 4443: 128) remain and the listed replies / errors revert, everything else is unknown; IPv4 and IPv6 classifiers agree; (3) at all four insertion sites of addToFlowLogV4/V6 a 'reverts' verdict inserts the flow under the reversed key and any other verdict under the key itself; EPHash.Reverse swaps exactly the (address, port) halves and keeps the protocol. NOT decided: heuristics beyond these tables (broadcast/multicast addresses are treated as given), conversations whose two ports are equal (documented tie)."
	r.Floor = 9
	r.Rules = append(r.Rules, "mirror-symmetry (P7: interpretation over order-type representatives)", "flag-and-type-tables (P4, exhaustive over the byte domain)", "reversed-insertion", "hash-reversal layout (P5)")
	p := r.Prog("cgo")
	for _, v := range []string{"V4", "V6"} {
		c22Ports(r, p, v)
		c22Flags(r, p, v)
		c22Reverse(r, p, v)
	}
	c22ICMP(r, p)
	c22Insertion(r, p)
}

func hashSize(p *core.Prog, v string) (size, sp, dp, proto int64, ok bool) {
	size, ok1 := constI(p, pkgCT, "EPHashSize"+v)
	sp, ok2 := constI(p, pkgCT, "EPHash"+v+"SPortStart")
	dp, ok3 := constI(p, pkgCT, "EPHash"+v+"DPortStart")
	proto, ok4 := constI(p, pkgCT, "EPHash"+v+"ProtocolPos")
	return size, sp, dp, proto, ok1 && ok2 && ok3 && ok4
}

func c22Ports(r *core.Run, p *core.Prog, v string) {
	const rule = "mirror-symmetry"
	f := r.MustFunc(rule, pkgCT, "classifyByPorts"+v)
	if f == nil {
		return
	}
	size, sp, dp, _, ok := hashSize(p, v)
	remains, ok1 := constI(p, pkgCT, "DirectionRemains")
	reverts, ok2 := constI(p, pkgCT, "DirectionReverts")
	if !ok || !ok1 || !ok2 {
		r.Missing(rule, "capturetypes EPHash"+v+" layout / Direction constants")
		return
	}
	// representatives: constants compared with in isEphemeralPort are 128 (first byte) and 0 (both bytes)
	hi := []int64{0, 1, 127, 128, 255}
	lo := []int64{0, 1, 255}
	n, bad := 0, ""
	for _, s0 := range hi {
		for _, s1 := range lo {
			for _, d0 := range hi {
				for _, d1 := range lo {
					if s0 == d0 && s1 == d1 {
						continue // equal ports: documented tie
					}
					run := func(a0, a1, b0, b1 int64) (int64, string) {
						h := make([]int64, size)
						h[sp], h[sp+1], h[dp], h[dp+1] = a0, a1, b0, b1
						m := &mini{p: p}
						rs := m.call(f, nil, []mval{mArr(h)})
						if m.undec != "" || len(rs) != 1 {
							return -1, m.undec
						}
						return rs[0].i, ""
					}
					fw, u1 := run(s0, s1, d0, d1)
					bw, u2 := run(d0, d1, s0, s1)
					if u1 != "" || u2 != "" {
						r.Undecided(rule, "classifyByPorts"+v+":interpretable", p.Rel(f.Decl.Pos()), u1+u2)
						return
					}
					n++
					opposite := (fw == remains && bw == reverts) || (fw == reverts && bw == remains)
					if !opposite && bad == "" {
						bad = fmt.Sprintf("ports %d -> %d: verdict %d; mirrored packet %d -> %d: verdict %d (remains=%d reverts=%d): the flow is stored with a different source/destination depending on which side is seen first",
							s0*256+s1, d0*256+d1, fw, d0*256+d1, s0*256+s1, bw, remains, reverts)
					}
				}
			}
		}
	}
	r.Stat("port_pairs_evaluated", n)
	r.Check(rule, "classifyByPorts"+v+":mirror-verdicts-opposite", p.Rel(f.Decl.Pos()), bad == "", bad)
}

func c22Flags(r *core.Run, p *core.Prog, v string) {
	const rule = "flag-and-type-tables"
	f := r.MustFunc(rule, pkgCT, "ClassifyPacketDirection"+v)
	if f == nil {
		return
	}
	size, _, _, proto, ok := hashSize(p, v)
	tcp, ok1 := constI(p, pkgCT, "TCP")
	remains, _ := constI(p, pkgCT, "DirectionRemains")
	reverts, _ := constI(p, pkgCT, "DirectionReverts")
	if !ok || !ok1 {
		r.Missing(rule, "capturetypes constants")
		return
	}
	const portsVerdict = 77
	bad := ""
	for aux := int64(0); aux < 256; aux++ {
		h := make([]int64, size)
		h[proto] = tcp
		m := &mini{p: p, opaque: map[string]func([]mval) mval{
			pkgCT + ".classifyByPorts" + v: func([]mval) mval { return mInt(portsVerdict) },
		}}
		rs := m.call(f, nil, []mval{mArr(h), mInt(aux)})
		if m.undec != "" || len(rs) != 1 {
			r.Undecided(rule, "ClassifyPacketDirection"+v+":tcp:interpretable", p.Rel(f.Decl.Pos()), m.undec)
			return
		}
		want := int64(portsVerdict)
		if aux&0x02 != 0 { // SYN (RFC 9293)
			want = remains
			if aux&0x10 != 0 { // ACK
				want = reverts
			}
		}
		if rs[0].i != want && bad == "" {
			bad = fmt.Sprintf("TCP flags %#02x: verdict %d, want %d (SYN without ACK is the requester's first packet, SYN+ACK the responder's, whatever other flags such as ECE/CWR/PSH are set; anything else falls back to the ports)", aux, rs[0].i, want)
		}
	}
	r.Check(rule, "ClassifyPacketDirection"+v+":tcp-handshake-table", p.Rel(f.Decl.Pos()), bad == "", bad)
	// other protocols must not be oriented by this function: unknown protocol -> unknown
	h := make([]int64, size)
	h[proto] = 47 // GRE
	m := &mini{p: p}
	rs := m.call(f, nil, []mval{mArr(h), mInt(0)})
	unk, _ := constI(p, pkgCT, "DirectionUnknown")
	r.Check(rule, "ClassifyPacketDirection"+v+":other-protocols-unknown", p.Rel(f.Decl.Pos()), m.undec == "" && len(rs) == 1 && rs[0].i == unk, "protocols without a heuristic must yield DirectionUnknown "+m.undec)
}

func c22ICMP(r *core.Run, p *core.Prog) {
	const rule = "flag-and-type-tables"
	remains, _ := constI(p, pkgCT, "DirectionRemains")
	reverts, _ := constI(p, pkgCT, "DirectionReverts")
	unk, _ := constI(p, pkgCT, "DirectionUnknown")
	// RFC 792 / RFC 4443 type numbers (frozen oracle)
	v4 := map[int64]int64{8: remains, 13: remains, 0: reverts, 3: reverts, 11: reverts, 12: reverts, 14: reverts}
	v6 := map[int64]int64{128: remains, 129: reverts, 1: reverts, 3: reverts, 4: reverts}
	if f := r.MustFunc(rule, pkgCT, "classifyICMPv4"); f != nil {
		bad := ""
		for t := int64(0); t < 256; t++ {
			m := &mini{p: p}
			rs := m.call(f, nil, []mval{mInt(t)})
			if m.undec != "" || len(rs) != 1 {
				r.Undecided(rule, "classifyICMPv4:interpretable", p.Rel(f.Decl.Pos()), m.undec)
				return
			}
			want, ok := v4[t]
			if !ok {
				want = unk
			}
			if rs[0].i != want && bad == "" {
				bad = fmt.Sprintf("ICMP type %d: verdict %d, want %d (RFC 792: echo request 8 and timestamp request 13 are requests; 0, 3, 11, 12, 14 are replies / errors)", t, rs[0].i, want)
			}
		}
		r.Check(rule, "classifyICMPv4:type-table", p.Rel(f.Decl.Pos()), bad == "", bad)
	}
	if f := r.MustFunc(rule, pkgCT, "classifyICMPv6"); f != nil {
		size, _, _, _, _ := hashSize(p, "V6")
		bad := ""
		for t := int64(0); t < 256; t++ {
			m := &mini{p: p}
			h := make([]int64, size) // unicast destination
			rs := m.call(f, nil, []mval{mArr(h), mInt(t)})
			if m.undec != "" || len(rs) != 1 {
				r.Undecided(rule, "classifyICMPv6:interpretable", p.Rel(f.Decl.Pos()), m.undec)
				return
			}
			want, ok := v6[t]
			if !ok {
				want = unk
			}
			if rs[0].i != want && bad == "" {
				bad = fmt.Sprintf("ICMPv6 type %d: verdict %d, want %d (RFC 4443: echo request 128 is the request; 129, 1, 3, 4 are replies / errors)", t, rs[0].i, want)
			}
		}
		r.Check(rule, "classifyICMPv6:type-table", p.Rel(f.Decl.Pos()), bad == "", bad)
	}
}

// c22Reverse: EPHash.Reverse copies [dip..dportEnd) to [sip..sportEnd), vice versa, and the protocol byte.
func c22Reverse(r *core.Run, p *core.Prog, v string) {
	const rule = "hash-reversal"
	f := r.MustFunc(rule, pkgCT, "EPHash"+v+".Reverse")
	if f == nil {
		return
	}
	size, _, _, _, ok := hashSize(p, v)
	if !ok {
		return
	}
	info := f.Info()
	// evaluate the copies symbolically: destination index -> source index
	mapping := map[int64]int64{}
	okShape := true
	core.Walk(f.Decl.Body, false, func(x ast.Node) bool {
		switch s := x.(type) {
		case *ast.CallExpr:
			if core.CallName(info, s) == "builtin.copy" && len(s.Args) == 2 {
				d, ok1 := ast.Unparen(s.Args[0]).(*ast.SliceExpr)
				sr, ok2 := ast.Unparen(s.Args[1]).(*ast.SliceExpr)
				if !ok1 || !ok2 {
					okShape = false
					return true
				}
				dl, a1 := core.ConstInt(info, d.Low)
				dh, a2 := core.ConstInt(info, d.High)
				sl, a3 := core.ConstInt(info, sr.Low)
				sh, a4 := core.ConstInt(info, sr.High)
				if !(a1 && a2 && a3 && a4) || dh-dl != sh-sl {
					okShape = false
					return true
				}
				for i := int64(0); i < dh-dl; i++ {
					mapping[dl+i] = sl + i
				}
			}
		case *ast.AssignStmt:
			if len(s.Lhs) == 1 && len(s.Rhs) == 1 {
				if li, ok := ast.Unparen(s.Lhs[0]).(*ast.IndexExpr); ok {
					if ri, ok := ast.Unparen(s.Rhs[0]).(*ast.IndexExpr); ok {
						a, ok1 := core.ConstInt(info, li.Index)
						b, ok2 := core.ConstInt(info, ri.Index)
						if ok1 && ok2 {
							mapping[a] = b
						}
					}
				}
			}
		}
		return true
	})
	half := (size - 1) / 2
	bad := ""
	for i := int64(0); i < size; i++ {
		want := i
		switch {
		case i < half:
			want = i + half
		case i < 2*half:
			want = i - half
		}
		if got, ok := mapping[i]; !ok || got != want {
			bad = fmt.Sprintf("byte %d of the reversed hash comes from byte %d of the original (want %d: source and destination halves swapped, protocol kept)", i, mapping[i], want)
		}
	}
	r.Check(rule, "EPHash"+v+".Reverse:swaps-endpoints-keeps-protocol", p.Rel(f.Decl.Pos()), okShape && bad == "", bad)
}

// c22Insertion: in addToFlowLogV4/V6 every insertion of a new flow is keyed by the reversed hash iff the verdict is DirectionReverts.
func c22Insertion(r *core.Run, p *core.Prog) {
	const rule = "reversed-insertion"
	for _, v := range []string{"V4", "V6"} {
		f := r.MustFunc(rule, pkgCapture, "Capture.addToFlowLog"+v)
		if f == nil {
			continue
		}
		info := f.Info()
		hash := f.Obj.Type().(*types.Signature).Params().At(0)
		g := core.GraphOf(f)
		cases := enumTests(f.Decl.Body)
		// the reversed hash: a local defined as <hash>.Reverse()
		revs := map[types.Object]bool{}
		core.Walk(f.Decl.Body, false, func(y ast.Node) bool {
			if a, ok := y.(*ast.AssignStmt); ok && len(a.Rhs) == 1 && len(a.Lhs) == 1 {
				if c, ok := a.Rhs[0].(*ast.CallExpr); ok && core.CallName(info, c) == pkgCT+".EPHash"+v+".Reverse" {
					if rx, _ := core.MethodCall(info, c); rx != nil && core.ObjOf(info, rx) == hash {
						revs[core.ObjOf(info, a.Lhs[0])] = true
					}
				}
			}
			return true
		})
		isClassify := func(e ast.Expr) bool {
			c, ok := ast.Unparen(resolveLocal(info, f.Decl.Body, e)).(*ast.CallExpr)
			return ok && core.CallName(info, c) == pkgCT+".ClassifyPacketDirection"+v && len(c.Args) == 2 && core.ObjOf(info, c.Args[0]) == hash
		}
		paths, okP := g.Paths(core.Entry, core.Exit, 20000)
		if !okP || len(revs) == 0 {
			r.Undecided(rule, "addToFlowLog"+v+":paths", p.Rel(f.Decl.Pos()), "too many paths, or no reversed hash (<hash>.Reverse()) found")
			continue
		}
		revSites, ownSites := map[ast.Node]bool{}, map[ast.Node]bool{}
		bad := ""
		for _, path := range paths {
			verdict := "" // "reverts" | "other"
			for i, id := range path {
				n := g.Nodes[id]
				if n == nil {
					continue
				}
				if tk, isC := g.Taken(path, i); isC {
					if subj, k, eq, ok := enumCond(cases, n, tk); ok && isClassify(subj) {
						if o := core.ObjOf(info, selOrIdent(k)); o != nil && o.Name() == "DirectionReverts" {
							verdict = map[bool]string{true: "reverts", false: "other"}[eq]
						} else if eq {
							verdict = "other"
						}
					}
					continue
				}
				a, ok := n.(*ast.AssignStmt)
				if !ok || len(a.Lhs) != 1 || len(a.Rhs) != 1 {
					continue
				}
				ix, isIx := ast.Unparen(a.Lhs[0]).(*ast.IndexExpr)
				c, isCall := a.Rhs[0].(*ast.CallExpr)
				if !isIx || !isCall || core.CallName(info, c) != pkgCapture+".NewFlow" {
					continue
				}
				usesRev, usesOwn := mentionsAny(info, ix.Index, revs), core.MentionsObj(info, ix.Index, hash)
				pl := pathLines(p, g, path)
				switch {
				case usesRev && !usesOwn:
					revSites[a] = true
					if verdict != "reverts" {
						bad = "a new flow is stored under the reversed key although its first packet was not classified as a response (DirectionReverts): " + pl
					}
				case usesOwn && !usesRev:
					ownSites[a] = true
					if verdict != "other" {
						bad = "a new flow is stored under the packet's own key although the classification said the packet is a response (or was not consulted): " + pl
					}
				default:
					bad = "a new flow is stored under a key that is neither the packet's hash nor its reverse: " + pl
				}
			}
		}
		n := len(revSites)
		r.Check(rule, "addToFlowLog"+v+":insertion-key-follows-verdict", p.Rel(f.Decl.Pos()), bad == "" && len(revSites) == len(ownSites),
			orStr(bad, fmt.Sprintf("%d reversed-key and %d own-key insertion sites", len(revSites), len(ownSites))))
		if n != 2 {
			r.Undecided(rule, "addToFlowLog"+v+":insertion-sites", p.Rel(f.Decl.Pos()), fmt.Sprintf("%d insertion sites recognised (2 expected: reverse-first and forward-first lookup order)", n))
		}
	}
}
