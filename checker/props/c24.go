package props

import (
	"fmt"
	"go/ast"
	"go/token"
	"go/types"
	"regexp"
	"strings"

	"gpverif/core"
)

func init() { register("C24", c24); register("C25", c25) }

func c24(r *core.Run) {
	r.Expl = "C24 (merging follows the documented per-day plan): decides (1) planDayMerge, evaluated on all 16 combinations of (source complete, destination has the day, destination complete, overwrite), yields exactly the documented action: copy a complete source day when the destination lacks it or overwrite is set, keep (skip) complete-vs-complete without overwrite, otherwise rebuild — from the source only when the destination lacks the day, from both otherwise; (2) mergeSnapshots, evaluated on all 8 combinations of (block in source, block in destination, overwrite), takes the destination's block on conflict (the source's with overwrite), counts the conflict on the winning side, and takes the only existing block otherwise; output in ascending timestamp order; (3) per day exactly one of DaysSkipped / DaysCopied / DaysRebuilt is incremented on every path, conflict counters only with a rebuild, also in a dry run; (4) a dry run changes nothing: every file-modifying call and every call of a staging / committing helper in MergeDatabases is reachable only on the not-dry-run side of an opts.DryRun test; (5) the source is never modified: the copy helpers write only through their destination parameter, staged data goes below the stage root, commits below the destination interface path. NOT decided: the resulting database contents, idempotence of a repeated merge, completeness classification arithmetic."
	r.Floor = 30
	r.Rules = append(r.Rules, "plan-decision-table (P7)", "snapshot-decision-table (P7)", "day-accounting (P2)", "dry-run-guard (P1)", "source-read-only", "commit-installs-staged-day (P2)")
	p := r.Prog("cgo")
	c24Plan(r, p)
	c24Snapshots(r, p)
	c24Accounting(r, p)
	c24DryRun(r, p)
	c24SourceReadOnly(r, p)
	if f := r.MustFunc("commit-installs-staged-day", pkgGoDB, "commitStagedDay"); f != nil {
		g := core.GraphOf(f)
		_, badInstall, nOK, ok := commitPaths(p, f, g, commitClassifier(f))
		r.Check("commit-installs-staged-day", "commitStagedDay:every-success-installs-the-staged-day", p.Rel(f.Decl.Pos()), ok && nOK > 0 && badInstall == "", orStr(badInstall, "the planned copy / rebuild takes effect only when the staged day is renamed into the destination"))
	}
}

func c24Plan(r *core.Run, p *core.Prog) {
	const rule = "plan-decision-table"
	f := r.MustFunc(rule, pkgGoDB, "planDayMerge")
	if f == nil {
		return
	}
	skip, _ := constI(p, pkgGoDB, "mergeDayActionSkip")
	cp, _ := constI(p, pkgGoDB, "mergeDayActionCopy")
	rb, _ := constI(p, pkgGoDB, "mergeDayActionRebuild")
	sig := f.Obj.Type().(*types.Signature)
	if sig.Params().Len() != 4 {
		r.Undecided(rule, "planDayMerge:signature", p.Rel(f.Decl.Pos()), "expected (srcDay, hasDst, dstDay, overwrite)")
		return
	}
	src, dst := sig.Params().At(0).Name(), sig.Params().At(2).Name()
	name := map[int64]string{skip: "skip", cp: "copy", rb: "rebuild"}
	for _, sc := range []bool{false, true} {
		for _, hd := range []bool{false, true} {
			for _, dc := range []bool{false, true} {
				for _, ow := range []bool{false, true} {
					m := &mini{p: p, fields: map[string]mval{src + ".Complete": mBool(sc), dst + ".Complete": mBool(dc && hd)}}
					rs := m.call(f, nil, []mval{{kind: "struct"}, mBool(hd), {kind: "struct"}, mBool(ow)})
					key := fmt.Sprintf("planDayMerge:(srcComplete=%v,hasDst=%v,dstComplete=%v,overwrite=%v)", sc, hd, dc, ow)
					if m.undec != "" || len(rs) != 1 {
						r.Undecided(rule, key, p.Rel(f.Decl.Pos()), m.undec)
						continue
					}
					// the returned struct is the local `plan`
					ret := ""
					core.Walk(f.Decl.Body, false, func(x ast.Node) bool {
						if rsx, ok := x.(*ast.ReturnStmt); ok && len(rsx.Results) == 1 {
							ret = core.Str(rsx.Results[0])
						}
						return true
					})
					act := m.fields[ret+".Action"].i
					us, ud := m.fields[ret+".UseSource"].b, m.fields[ret+".UseDest"].b
					// documented rule
					var wantAct int64
					wantUS, wantUD := false, false
					switch {
					case !hd && sc:
						wantAct = cp
					case !hd:
						wantAct, wantUS = rb, true
					case sc && dc && hd:
						if ow {
							wantAct = cp
						} else {
							wantAct = skip
						}
					case ow && sc:
						wantAct = cp
					default:
						wantAct, wantUS, wantUD = rb, true, true
					}
					if !hd && dc {
						continue // not a reachable input (no destination day cannot be complete)
					}
					okP := act == wantAct && (act != rb || (us == wantUS && ud == wantUD))
					r.Check(rule, key, p.Rel(f.Decl.Pos()), okP, fmt.Sprintf("plan is %s (useSource=%v useDest=%v), the documented rule gives %s (useSource=%v useDest=%v)", name[act], us, ud, name[wantAct], wantUS, wantUD))
				}
			}
		}
	}
}

func c24Snapshots(r *core.Run, p *core.Prog) {
	const rule = "snapshot-decision-table"
	f := r.MustFunc(rule, pkgGoDB, "mergeSnapshots")
	if f == nil {
		return
	}
	info := f.Info()
	// the per-timestamp loop: contains `x, has := m[ts]` lookups and a switch
	var loop *ast.RangeStmt
	core.Walk(f.Decl.Body, false, func(x ast.Node) bool {
		if rs, ok := x.(*ast.RangeStmt); ok {
			has := false
			core.Walk(rs.Body, false, func(y ast.Node) bool {
				if _, ok := y.(*ast.SwitchStmt); ok {
					has = true
				}
				return true
			})
			if has {
				loop = rs
			}
		}
		return true
	})
	if loop == nil {
		r.Undecided(rule, "mergeSnapshots:loop", p.Rel(f.Decl.Pos()), "no per-timestamp loop with a switch")
		return
	}
	sig := f.Obj.Type().(*types.Signature)
	srcMap, dstMap, ow := sig.Params().At(0), sig.Params().At(1), sig.Params().At(2)
	// lookups
	var srcVal, srcHas, dstVal, dstHas types.Object
	var rest []ast.Stmt
	for _, st := range loop.Body.List {
		if a, ok := st.(*ast.AssignStmt); ok && len(a.Lhs) == 2 && len(a.Rhs) == 1 {
			if ix, ok := ast.Unparen(a.Rhs[0]).(*ast.IndexExpr); ok {
				switch core.ObjOf(info, ix.X) {
				case srcMap:
					srcVal, srcHas = core.ObjOf(info, a.Lhs[0]), core.ObjOf(info, a.Lhs[1])
					continue
				case dstMap:
					dstVal, dstHas = core.ObjOf(info, a.Lhs[0]), core.ObjOf(info, a.Lhs[1])
					continue
				}
			}
		}
		rest = append(rest, st)
	}
	if srcVal == nil || dstVal == nil {
		r.Undecided(rule, "mergeSnapshots:lookups", p.Rel(loop.Pos()), "map lookups of the two sides not recognised")
		return
	}
	var resSrc, resDst types.Object // named results conflictsBySource / ByDest (by position 2,1)
	resDst, resSrc = sig.Results().At(1), sig.Results().At(2)
	merged := sig.Results().At(0)
	for _, hs := range []bool{false, true} {
		for _, hdv := range []bool{false, true} {
			for _, o := range []bool{false, true} {
				m := &mini{p: p}
				env := &menv{info: info, vars: map[types.Object]mval{srcHas: mBool(hs), dstHas: mBool(hdv), ow: mBool(o), srcVal: {kind: "struct"}, dstVal: {kind: "struct"}}}
				m.block(env, rest)
				key := fmt.Sprintf("mergeSnapshots:(inSource=%v,inDestination=%v,overwrite=%v)", hs, hdv, o)
				if m.undec != "" {
					r.Undecided(rule, key, p.Rel(loop.Pos()), m.undec)
					continue
				}
				var want []string
				switch {
				case hs && hdv && o:
					want = []string{"append(" + merged.Name() + "," + srcVal.Name() + ")", resSrc.Name() + "++"}
				case hs && hdv:
					want = []string{"append(" + merged.Name() + "," + dstVal.Name() + ")", resDst.Name() + "++"}
				case hs:
					want = []string{"append(" + merged.Name() + "," + srcVal.Name() + ")"}
				case hdv:
					want = []string{"append(" + merged.Name() + "," + dstVal.Name() + ")"}
				}
				r.Check(rule, key, p.Rel(loop.Pos()), strings.Join(m.trace, ";") == strings.Join(want, ";"),
					fmt.Sprintf("does [%s], the documented rule is [%s] (destination wins conflicts unless overwrite; conflicts counted on the winning side)", strings.Join(m.trace, "; "), strings.Join(want, "; ")))
			}
		}
	}
	// ascending timestamps
	asc := false
	core.Walk(f.Decl.Body, false, func(x ast.Node) bool {
		if c, ok := x.(*ast.CallExpr); ok && core.CallName(info, c) == "sort.Slice" && len(c.Args) == 2 {
			if fl, ok := c.Args[1].(*ast.FuncLit); ok && core.ObjOf(info, c.Args[0]) == core.ObjOf(info, loop.X) {
				bf := abstractBoolFn(info, fl.Body)
				if bf.undec == "" && len(bf.rels) == 1 {
					asc = true
					for _, env := range bf.envs() {
						if bf.table[env.key(bf.rels, bf.bools)] != (env.rel[bf.rels[0]] < 0) {
							asc = false
						}
					}
				}
			}
		}
		return true
	})
	r.Check(rule, "mergeSnapshots:ascending-timestamps", p.Rel(f.Decl.Pos()), asc, "the union of timestamps (collected from maps in random order) must be sorted ascending before the blocks are emitted: the storage layer rejects decreasing timestamps")
}

func c24Accounting(r *core.Run, p *core.Prog) {
	const rule = "day-accounting"
	f := r.MustFunc(rule, pkgGoDB, "MergeDatabases")
	if f == nil {
		return
	}
	info := f.Info()
	// the day loop: innermost range whose body calls planDayMerge
	var loop *ast.RangeStmt
	core.Walk(f.Decl.Body, false, func(x ast.Node) bool {
		if rs, ok := x.(*ast.RangeStmt); ok {
			direct := false
			for _, st := range rs.Body.List {
				core.Walk(st, false, func(y ast.Node) bool {
					if _, isLoop := y.(*ast.RangeStmt); isLoop {
						return false
					}
					if c, ok := y.(*ast.CallExpr); ok && core.CallName(info, c) == pkgGoDB+".planDayMerge" {
						direct = true
					}
					return true
				})
			}
			if direct {
				loop = rs
			}
		}
		return true
	})
	if loop == nil {
		r.Undecided(rule, "MergeDatabases:day-loop", p.Rel(f.Decl.Pos()), "no loop calling planDayMerge")
		return
	}
	wrap := &ast.BlockStmt{List: loop.Body.List}
	g := core.NewGraph(info, wrap)
	fAction := p.FieldObj(pkgGoDB, "dayPlan", "Action")
	caseOfAction := map[ast.Node]bool{}
	core.Walk(wrap, false, func(x ast.Node) bool {
		if sw, ok := x.(*ast.SwitchStmt); ok && sw.Tag != nil && core.SelField(info, sw.Tag) == fAction {
			for _, cc := range sw.Body.List {
				for _, e := range cc.(*ast.CaseClause).List {
					caseOfAction[e] = true
				}
			}
		}
		return true
	})
	// the action domain: constants of the action type
	var actions []string
	if fAction != nil {
		sc := fAction.Pkg().Scope()
		for _, nm := range sc.Names() {
			if c, ok := sc.Lookup(nm).(*types.Const); ok && types.Identical(c.Type(), fAction.Type()) {
				actions = append(actions, nm)
			}
		}
	}
	if len(actions) != 3 {
		r.Undecided(rule, "MergeDatabases:action-domain", p.Rel(loop.Pos()), fmt.Sprintf("action constants: %v", actions))
		return
	}
	cl := func(n ast.Node, cond *bool) []ev {
		var out []ev
		if inc, ok := n.(*ast.IncDecStmt); ok && inc.Tok == token.INC {
			if fv := core.SelField(info, inc.X); fv != nil {
				out = append(out, ev{label: "inc:" + fv.Name()})
			}
		}
		if a, ok := n.(*ast.AssignStmt); ok && a.Tok == token.ADD_ASSIGN {
			if fv := core.SelField(info, a.Lhs[0]); fv != nil {
				out = append(out, ev{label: "add:" + fv.Name()})
			}
		}
		if cond != nil {
			// if plan.Action == X / switch plan.Action { case X: }
			var konst types.Object
			if b, ok := core.BinOp(n.(ast.Expr), token.EQL); ok && core.SelField(info, b.X) == fAction {
				konst = core.ObjOf(info, selOrIdent(b.Y))
			} else if caseOfAction[n] {
				konst = core.ObjOf(info, selOrIdent(n.(ast.Expr)))
			}
			if konst != nil {
				out = append(out, ev{label: map[bool]string{true: "action:", false: "notaction:"}[*cond] + konst.Name()})
			}
		}
		if _, ok := n.(*ast.ReturnStmt); ok {
			out = append(out, ev{label: "return"})
		}
		return out
	}
	fake := &core.Fn{Prog: p, Pkg: f.Pkg, Decl: &ast.FuncDecl{Body: wrap, Name: f.Decl.Name, Type: &ast.FuncType{}}, Obj: f.Obj, Name: f.Name}
	ts, ok := traces(fake, g, cl, 50000)
	if !ok {
		r.Undecided(rule, "MergeDatabases:day-paths", p.Rel(loop.Pos()), "too many paths")
		return
	}
	r.Stat("paths_enumerated", len(ts))
	bad := ""
	nDone := 0
	for _, t := range ts {
		if t.has("return") {
			continue // error / cancellation
		}
		// infeasible: two different actions tested true, or an action tested true and false, or all three tested false
		pos, neg := map[string]bool{}, map[string]bool{}
		for _, a := range actions {
			if t.has("action:" + a) {
				pos[a] = true
			}
			if t.has("notaction:" + a) {
				neg[a] = true
			}
		}
		feasible := len(pos) <= 1 && len(neg) < len(actions)
		for a := range pos {
			if neg[a] {
				feasible = false
			}
		}
		if !feasible {
			continue
		}
		nDone++
		days := t.count("inc:DaysSkipped") + t.count("inc:DaysCopied") + t.count("inc:DaysRebuilt")
		pl := pathLines(p, g, t.path)
		if days != 1 {
			bad = fmt.Sprintf("a day that was processed to the end is counted %d times in DaysSkipped/DaysCopied/DaysRebuilt: %s", days, pl)
		}
		if (t.has("add:ConflictsResolvedByDestination") || t.has("add:ConflictsResolvedBySource")) && !t.has("inc:DaysRebuilt") {
			bad = "conflict counters are updated for a day that was not rebuilt: " + pl
		}
		// the action on the path: the one tested true, or the only one not tested false
		act := ""
		for a := range pos {
			act = a
		}
		if act == "" && len(neg) == len(actions)-1 {
			for _, a := range actions {
				if !neg[a] {
					act = a
				}
			}
		}
		if act != "" {
			want := "inc:Days" + map[string]string{"Copy": "Copied", "Rebuild": "Rebuilt", "Skip": "Skipped"}[strings.TrimPrefix(act, "mergeDayAction")]
			if !t.has(want) {
				bad = fmt.Sprintf("a day whose plan is %s is not counted under %s: %s", act, strings.TrimPrefix(want, "inc:"), pl)
			}
		}
	}
	r.Check(rule, "MergeDatabases:one-day-counter-per-day", p.Rel(loop.Pos()), bad == "" && nDone > 0, bad)
}

// mergeSinks: helpers of the merge that (transitively) modify files.
var mergeSinks = map[string]bool{
	pkgGoDB + ".stageCopyDay": true, pkgGoDB + ".commitStagedDay": true, pkgGoDB + ".rebuildDayToStage": true,
	pkgGoDB + ".copyDir": true, pkgGoDB + ".copyFile": true, pkgGpfile + ".NewDirWriter": true,
}

func c24DryRun(r *core.Run, p *core.Prog) {
	const rule = "dry-run-guard"
	f := r.MustFunc(rule, pkgGoDB, "MergeDatabases")
	if f == nil {
		return
	}
	info := f.Info()
	g := core.GraphOf(f)
	fDry := p.FieldObj(pkgGoDB, "MergeOptions", "DryRun")
	// guards: conditions that are exactly opts.DryRun or !opts.DryRun
	type gd struct {
		node    int
		dryEdge int // successor taken when DryRun is true
	}
	var guards []gd
	for id, n := range g.Nodes {
		e, ok := n.(ast.Expr)
		if !ok || len(g.Succ[id]) != 2 {
			continue
		}
		e = ast.Unparen(e)
		thenN, elseN, _ := g.CondEdges(id)
		if core.SelField(info, e) == fDry {
			guards = append(guards, gd{id, thenN})
		}
		if u, ok := e.(*ast.UnaryExpr); ok && u.Op == token.NOT && core.SelField(info, u.X) == fDry {
			guards = append(guards, gd{id, elseN})
		}
	}
	if len(guards) == 0 {
		r.Check(rule, "MergeDatabases:tests-DryRun", p.Rel(f.Decl.Pos()), false, "MergeDatabases never tests opts.DryRun")
		return
	}
	gmap := map[int]int{}
	for _, x := range guards {
		gmap[x.node] = x.dryEdge
	}
	// reachability when DryRun is true: guards only let their dry edge through
	seen := map[int]bool{core.Entry: true}
	stack := []int{core.Entry}
	for len(stack) > 0 {
		cur := stack[len(stack)-1]
		stack = stack[:len(stack)-1]
		succs := g.Succ[cur]
		if de, ok := gmap[cur]; ok {
			succs = []int{de}
		}
		for _, s := range succs {
			if !seen[s] {
				seen[s] = true
				stack = append(stack, s)
			}
		}
	}
	n := 0
	for id, node := range g.Nodes {
		if node == nil {
			continue
		}
		var calls []*ast.CallExpr
		if d, ok := node.(*ast.DeferStmt); ok {
			calls = core.Calls(d, true)
		} else {
			calls = core.Calls(node, false)
		}
		for _, c := range calls {
			cn := core.CallName(info, c)
			if !(fileModifying[cn] || mergeSinks[cn]) {
				continue
			}
			n++
			r.Check(rule, fmt.Sprintf("MergeDatabases:%s", cn[strings.LastIndex(cn, "/")+1:]), p.Rel(c.Pos()), !seen[id],
				fmt.Sprintf("%s is reachable in a dry run (no opts.DryRun test separates it from the function entry): a dry run must not create, stage or change anything", cn))
		}
	}
	if n < 5 {
		r.Undecided(rule, "MergeDatabases:sinks", p.Rel(f.Decl.Pos()), fmt.Sprintf("only %d modifying calls found in MergeDatabases", n))
	}
	// the counters are maintained in the dry run as well: among the statements a dry run can reach there must be an
	// increment of the copied-days and of the rebuilt-days counter (fields resolved through the type checker, so the
	// increments may sit in a helper, behind a pointer, in a switch or in an if-chain)
	dryFields := map[string]bool{}
	for id, node := range g.Nodes {
		if node == nil || !seen[id] {
			continue
		}
		var target ast.Expr
		switch s := node.(type) {
		case *ast.IncDecStmt:
			if s.Tok == token.INC {
				target = s.X
			}
		case *ast.AssignStmt:
			if s.Tok == token.ADD_ASSIGN && len(s.Lhs) == 1 {
				target = s.Lhs[0]
			}
		}
		if target == nil {
			continue
		}
		if fv := core.SelField(info, target); fv != nil && (fv.Name() == "DaysCopied" || fv.Name() == "DaysRebuilt") {
			dryFields[fv.Name()] = true
		}
	}
	dryCounts := len(dryFields)
	r.Check(rule, "MergeDatabases:dry-run-reports-planned-actions", p.Rel(f.Decl.Pos()), dryCounts >= 2, "a dry run must count the days it would copy / rebuild")
}

// c24SourceReadOnly: copy helpers write through their destination parameter only; stage / commit targets derive from stage root / destination.
func c24SourceReadOnly(r *core.Run, p *core.Prog) {
	const rule = "source-read-only"
	paramIdx := func(f *core.Fn, o types.Object) int {
		sig := f.Obj.Type().(*types.Signature)
		for i := 0; i < sig.Params().Len(); i++ {
			if sig.Params().At(i) == o {
				return i
			}
		}
		return -1
	}
	// roots: the parameters the root (leading element) of a path expression derives from: Join(a, …) / Clean(a) / helper(a, …) → root of a;
	// single-definition locals are followed; anything else contributes every parameter it mentions
	var roots func(f *core.Fn, e ast.Expr, depth int) map[int]bool
	roots = func(f *core.Fn, e ast.Expr, depth int) map[int]bool {
		out := map[int]bool{}
		if depth > 8 {
			out[-2] = true
			return out
		}
		info := f.Info()
		e = ast.Unparen(e)
		if c, ok := e.(*ast.CallExpr); ok && len(c.Args) > 0 {
			cn := core.CallName(info, c)
			switch cn {
			case "path/filepath.Join", "path/filepath.Clean", "path.Join", "strings.TrimSuffix":
				return roots(f, c.Args[0], depth+1)
			}
			if fo, _ := core.Callee(info, c).(*types.Func); fo != nil {
				if h := p.FnOf(fo); h != nil && h.Decl.Body != nil {
					// helper: root of its (single) returned path, mapped back to the arguments
					var rets []ast.Expr
					core.Walk(h.Decl.Body, false, func(x ast.Node) bool {
						if rs, ok := x.(*ast.ReturnStmt); ok && len(rs.Results) >= 1 {
							rets = append(rets, rs.Results[0])
						}
						return true
					})
					if len(rets) == 1 {
						for k := range roots(h, rets[0], depth+1) {
							if k >= 0 && k < len(c.Args) {
								for kk := range roots(f, c.Args[k], depth+1) {
									out[kk] = true
								}
							} else {
								out[-2] = true
							}
						}
						return out
					}
				}
			}
		}
		if id, ok := e.(*ast.Ident); ok {
			o := info.Uses[id]
			if i := paramIdx(f, o); i >= 0 {
				out[i] = true
				return out
			}
			if v, isVar := o.(*types.Var); isVar && !v.IsField() && v.Parent() != v.Pkg().Scope() {
				if d := singleDef(info, f.Decl.Body, o); d != nil {
					return roots(f, d, depth+1)
				}
			}
		}
		core.Walk(e, false, func(x ast.Node) bool {
			id, ok := x.(*ast.Ident)
			if !ok {
				return true
			}
			o := info.Uses[id]
			v, isVar := o.(*types.Var)
			if !isVar || v.IsField() {
				return true
			}
			if i := paramIdx(f, o); i >= 0 {
				out[i] = true
				return true
			}
			if v.Parent() == v.Pkg().Scope() {
				return true
			}
			found := false
			core.Walk(f.Decl.Body, false, func(y ast.Node) bool {
				if a, ok := y.(*ast.AssignStmt); ok && len(a.Rhs) == 1 {
					for _, l := range a.Lhs {
						if core.ObjOf(info, l) == o {
							found = true
							for k := range roots(f, a.Rhs[0], depth+1) {
								out[k] = true
							}
						}
					}
				}
				return true
			})
			if !found {
				out[-2] = true
			}
			return true
		})
		return out
	}
	type spec struct {
		fn       string
		writeArg map[string]int // sink callee -> index of the path argument
		allowed  []int          // parameter indices a written path may derive from
		why      string
	}
	specs := []spec{
		{"copyFile", map[string]int{"os.OpenFile": 0, "os.Create": 0, "os.WriteFile": 0}, []int{1}, "copyFile(src, dst) may create / write only dst"},
		{"copyDir", map[string]int{"os.MkdirAll": 0, "os.Mkdir": 0, pkgGoDB + ".copyFile": 1, pkgGoDB + ".copyDir": 1}, []int{1}, "copyDir(src, dst) may create only below dst"},
		{"stageCopyDay", map[string]int{pkgGoDB + ".copyDir": 1}, []int{0, 1}, "stageCopyDay(stageRoot, iface, srcDay) may write only below stageRoot/iface (the source day is the copy's source)"},
		{"commitStagedDay", map[string]int{"os.MkdirAll": 0}, []int{1, 2}, "commitStagedDay creates the month directory below the destination interface path"},
		{"rebuildDayToStage", map[string]int{pkgGpfile + ".NewDirWriter": 0}, []int{1, 2}, "rebuildDayToStage writes the rebuilt day below stageRoot/iface"},
	}
	for _, sp := range specs {
		f := r.MustFunc(rule, pkgGoDB, sp.fn)
		if f == nil {
			continue
		}
		info := f.Info()
		n := 0
		core.Walk(f.Decl.Body, true, func(x ast.Node) bool {
			c, ok := x.(*ast.CallExpr)
			if !ok {
				return true
			}
			cn := core.CallName(info, c)
			ai, isSink := sp.writeArg[cn]
			if !isSink || ai >= len(c.Args) {
				if fileModifying[cn] && cn != "os.OpenFile" {
					if _, listed := sp.writeArg[cn]; !listed && cn != "os.Rename" && cn != "os.RemoveAll" {
						n++
						r.Check(rule, sp.fn+":"+cn, p.Rel(c.Pos()), false, "unexpected file-modifying call in "+sp.fn)
					}
				}
				return true
			}
			if cn == "os.OpenFile" {
				if fl, okc := core.ConstInt(info, c.Args[1]); okc && fl == 0 {
					return true
				}
			}
			n++
			rs := roots(f, c.Args[ai], 0)
			okR := len(rs) > 0
			for k := range rs {
				allowed := false
				for _, a := range sp.allowed {
					if a == k {
						allowed = true
					}
				}
				if !allowed {
					okR = false
				}
			}
			var names []string
			sig := f.Obj.Type().(*types.Signature)
			for k := range rs {
				if k >= 0 && k < sig.Params().Len() {
					names = append(names, sig.Params().At(k).Name())
				}
			}
			r.Check(rule, fmt.Sprintf("%s:%s(%s)", sp.fn, cn[strings.LastIndex(cn, "/")+1:], core.Str(c.Args[ai])), p.Rel(c.Pos()), okR,
				fmt.Sprintf("%s; the written path derives from parameters %v", sp.why, names))
			return true
		})
		if n == 0 {
			r.Undecided(rule, sp.fn+":sinks", p.Rel(f.Decl.Pos()), "no write sink found in "+sp.fn)
		}
	}
	// commitStagedDay: renames involve only the staged path, the existing destination day and paths derived from them
	if f := r.MustFunc(rule, pkgGoDB, "commitStagedDay"); f != nil {
		info := f.Info()
		bad := ""
		core.Walk(f.Decl.Body, true, func(x ast.Node) bool {
			if c, ok := x.(*ast.CallExpr); ok && core.CallName(info, c) == "os.Rename" {
				for _, a := range c.Args {
					for k := range roots(f, a, 0) {
						if k != 0 && k != 1 && k != 2 && k != 3 {
							bad = core.Str(a)
						}
					}
				}
			}
			return true
		})
		r.Check(rule, "commitStagedDay:renames-within-destination", p.Rel(f.Decl.Pos()), bad == "", bad)
	}
	// MergeDatabases passes the right roots: stageCopyDay(stageRoot,…), commitStagedDay(staged, dstIfacePath,…, existing from plan.DestDay), rebuildDayToStage(ctx, stageRoot, …)
	if f := r.MustFunc(rule, pkgGoDB, "MergeDatabases"); f != nil {
		info := f.Info()
		nCommit := 0
		core.Walk(f.Decl.Body, false, func(x ast.Node) bool {
			c, ok := x.(*ast.CallExpr)
			if !ok {
				return true
			}
			switch core.CallName(info, c) {
			case pkgGoDB + ".stageCopyDay":
				r.Check(rule, "MergeDatabases:stageCopyDay-target", p.Rel(c.Pos()), core.Str(c.Args[0]) == "stageRoot" && strings.HasSuffix(core.Str(c.Args[2]), ".SourceDay"), "days are staged below the stage root, copying from the plan's source day")
			case pkgGoDB + ".commitStagedDay":
				okC := !strings.Contains(strings.ToLower(core.Str(c.Args[1])), "src") && !strings.Contains(strings.ToLower(core.Str(c.Args[1])), "source")
				// existing := &plan.DestDay
				if o := core.ObjOf(info, c.Args[3]); o != nil {
					core.Walk(f.Decl.Body, false, func(y ast.Node) bool {
						if a, ok := y.(*ast.AssignStmt); ok && len(a.Lhs) == 1 && len(a.Rhs) == 1 && core.ObjOf(info, a.Lhs[0]) == o && (a.Tok == token.ASSIGN || a.Tok == token.DEFINE) {
							if !strings.HasSuffix(core.Str(a.Rhs[0]), ".DestDay") && !core.IsNil(info, a.Rhs[0]) {
								okC = false
							}
						}
						return true
					})
				}
				nCommit++
				r.Check(rule, fmt.Sprintf("MergeDatabases:commitStagedDay-target#%d", nCommit), p.Rel(c.Pos()), okC, "staged days are committed into the destination interface path, replacing the plan's destination day only")
			}
			return true
		})
	}
}

func c25(r *core.Run) {
	r.Expl = "C25 (interrupted merge never duplicates or hides data): decides (1) the order inside commitStagedDay: an existing destination day is renamed to its backup name before the staged day is renamed into place, the backup is removed only after that rename succeeded and restored if it failed, and the backup name starts with the replaced day's own path (it stays beside the day, not in the staging area); new days reach their final path by one rename from the stage directory, never by being written in place (MergeDatabases hands every copy / rebuild to the stage root and commitStagedDay); (2) namespace separation (P17): the names the merge reserves inside a database — the stage directory pattern below the DB root and the backup pattern next to a day directory — are evaluated, as constants, against the name predicate of every function that turns directory entries into interfaces or days (info.GetInterfaces, listSourceInterfaces, walkDB, listInterfaceDays, locateDayDirectory, the prefix search used to recover a renamed day): a lister that accepts a reserved name mistakes leftovers of a killed merge for an interface or a day. NOT decided: the state at each crash point; the window between the two renames of commitStagedDay is inherent to the two-rename swap and recorded as a known finding."
	r.Floor = 7
	r.Rules = append(r.Rules, "commit-order (P1)", "reserved-name-separation (P17)", "staged-then-renamed")
	p := r.Prog("cgo")
	c25Commit(r, p)
	c25BackupPlace(r, p)
	c25Names(r, p)
}

func c25Commit(r *core.Run, p *core.Prog) {
	const rule = "commit-order"
	f := r.MustFunc(rule, pkgGoDB, "commitStagedDay")
	if f == nil {
		return
	}
	info := f.Info()
	g := core.GraphOf(f)
	cl := commitClassifier(f)
	bad, badInstall, nOK, ok := commitPaths(p, f, g, cl)
	_ = badInstall
	r.Check(rule, "commitStagedDay:backup-then-rename", p.Rel(f.Decl.Pos()), ok && bad == "" && nOK > 0, bad)
	// deferred completion: err == nil -> remove backup; else restore
	okDefer := false
	for _, d := range g.Defer {
		fl, ok := d.Call.Fun.(*ast.FuncLit)
		if !ok {
			continue
		}
		removes, restores, testsErr := false, false, false
		core.Walk(fl.Body, false, func(x ast.Node) bool {
			if c, ok := x.(*ast.CallExpr); ok {
				switch core.CallName(info, c) {
				case "os.RemoveAll", "os.Remove":
					if strings.Contains(strings.ToLower(core.Str(c.Args[0])), "backup") {
						removes = true
					}
				case "os.Rename":
					if strings.Contains(strings.ToLower(core.Str(c.Args[0])), "backup") {
						restores = true
					}
				}
			}
			if ifs, ok := x.(*ast.IfStmt); ok {
				if b, ok := core.BinOp(ifs.Cond, token.EQL, token.NEQ); ok && core.IsNil(info, b.Y) {
					if o := core.ObjOf(info, b.X); o != nil && core.IsErrorType(o.Type()) {
						testsErr = true
					}
				}
			}
			return true
		})
		okDefer = removes && restores && testsErr
	}
	r.Check(rule, "commitStagedDay:backup-removed-on-success-restored-on-failure", p.Rel(f.Decl.Pos()), okDefer, "after the swap the backup must be deleted if and only if the commit succeeded, and renamed back otherwise")
	// new data reaches the destination only through commitStagedDay
	if m := r.MustFunc("staged-then-renamed", pkgGoDB, "MergeDatabases"); m != nil {
		mi := m.Info()
		bad := ""
		nStage := 0
		core.Walk(m.Decl.Body, false, func(x ast.Node) bool {
			c, ok := x.(*ast.CallExpr)
			if !ok {
				return true
			}
			switch core.CallName(mi, c) {
			case pkgGoDB + ".stageCopyDay":
				nStage++
				if core.Str(c.Args[0]) != "stageRoot" {
					bad = fmt.Sprintf("%s: a day is copied to %s instead of the stage root: it appears in the destination file by file, a crash leaves a partial day under its final name", p.Rel(c.Pos()), core.Str(c.Args[0]))
				}
			case pkgGoDB + ".rebuildDayToStage":
				nStage++
				if core.Str(c.Args[1]) != "stageRoot" {
					bad = fmt.Sprintf("%s: a day is rebuilt in %s instead of the stage root", p.Rel(c.Pos()), core.Str(c.Args[1]))
				}
			case pkgGoDB + ".copyDir", pkgGoDB + ".copyFile", pkgGpfile + ".NewDirWriter":
				bad = fmt.Sprintf("%s: MergeDatabases writes destination data directly (%s) instead of staging it", p.Rel(c.Pos()), core.CallName(mi, c))
			}
			return true
		})
		// every staged path is handed to commitStagedDay
		commits := 0
		for _, c := range core.Calls(m.Decl.Body, false) {
			if core.CallName(mi, c) == pkgGoDB+".commitStagedDay" {
				commits++
			}
		}
		r.Check("staged-then-renamed", "MergeDatabases:days-staged-then-committed", p.Rel(m.Decl.Pos()), bad == "" && nStage >= 2 && commits == nStage, orStr(bad, fmt.Sprintf("%d staging calls, %d commits", nStage, commits)))
	}
}

// c25BackupPlace: the day that is being replaced is moved aside *next to itself*: the target of the rename that moves the
// existing day away must be a path whose leading element is the existing day's own path. Then the rename stays inside one
// directory of the destination (atomic, same file system) and, whatever happens next, the old data is still in the
// database tree where the restore step and an operator find it. Parked anywhere else — in particular inside the staging
// area, which every lister skips and the end of the merge deletes — a merge killed between the two renames leaves the day
// neither under its name nor under a name derived from it.
func c25BackupPlace(r *core.Run, p *core.Prog) {
	const rule = "commit-order"
	f := r.MustFunc(rule, pkgGoDB, "commitStagedDay")
	if f == nil {
		return
	}
	info := f.Info()
	sig := f.Obj.Type().(*types.Signature)
	if sig.Params().Len() < 4 {
		r.Undecided(rule, "commitStagedDay:backup-beside-the-replaced-day", p.Rel(f.Decl.Pos()), "signature changed")
		return
	}
	existing := sig.Params().At(3)
	// the expression a local path variable holds: its single definition, or its single assignment after `var x string`
	valueOf := func(e ast.Expr) ast.Expr {
		e = resolveLocal(info, f.Decl.Body, ast.Unparen(e))
		if id, ok := ast.Unparen(e).(*ast.Ident); ok {
			o := core.ObjOf(info, id)
			var rhs ast.Expr
			n := 0
			core.Walk(f.Decl.Body, true, func(x ast.Node) bool {
				if a, isA := x.(*ast.AssignStmt); isA && len(a.Lhs) == len(a.Rhs) {
					for k, l := range a.Lhs {
						if core.ObjOf(info, l) == o && o != nil {
							rhs = a.Rhs[k]
							n++
						}
					}
				}
				return true
			})
			if n == 1 {
				return rhs
			}
		}
		return e
	}
	var lead func(e ast.Expr, depth int) (types.Object, bool)
	lead = func(e ast.Expr, depth int) (types.Object, bool) {
		if depth > 8 {
			return nil, false
		}
		e = ast.Unparen(valueOf(e))
		switch x := e.(type) {
		case *ast.CallExpr:
			switch core.CallName(info, x) {
			case "fmt.Sprintf":
				if len(x.Args) >= 2 {
					if format, ok := core.ConstStr(info, x.Args[0]); ok && strings.HasPrefix(format, "%") && !strings.HasPrefix(format, "%%") {
						return lead(x.Args[1], depth+1)
					}
				}
				return nil, false
			case "path/filepath.Join", "path/filepath.Clean", "path/filepath.Dir", "path.Join", "strings.TrimSuffix", "strings.TrimRight":
				if len(x.Args) > 0 {
					return lead(x.Args[0], depth+1)
				}
			}
			return nil, false
		case *ast.BinaryExpr:
			if x.Op == token.ADD {
				return lead(x.X, depth+1)
			}
			return nil, false
		case *ast.Ident, *ast.SelectorExpr:
			o := core.ObjOf(info, rootExpr(e))
			return o, o != nil
		}
		return nil, false
	}
	n := 0
	for _, c := range core.Calls(f.Decl.Body, false) {
		if core.CallName(info, c) != "os.Rename" || len(c.Args) != 2 {
			continue
		}
		if core.ObjOf(info, rootExpr(ast.Unparen(valueOf(c.Args[0])))) != types.Object(existing) {
			continue
		}
		n++
		o, ok := lead(c.Args[1], 0)
		if !ok {
			r.Undecided(rule, "commitStagedDay:backup-beside-the-replaced-day", p.Rel(c.Pos()), "cannot tell which path the backup name "+core.Str(c.Args[1])+" starts with")
			continue
		}
		r.Check(rule, "commitStagedDay:backup-beside-the-replaced-day", p.Rel(c.Pos()), o == types.Object(existing),
			fmt.Sprintf("the replaced day is moved to a path that starts with %s instead of its own path: between the two renames of the commit the old data is then outside the destination's day directories (with the staging area: hidden from every lister and deleted when the merge ends), so a merge killed there leaves the day under no name at all", o.Name()))
	}
	if n == 0 {
		r.Undecided(rule, "commitStagedDay:backup-beside-the-replaced-day", p.Rel(f.Decl.Pos()), "no rename that moves the existing day away")
	}
}

// c25Names: reserved names vs listers.
func c25Names(r *core.Run, p *core.Prog) {
	const rule = "reserved-name-separation"
	// reserved patterns, extracted from the code
	stagePat, backupPat := "", ""
	if f := p.Func(pkgGoDB, "MergeDatabases"); f != nil {
		for _, c := range core.Calls(f.Decl.Body, true) {
			if core.CallName(f.Info(), c) == "os.MkdirTemp" && len(c.Args) == 2 {
				stagePat, _ = core.ConstStr(f.Info(), c.Args[1])
			}
		}
	}
	// the backup name: the target of the rename that moves the existing day away in commitStagedDay, built by fmt.Sprintf from
	// the day path, constant parts and a number — evaluated here with representative values for the non-constant parts
	backupName, backupNameNoSuffix := "", ""
	if f := p.Func(pkgGoDB, "commitStagedDay"); f != nil {
		info := f.Info()
		for _, c := range core.Calls(f.Decl.Body, true) {
			if core.CallName(info, c) != "os.Rename" || len(c.Args) != 2 || backupPat != "" {
				continue
			}
			sp, ok := ast.Unparen(resolveLocal(info, f.Decl.Body, c.Args[1])).(*ast.CallExpr)
			if !ok || core.CallName(info, sp) != "fmt.Sprintf" || len(sp.Args) < 2 {
				// the variable is declared first and assigned later: find its Sprintf assignment
				if o := core.ObjOf(info, c.Args[1]); o != nil {
					core.Walk(f.Decl.Body, true, func(x ast.Node) bool {
						if a, isA := x.(*ast.AssignStmt); isA && len(a.Lhs) == 1 && len(a.Rhs) == 1 && core.ObjOf(info, a.Lhs[0]) == o {
							if cc, isC := ast.Unparen(a.Rhs[0]).(*ast.CallExpr); isC && core.CallName(info, cc) == "fmt.Sprintf" {
								sp, ok = cc, true
							}
						}
						return true
					})
				}
				if !ok || sp == nil || core.CallName(info, sp) != "fmt.Sprintf" {
					continue
				}
			}
			format, okF := core.ConstStr(info, sp.Args[0])
			if !okF {
				continue
			}
			render := func(day string) (string, string) {
				var args []any
				constPart := ""
				for _, a := range sp.Args[1:] {
					if v, okc := core.ConstStr(info, a); okc {
						args = append(args, v)
						if len(v) > len(constPart) {
							constPart = v
						}
						continue
					}
					if bt, okb := info.TypeOf(a).Underlying().(*types.Basic); okb && bt.Info()&types.IsString != 0 {
						args = append(args, day)
					} else {
						args = append(args, int64(1700000000000000))
					}
				}
				return fmt.Sprintf(format, args...), constPart
			}
			var cp string
			backupName, cp = render("1700006400_AbCdEf-x-y-z-1-2-3")
			backupNameNoSuffix, _ = render("1700006400")
			// the reserved marker: the longest constant piece (of the format or of a constant argument)
			backupPat = cp
			for _, piece := range regexp.MustCompile(`%[-+# 0]*[0-9]*(\.[0-9]+)?[a-zA-Z]`).Split(format, -1) {
				if len(piece) > len(backupPat) {
					backupPat = piece
				}
			}
		}
	}
	if stagePat == "" || backupPat == "" {
		r.Undecided(rule, "reserved-patterns", "-", fmt.Sprintf("stage pattern %q / backup marker %q not found as constants", stagePat, backupPat))
		return
	}
	stageMarker := strings.TrimRight(stagePat, "*")
	stageName := strings.Replace(stagePat, "*", "123456", 1) // a directory in the DB root
	r.Note("reserved names evaluated: %q (DB root), %q and %q (month directory)", stageName, backupName, backupNameNoSuffix)
	type lister struct {
		rel, fn string
		level   string // "root" | "day"
	}
	for _, l := range []lister{
		{"pkg/goDB/info", "GetInterfaces", "root"},
		{pkgGoDB, "listSourceInterfaces", "root"},
		{pkgGoDB, "DBWorkManager.walkDB", "day"},
		{pkgGoDB, "listInterfaceDays", "day"},
		{pkgGoDB, "locateDayDirectory", "day"},
		{pkgGpfile, "binarySearchPrefix", "day"},
	} {
		f := r.MustFunc(rule, l.rel, l.fn)
		if f == nil {
			continue
		}
		names := []string{stageName}
		if l.level == "day" {
			names = []string{backupName, backupNameNoSuffix}
		}
		// rejecting name predicates: HasPrefix / HasSuffix / Contains with a constant pattern that is (part of) the reserved marker or the
		// hidden-entry dot, in the lister itself or in a module helper it calls with the entry name
		rejects := map[string]bool{}
		var scan func(fn *core.Fn, depth int)
		scan = func(fn *core.Fn, depth int) {
			info := fn.Info()
			core.Walk(fn.Decl.Body, true, func(x ast.Node) bool {
				c, ok := x.(*ast.CallExpr)
				if !ok {
					return true
				}
				cn := core.CallName(info, c)
				if (cn == "strings.HasPrefix" || cn == "strings.HasSuffix" || cn == "strings.Contains") && len(c.Args) == 2 {
					if pat, ok := core.ConstStr(info, c.Args[1]); ok && pat != "" {
						for _, nm := range names {
							hit := (cn == "strings.HasPrefix" && strings.HasPrefix(nm, pat)) || (cn == "strings.HasSuffix" && strings.HasSuffix(nm, pat)) || (cn == "strings.Contains" && strings.Contains(nm, pat))
							// the predicate must be about the reserved marker (or a part of it such as the hidden-entry dot), not about
							// something the representative name happens to contain
							marker := stageMarker
							if l.level == "day" {
								marker = backupPat
							}
							if hit && (strings.Contains(pat, strings.Trim(marker, ".-_")) || strings.Contains(marker, pat)) {
								rejects[nm] = true
							}
						}
					}
					return true
				}
				if depth < 2 {
					if fo, _ := core.Callee(info, c).(*types.Func); fo != nil {
						if h := p.FnOf(fo); h != nil && h != fn && fo.Type().(*types.Signature).Results().Len() == 1 {
							if b, ok := fo.Type().(*types.Signature).Results().At(0).Type().Underlying().(*types.Basic); ok && b.Kind() == types.Bool {
								scan(h, depth+1)
							}
						}
					}
				}
				return true
			})
		}
		scan(f, 0)
		var accepted []string
		for _, nm := range names {
			if !rejects[nm] {
				accepted = append(accepted, nm)
			}
		}
		r.Check(rule, fmt.Sprintf("%s.%s:excludes-merge-leftovers", l.rel[strings.LastIndex(l.rel, "/")+1:], l.fn), p.Rel(f.Decl.Pos()), len(accepted) == 0,
			fmt.Sprintf("%s turns directory entries into %s without excluding the names an interrupted merge leaves behind (%s): the leftover is listed / queried as %s", l.fn, map[string]string{"root": "interfaces", "day": "day directories"}[l.level], strings.Join(accepted, ", "), map[string]string{"root": "an interface", "day": "a duplicate or unparsable day"}[l.level]))
	}
}

func commitClassifier(f *core.Fn) classifier {
	info := f.Info()
	sig := f.Obj.Type().(*types.Signature)
	staged := sig.Params().At(0)
	return func(n ast.Node, cond *bool) []ev {
		var out []ev
		for _, c := range core.Calls(n, false) {
			if core.CallName(info, c) == "os.Rename" && len(c.Args) == 2 {
				switch {
				case core.ObjOf(info, c.Args[0]) == staged:
					out = append(out, ev{label: "rename-staged-in"})
				case strings.Contains(core.Str(c.Args[0]), "existing") || strings.HasSuffix(core.Str(c.Args[0]), ".Path"):
					out = append(out, ev{label: "rename-existing-to-backup"})
				default:
					out = append(out, ev{label: "rename?"})
				}
			}
		}
		if cond != nil {
			if b, ok := core.BinOp(n.(ast.Expr), token.NEQ); ok && core.IsNil(info, b.Y) && strings.Contains(core.Str(b.X), "existing") {
				out = append(out, ev{label: map[bool]string{true: "has-existing", false: "no-existing"}[*cond]})
			}
		}
		return out
	}
}

// commitPaths enumerates the paths of commitStagedDay that can end without an error (nil return, or a returned call whose error may be nil).
func commitPaths(p *core.Prog, f *core.Fn, g *core.Graph, cl classifier) (badOrder, badInstall string, nOK int, ok bool) {
	ts, ok := traces(f, g, cl, 2000)
	if !ok {
		return "", "", 0, false
	}
	for _, t := range ts {
		if t.outcome != "ok" && t.outcome != "call" {
			continue
		}
		nOK++
		if t.count("rename-staged-in") != 1 || t.has("rename?") {
			badInstall = "a commit that can return without an error must have renamed the staged day into place (exactly once): " + pathLines(p, g, t.path)
		}
		if t.has("has-existing") && t.has("rename-staged-in") && (!t.has("rename-existing-to-backup") || t.first("rename-existing-to-backup") > t.first("rename-staged-in")) {
			badOrder = "an existing destination day must be moved to its backup name before the staged day takes its place: " + pathLines(p, g, t.path)
		}
		if t.has("no-existing") && t.has("rename-existing-to-backup") {
			badOrder = "backup rename without an existing day: " + pathLines(p, g, t.path)
		}
	}
	return
}
