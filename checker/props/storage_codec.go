package props

import (
	"fmt"
	"go/ast"
	"go/token"
	"go/types"
	"sort"
	"strings"

	"gpverif/core"
)

// codecTok is one element of the serialisation signature of Marshal / Unmarshal.
type codecTok struct {
	kind  string // "(" ")" "A" "S" "P"
	loop  string // for "(": cols | blocks
	base  string
	off   int64
	width int64
	role  string
	k     int64
	pos   token.Pos
	depth []string
}

func (t codecTok) String() string {
	switch t.kind {
	case "(":
		return "(" + t.loop
	case ")":
		return ")"
	case "S":
		return fmt.Sprintf("+%d", t.k)
	case "P":
		return fmt.Sprintf("pos=%d", t.k)
	}
	b := "abs"
	if t.base != "" {
		b = "cur"
	}
	return fmt.Sprintf("%s+%d/%d:%s", b, t.off, t.width, t.role)
}

// fieldRole names the struct field selected by e as "Owner.Field" ("" if e is no field selection).
func fieldRole(info *types.Info, e ast.Expr) string {
	sel, ok := ast.Unparen(e).(*ast.SelectorExpr)
	if !ok {
		return ""
	}
	s, ok := info.Selections[sel]
	if !ok || s.Kind() != types.FieldVal {
		return ""
	}
	t := s.Recv()
	idx := s.Index()
	for _, i := range idx[:len(idx)-1] {
		if p, ok := t.Underlying().(*types.Pointer); ok {
			t = p.Elem()
		}
		st, ok := t.Underlying().(*types.Struct)
		if !ok {
			return ""
		}
		t = st.Field(i).Type()
	}
	owner := "?"
	if n := core.NamedOf(t); n != nil {
		owner = n.Obj().Name()
	}
	return owner + "." + s.Obj().Name()
}

func stripConv(info *types.Info, e ast.Expr) ast.Expr {
	for {
		e = ast.Unparen(e)
		c, ok := e.(*ast.CallExpr)
		if !ok || len(c.Args) != 1 {
			return e
		}
		if tv, ok := info.Types[c.Fun]; ok && tv.IsType() {
			e = c.Args[0]
			continue
		}
		return e
	}
}

// singleDef returns the RHS of the only assignment to local obj in body (nil if 0 or >1).
func singleDef(info *types.Info, body ast.Node, obj types.Object) ast.Expr {
	var rhs ast.Expr
	n := 0
	core.Walk(body, true, func(x ast.Node) bool {
		switch a := x.(type) {
		case *ast.AssignStmt:
			for i, l := range a.Lhs {
				if core.ObjOf(info, l) == obj {
					n++
					if len(a.Rhs) == len(a.Lhs) {
						rhs = a.Rhs[i]
					}
				}
			}
		case *ast.IncDecStmt:
			if core.ObjOf(info, a.X) == obj {
				n += 2 // modified in place: not a single definition
			}
		case *ast.UnaryExpr:
			if a.Op == token.AND && core.ObjOf(info, a.X) == obj {
				n += 2 // address taken: may be modified elsewhere
			}
		case *ast.RangeStmt:
			if a.Key != nil && core.ObjOf(info, a.Key) == obj {
				n += 2
			}
			if a.Value != nil && core.ObjOf(info, a.Value) == obj {
				n++
				rhs = a.X // element of
			}
		case *ast.ValueSpec:
			for i, nm := range a.Names {
				if info.Defs[nm] == obj {
					n++
					if i < len(a.Values) {
						rhs = a.Values[i]
					}
				}
			}
		}
		return true
	})
	if n == 1 {
		return rhs
	}
	return nil
}

func valueRole(info *types.Info, body ast.Node, e ast.Expr, depth int) string {
	e = stripConv(info, e)
	if r := fieldRole(info, e); r != "" {
		return r
	}
	if b, ok := e.(*ast.BinaryExpr); ok && b.Op == token.SUB {
		if r := valueRole(info, body, b.X, depth); r != "" {
			return "delta:" + r
		}
	}
	if c, ok := e.(*ast.CallExpr); ok && core.CallName(info, c) == "builtin.len" && len(c.Args) == 1 {
		if r := valueRole(info, body, c.Args[0], depth); r != "" {
			return "len:" + r
		}
	}
	if depth > 0 {
		if o := core.ObjOf(info, e); o != nil {
			if d := singleDef(info, body, o); d != nil {
				return valueRole(info, body, d, depth-1)
			}
		}
	}
	return ""
}

// codecSignature linearises the fixed-offset accesses, cursor strides and loops of fn.
func codecSignature(p *core.Prog, fn *core.Fn, write bool) (toks []codecTok, undec []string) {
	info := fn.Info()
	isBuf := func(e ast.Expr) bool {
		id, ok := ast.Unparen(e).(*ast.Ident)
		if !ok {
			return false
		}
		v, ok := info.Uses[id].(*types.Var)
		if !ok || v.IsField() || v.Parent() == v.Pkg().Scope() {
			return false
		}
		sl, ok := v.Type().Underlying().(*types.Slice)
		if !ok {
			return false
		}
		b, ok := sl.Elem().Underlying().(*types.Basic)
		return ok && b.Kind() == types.Uint8
	}
	var cursor types.Object
	loopKind := func(s ast.Stmt) string {
		switch l := s.(type) {
		case *ast.RangeStmt:
			t := info.TypeOf(l.X)
			if t == nil {
				return "blocks"
			}
			if pt, ok := t.Underlying().(*types.Pointer); ok {
				t = pt.Elem()
			}
			if _, ok := t.Underlying().(*types.Array); ok {
				return "cols"
			}
			if _, ok := core.ConstInt(info, l.X); ok {
				return "cols"
			}
		case *ast.ForStmt:
			if b, ok := l.Cond.(*ast.BinaryExpr); ok {
				if _, ok := core.ConstInt(info, b.Y); ok {
					return "cols"
				}
			}
		}
		return "blocks"
	}
	var depth []string
	var run []codecTok
	flush := func() {
		sort.SliceStable(run, func(i, j int) bool {
			if run[i].base != run[j].base {
				return run[i].base < run[j].base
			}
			return run[i].off < run[j].off
		})
		toks = append(toks, run...)
		run = nil
	}
	emit := func(t codecTok) {
		t.depth = append([]string(nil), depth...)
		if t.kind == "A" {
			run = append(run, t)
			return
		}
		flush()
		toks = append(toks, t)
	}
	simple := func(s ast.Node) {
		if a, ok := s.(*ast.AssignStmt); ok {
			allBlank := true
			for _, l := range a.Lhs {
				if id, ok := l.(*ast.Ident); !ok || id.Name != "_" {
					allBlank = false
				}
			}
			if allBlank {
				return
			}
		}
		for _, ac := range core.Layout(info, s, isBuf) {
			if ac.Undec != "" {
				// whole-buffer uses (w.Write(data), len(data)) are not index accesses and never reach here
				undec = append(undec, p.Rel(ac.Node.Pos())+": "+ac.Undec)
				continue
			}
			if ac.Write != write {
				undec = append(undec, fmt.Sprintf("%s: unexpected %s access in %s", p.Rel(ac.Node.Pos()), map[bool]string{true: "write", false: "read"}[ac.Write], fn.Name))
				continue
			}
			if ac.Decl != 0 && ac.Decl != ac.Width {
				undec = append(undec, fmt.Sprintf("%s: slice of %d bytes handed to a %d-byte accessor", p.Rel(ac.Node.Pos()), ac.Width, ac.Decl))
			}
			role := ""
			if write {
				role = valueRole(info, fn.Decl.Body, ac.Value, 2)
			} else if a, ok := s.(*ast.AssignStmt); ok && len(a.Lhs) == len(a.Rhs) {
				for i, rh := range a.Rhs {
					if rh.Pos() <= ac.Node.Pos() && ac.Node.End() <= rh.End() {
						role = fieldRole(info, a.Lhs[i])
						if _, isBin := ast.Unparen(rh).(*ast.BinaryExpr); isBin && role == "" {
							role = "" // local computed from the loaded value
						}
					}
				}
			}
			if ac.Base != "" {
				if sel := ast.Unparen(indexExprOf(ac.Node)); sel != nil {
					_ = sel
				}
			}
			emit(codecTok{kind: "A", base: ac.Base, off: ac.Off, width: ac.Width, role: role, pos: ac.Node.Pos()})
		}
		if a, ok := s.(*ast.AssignStmt); ok && len(a.Lhs) == 1 && len(a.Rhs) == 1 {
			if id, ok := a.Lhs[0].(*ast.Ident); ok {
				o := core.ObjOf(info, id)
				if k, isC := core.ConstInt(info, a.Rhs[0]); isC && o != nil {
					if b, ok := o.Type().Underlying().(*types.Basic); ok && b.Info()&types.IsInteger != 0 {
						switch a.Tok {
						case token.ADD_ASSIGN:
							if cursor == nil || cursor == o {
								cursor = o
								emit(codecTok{kind: "S", k: k, pos: a.Pos()})
							}
						case token.DEFINE, token.ASSIGN:
							if cursor == nil && k > 0 {
								cursor = o
								emit(codecTok{kind: "P", k: k, pos: a.Pos()})
							}
						}
					}
				}
			}
		}
	}
	var walk func(list []ast.Stmt)
	walk = func(list []ast.Stmt) {
		for _, s := range list {
			switch x := s.(type) {
			case *ast.BlockStmt:
				walk(x.List)
			case *ast.IfStmt:
				if x.Init != nil {
					simple(x.Init)
				}
				simple(x.Cond)
				walk(x.Body.List)
				if x.Else != nil {
					walk([]ast.Stmt{x.Else})
				}
			case *ast.ForStmt:
				k := loopKind(x)
				emit(codecTok{kind: "(", loop: k, pos: x.Pos()})
				depth = append(depth, k)
				walk(x.Body.List)
				flush()
				depth = depth[:len(depth)-1]
				emit(codecTok{kind: ")", pos: x.End()})
			case *ast.RangeStmt:
				k := loopKind(x)
				emit(codecTok{kind: "(", loop: k, pos: x.Pos()})
				depth = append(depth, k)
				walk(x.Body.List)
				flush()
				depth = depth[:len(depth)-1]
				emit(codecTok{kind: ")", pos: x.End()})
			case *ast.DeferStmt, *ast.ReturnStmt:
				// no buffer accesses expected
			default:
				simple(s)
			}
		}
	}
	walk(fn.Decl.Body.List)
	flush()
	// drop empty loops (loops that touch neither buffer nor cursor)
	for changed := true; changed; {
		changed = false
		for i := 0; i+1 < len(toks); i++ {
			if toks[i].kind == "(" && toks[i+1].kind == ")" {
				toks = append(toks[:i], toks[i+2:]...)
				changed = true
				break
			}
		}
	}
	return toks, undec
}

func indexExprOf(n ast.Node) ast.Expr {
	switch x := n.(type) {
	case *ast.IndexExpr:
		return x.Index
	case *ast.SliceExpr:
		return x.Low
	}
	return nil
}

// ruleCodecLayout compares the serialisation signature of GPDir.Marshal with GPDir.Unmarshal
// and the declared size constants with the sizes implied by the code.
func ruleCodecLayout(r *core.Run, p *core.Prog) {
	const rule = "codec-layout"
	m := r.MustFunc(rule, pkgGpfile, "GPDir.Marshal")
	u := r.MustFunc(rule, pkgGpfile, "GPDir.Unmarshal")
	if m == nil || u == nil {
		return
	}
	wt, wu := codecSignature(p, m, true)
	rt, ru := codecSignature(p, u, false)
	for _, x := range append(wu, ru...) {
		r.Undecided(rule, "metadata:shape", "-", x)
	}
	ws, rs := []string{}, []string{}
	for _, t := range wt {
		ws = append(ws, t.String())
	}
	for _, t := range rt {
		rs = append(rs, t.String())
	}
	r.Note("Marshal signature: %s", strings.Join(ws, " "))
	r.Note("Unmarshal signature: %s", strings.Join(rs, " "))
	if len(wt) != len(rt) {
		r.Check(rule, "metadata:same-structure", p.Rel(m.Decl.Pos()), false,
			fmt.Sprintf("writer and reader walk the file differently: writer [%s] reader [%s]", strings.Join(ws, " "), strings.Join(rs, " ")))
	} else {
		r.Check(rule, "metadata:same-structure", p.Rel(m.Decl.Pos()), true, fmt.Sprintf("%d layout elements each", len(wt)))
		for i := range wt {
			a, b := wt[i], rt[i]
			section := strings.Join(a.depth, "/")
			if a.kind != b.kind {
				r.Check(rule, fmt.Sprintf("metadata:element%d", i), p.Rel(a.pos), false, fmt.Sprintf("writer has %s where reader has %s", a, b))
				continue
			}
			switch a.kind {
			case "(":
				r.Check(rule, fmt.Sprintf("metadata:loop@%d", i), p.Rel(a.pos), a.loop == b.loop, fmt.Sprintf("writer loops over %s, reader (%s) over %s", a.loop, p.Rel(b.pos), b.loop))
			case "S":
				r.Check(rule, fmt.Sprintf("metadata:stride[%s]#%d", section, i), p.Rel(a.pos), a.k == b.k, fmt.Sprintf("writer advances by %d, reader (%s) by %d", a.k, p.Rel(b.pos), b.k))
			case "P":
				r.Check(rule, "metadata:cursor-start", p.Rel(a.pos), a.k == b.k, fmt.Sprintf("writer starts variable part at %d, reader at %d", a.k, b.k))
			case "A":
				ok := (a.base == "") == (b.base == "") && a.off == b.off && a.width == b.width
				roleOK := a.role == "" || b.role == "" || a.role == b.role || strings.TrimPrefix(a.role, "delta:") == b.role
				name := a.role
				if name == "" {
					name = b.role
				}
				r.Check(rule, fmt.Sprintf("metadata:field[%s]@%d:%s", section, a.off, name), p.Rel(a.pos), ok && roleOK,
					fmt.Sprintf("writer stores %s, reader (%s) loads %s", a, p.Rel(b.pos), b))
			}
		}
	}
	// sizes implied by the writer
	colCount, okc := p.Const("pkg/types", "ColIdxCount")
	var C int64
	fmt.Sscan(colCount, &C)
	if !okc || C <= 0 {
		r.Missing(rule, "pkg/types.ColIdxCount")
		return
	}
	var header, fixed, perBlock int64
	for _, t := range wt {
		switch t.kind {
		case "A":
			if t.base == "" && t.off+t.width > header {
				header = t.off + t.width
			}
		case "S":
			mult := int64(1)
			nb := 0
			for _, d := range t.depth {
				if d == "cols" {
					mult *= C
				} else {
					nb++
				}
			}
			switch nb {
			case 0:
				fixed += t.k * mult
			case 1:
				perBlock += t.k * mult
			default:
				r.Undecided(rule, "metadata:size-polynomial", p.Rel(t.pos), "stride nested in two per-block loops")
			}
		}
	}
	constEq := func(name string, want int64) {
		v, ok := p.Const(pkgGpfile, name)
		if !ok {
			r.Missing(rule, pkgGpfile+"."+name)
			return
		}
		r.Check(rule, "metadata:const:"+name, pkgGpfile+"."+name, v == fmt.Sprint(want), fmt.Sprintf("declared %s, the layout written by Marshal implies %d", v, want))
	}
	constEq("metadataHeaderSize", header)
	constEq("metadataBlockOffsetsPos", header)
	constEq("minMetadataFileSize", header+fixed)
	constEq("metadataPerBlockSize", perBlock)
	r.Note("layout sizes from Marshal: header=%d fixed=%d perBlock=%d (ColIdxCount=%d)", header, fixed, perBlock, C)

	ruleUnmarshalGuards(r, p, u, header+fixed, perBlock)
	ruleNarrowing(r, p, m)
}

// ruleUnmarshalGuards: both size guards exist, use the right constants and dominate every access.
func ruleUnmarshalGuards(r *core.Run, p *core.Prog, u *core.Fn, minSize, perBlock int64) {
	const rule = "decode-guards"
	info := u.Info()
	g := core.GraphOf(u)
	where := p.Rel(u.Decl.Pos())
	isLenBuf := func(e ast.Expr) bool {
		e = stripConv(info, e)
		c, ok := e.(*ast.CallExpr)
		if !ok || core.CallName(info, c) != "builtin.len" {
			return false
		}
		t := info.TypeOf(c.Args[0])
		_, isSl := t.Underlying().(*types.Slice)
		return isSl
	}
	var g1, g2 = -1, -1
	var nVar types.Object
	for id, n := range g.Nodes {
		e, ok := n.(ast.Expr)
		if !ok || len(g.Succ[id]) != 2 {
			continue
		}
		b, ok := core.BinOp(e, token.LSS, token.GTR)
		if !ok {
			continue
		}
		if b.Op == token.LSS && isLenBuf(b.X) {
			if k, okk := core.ConstInt(info, b.Y); okk {
				g1 = id
				r.Check(rule, "Unmarshal:min-size-guard-constant", p.Rel(e.Pos()), k >= minSize, fmt.Sprintf("guard rejects inputs shorter than %d; the fixed part read without further checks is %d bytes", k, minSize))
			}
		}
		if b.Op == token.GTR {
			lo, ro := core.ObjOf(info, b.X), core.ObjOf(info, b.Y)
			if lo == nil || ro == nil {
				continue
			}
			def := singleDef(info, u.Decl.Body, ro)
			if def == nil {
				continue
			}
			q, ok := core.BinOp(def, token.QUO)
			if !ok {
				continue
			}
			s, ok := core.BinOp(q.X, token.SUB)
			if !ok || !isLenBuf(s.X) {
				continue
			}
			kmin, ok1 := core.ConstInt(info, s.Y)
			kper, ok2 := core.ConstInt(info, q.Y)
			if !ok1 || !ok2 {
				continue
			}
			g2, nVar = id, lo
			r.Check(rule, "Unmarshal:block-count-guard-constants", p.Rel(e.Pos()), kmin >= minSize && kper >= perBlock && kper > 0,
				fmt.Sprintf("guard bounds the block count by (len-%d)/%d; the reader consumes %d fixed bytes and %d bytes per block", kmin, kper, minSize, perBlock))
		}
	}
	if g1 < 0 {
		r.Check(rule, "Unmarshal:min-size-guard", where, false, "no test 'len(data) < <const>' guarding the fixed-offset reads")
	}
	if g2 < 0 {
		r.Check(rule, "Unmarshal:block-count-guard", where, false, "no test '<count> > (len(data)-<min>)/<perBlock>' guarding the variable part")
	}
	if g1 < 0 || g2 < 0 {
		return
	}
	// both guards' true edges must leave with an error
	for name, gid := range map[string]int{"min-size-guard": g1, "block-count-guard": g2} {
		thenN, _, _ := g.CondEdges(gid)
		leaves := true
		for _, rn := range g.Returns() {
			if g.Reach(thenN, rn, nil) {
				rs := g.Nodes[rn].(*ast.ReturnStmt)
				if len(rs.Results) != 1 || core.IsNil(info, rs.Results[0]) {
					leaves = false
				}
			}
		}
		// and nothing else reachable from then-branch: all paths from thenN end in a return reachable without re-joining
		_, elseN, _ := g.CondEdges(gid)
		if g.Reach(thenN, elseN, nil) {
			leaves = false
		}
		r.Check(rule, "Unmarshal:"+name+"-rejects", p.Rel(g.Nodes[gid].Pos()), leaves, "the failing branch of the guard must return a non-nil error and not fall through to decoding")
	}
	// domination: every buffer access / make with the count
	isBuf := func(e ast.Expr) bool {
		t := info.TypeOf(e)
		if t == nil {
			return false
		}
		sl, ok := t.Underlying().(*types.Slice)
		if !ok {
			return false
		}
		b, ok := sl.Elem().Underlying().(*types.Basic)
		_, isId := ast.Unparen(e).(*ast.Ident)
		return ok && b.Kind() == types.Uint8 && isId
	}
	nAcc, bad := 0, ""
	for id, n := range g.Nodes {
		if n == nil {
			continue
		}
		for _, ac := range core.Layout(info, n, isBuf) {
			nAcc++
			guards := map[int]bool{g1: true}
			thenN, _, _ := g.CondEdges(g1)
			okDom := id == g1 || (g.Dominated(id, guards) && !g.Reach(thenN, id, guards))
			if ac.Base != "" {
				gg := map[int]bool{g2: true}
				t2, _, _ := g.CondEdges(g2)
				okDom = okDom && g.Dominated(id, gg) && !g.Reach(t2, id, gg)
			}
			if !okDom {
				bad = fmt.Sprintf("access %s at %s is reachable without the size guards having passed", core.Str(ac.Node.(ast.Expr)), p.Rel(ac.Node.Pos()))
			}
		}
		for _, c := range core.Calls(n, false) {
			if core.CallName(info, c) == "builtin.make" && len(c.Args) >= 2 && nVar != nil && core.MentionsObj(info, c.Args[1], nVar) {
				nAcc++
				gg := map[int]bool{g2: true}
				t2, _, _ := g.CondEdges(g2)
				if !(g.Dominated(id, gg) && !g.Reach(t2, id, gg)) {
					bad = fmt.Sprintf("allocation %s at %s sized by the unchecked block count", core.Str(c), p.Rel(c.Pos()))
				}
			}
		}
	}
	r.Check(rule, "Unmarshal:guards-dominate-accesses", where, bad == "" && nAcc > 0, orStr(bad, fmt.Sprintf("%d accesses/allocations all behind both guards", nAcc)))
}

// ruleNarrowing: every narrowing integer conversion stored by Marshal is dominated by range guards
// on every side its source type can exceed.
func ruleNarrowing(r *core.Run, p *core.Prog, m *core.Fn) {
	const rule = "narrowing-guarded"
	info := m.Info()
	g := core.GraphOf(m)
	sizes := types.SizesFor("gc", "amd64")
	isBuf := func(e ast.Expr) bool {
		_, isId := ast.Unparen(e).(*ast.Ident)
		t := info.TypeOf(e)
		if t == nil || !isId {
			return false
		}
		_, ok := t.Underlying().(*types.Slice)
		return ok
	}
	n := 0
	for id, node := range g.Nodes {
		if node == nil {
			continue
		}
		for _, ac := range core.Layout(info, node, isBuf) {
			if !ac.Write || ac.Value == nil {
				continue
			}
			conv, ok := ast.Unparen(ac.Value).(*ast.CallExpr)
			if !ok || len(conv.Args) != 1 {
				continue
			}
			tv, ok := info.Types[conv.Fun]
			if !ok || !tv.IsType() {
				continue
			}
			dst, ok1 := tv.Type.Underlying().(*types.Basic)
			src, ok2 := info.TypeOf(conv.Args[0]).Underlying().(*types.Basic)
			if !ok1 || !ok2 || dst.Info()&types.IsInteger == 0 || src.Info()&types.IsInteger == 0 {
				continue
			}
			if sizes.Sizeof(dst) >= sizes.Sizeof(src) {
				continue // same width: a bijection the reader inverts
			}
			n++
			arg := ast.Unparen(conv.Args[0])
			argS := core.Str(arg)
			needLower := src.Info()&types.IsUnsigned == 0
			maxDst := int64(1)<<(8*uint(sizes.Sizeof(dst))) - 1
			upper, lower := false, !needLower
			for gid, gn := range g.Nodes {
				ce, ok := gn.(ast.Expr)
				if !ok || len(g.Succ[gid]) != 2 {
					continue
				}
				thenN, _, _ := g.CondEdges(gid)
				gs := map[int]bool{gid: true}
				if !(g.Dominated(id, gs) && !g.Reach(thenN, id, gs)) {
					continue
				}
				for _, d := range core.Conjuncts(ce, true) {
					b, ok := core.BinOp(d, token.GTR, token.GEQ, token.LSS)
					if !ok {
						continue
					}
					if core.Str(ast.Unparen(b.X)) != argS {
						// a - b < 0 may also be spelled a < b
						if sb, isSub := arg.(*ast.BinaryExpr); isSub && sb.Op == token.SUB && b.Op == token.LSS &&
							core.Str(ast.Unparen(b.X)) == core.Str(ast.Unparen(sb.X)) && core.Str(ast.Unparen(b.Y)) == core.Str(ast.Unparen(sb.Y)) {
							lower = true
						}
						continue
					}
					k, isC := core.ConstInt(info, b.Y)
					if !isC {
						continue
					}
					if (b.Op == token.GTR && k <= maxDst) || (b.Op == token.GEQ && k <= maxDst+1) {
						upper = true
					}
					if b.Op == token.LSS && k >= 0 && k <= 1 {
						lower = true
					}
				}
			}
			role := valueRole(info, m.Decl.Body, ac.Value, 1)
			if role == "" {
				role = argS
			}
			r.Check(rule, "Marshal:"+role+":upper-bound", p.Rel(conv.Pos()), upper,
				fmt.Sprintf("%s narrows %s (%s) without a dominating test '%s > %d' that rejects the write", core.Str(conv), argS, src.Name(), argS, maxDst))
			if needLower {
				r.Check(rule, "Marshal:"+role+":lower-bound", p.Rel(conv.Pos()), lower,
					fmt.Sprintf("%s narrows the signed value %s without a dominating test that rejects negative values: a negative value is stored as a huge unsigned one and read back altered", core.Str(conv), argS))
			}
		}
	}
	if n == 0 {
		r.Undecided(rule, "Marshal:narrowing-sites", p.Rel(m.Decl.Pos()), "no narrowing conversion found in Marshal (the rule's subject disappeared)")
	}
}

// ruleRecordedAsGiven: GPDir.WriteBlocks records what it was given. The timestamp, the per-block traffic metadata and the
// counters are appended / added to the day metadata; a write that cannot be represented is refused later by Marshal's range
// checks. If WriteBlocks modifies one of its parameters first (clamping, rounding, defaulting), the value that is stored
// and summed is no longer the value the caller handed in, the refusal can never fire, and "what was accepted is read back"
// fails for exactly the inputs the modification was written for. Decided: no statement of WriteBlocks assigns to a
// parameter or to a part of one.
func ruleRecordedAsGiven(r *core.Run, p *core.Prog) {
	const rule = "recorded-as-given"
	f := r.MustFunc(rule, pkgGpfile, "GPDir.WriteBlocks")
	if f == nil {
		return
	}
	info := f.Info()
	sig := f.Obj.Type().(*types.Signature)
	params := map[types.Object]bool{}
	for i := 0; i < sig.Params().Len(); i++ {
		params[sig.Params().At(i)] = true
	}
	bad := ""
	core.Walk(f.Decl.Body, true, func(x ast.Node) bool {
		var lhs []ast.Expr
		switch s := x.(type) {
		case *ast.AssignStmt:
			if s.Tok != token.DEFINE {
				lhs = s.Lhs
			}
		case *ast.IncDecStmt:
			lhs = []ast.Expr{s.X}
		}
		for _, l := range lhs {
			if o := core.ObjOf(info, rootExpr(ast.Unparen(l))); o != nil && params[o] {
				bad = fmt.Sprintf("%s: %s is modified before it is recorded: the day metadata then holds a value the caller never handed in, and the range checks of Marshal (which refuse what the format cannot hold) see the modified value", p.Rel(x.Pos()), core.Str(l))
			}
		}
		return true
	})
	r.Check(rule, "GPDir.WriteBlocks:parameters-not-modified", p.Rel(f.Decl.Pos()), bad == "", bad)
}
