package props

import (
	"fmt"
	"go/ast"
	"go/token"
	"go/types"
	"strings"

	"gpverif/core"
)

func init() {
	register("C02", c02)
	register("C07", c07)
}

var encoderImpls = []string{"pkg/goDB/encoder/lz4", "pkg/goDB/encoder/zstd", "pkg/goDB/encoder/null"}

// appendStyle: third-party functions documented to APPEND to their destination argument (index of dst).
var appendStyle = map[string]int{
	"github.com/klauspost/compress/zstd.Encoder.EncodeAll": 1,
	"github.com/klauspost/compress/zstd.Decoder.DecodeAll": 1,
}

func encoderConfigs(r *core.Run) []string {
	if r.Thorough() {
		return []string{"cgo", "nocgo", "nolz4", "nozstd", "ci"}
	}
	return []string{"cgo", "nocgo"}
}

func c02(r *core.Run) {
	r.Expl = "C02 (cgo / native builds interchangeable): for every build configuration (quick: cgo and CGO_ENABLED=0; thorough: also goprobe_noliblz4, goprobe_nolibzstd, CI tags) and every Encoder implementation, decides the sibling contract all implementations must share for their output to be the library's frame and nothing else: the caller's scratch buffer contributes no pre-existing bytes (append-style APIs get a zero-length destination; otherwise exactly the library-reported prefix of the buffer is written), the buffer is resliced only under a capacity guard, exactly one dst.Write on success whose count is what Compress reports, Decompress compares the count read from src with len(in) before decoding, returns the decoded length, and never takes the address of element 0 of a possibly empty parameter. NOT decided: that liblz4/libzstd and pierrec/klauspost produce mutually readable frames (third-party format behaviour), nor any actual cross-build read-back."
	r.Floor = 26
	r.Rules = append(r.Rules, "encoder-contract: per-path event automaton over Compress/Decompress of every implementation in every build configuration", "codec-options: frozen table of third-party codec options that do not restrict which frames are produced / accepted", "read-path: the storage reader picks the decoder by the stored encoder type alone")
	for _, cfg := range encoderConfigs(r) {
		p := r.ProgFor(cfg, "./pkg/goDB/encoder/...")
		for _, rel := range encoderImpls {
			ruleEncoderContract(r, p, rel)
			ruleCodecOptions(r, p, rel)
		}
	}
	// which decoder reads a block is decided by the encoder type stored with the block and nothing else: sizes and
	// ratios differ between the cgo and the native codecs, so a reader that also looks at them treats the same flows
	// differently depending on which build wrote them
	ruleReadPath(r, r.ProgFor("cgo", "./pkg/goDB/storage/..."))
}

func c07(r *core.Run) {
	r.Expl = "C07 (every compressor restores its input; reported count = emitted count): per implementation and build configuration, decides the structural contract: Compress performs exactly one dst.Write on every successful path and reports that call's count; the bytes written are exactly the library's output (scratch hygiene: zero-length destination for append-style APIs, library-length prefix otherwise); reslicing only under a capacity guard; Decompress checks the number of bytes read against len(in), decodes into out and returns the decoded length; the null encoder writes the data unchanged and reads exactly len(out). NOT decided: the round trip itself for all inputs and levels (library behaviour)."
	r.Floor = 30
	r.Rules = append(r.Rules, "encoder-contract")
	for _, cfg := range encoderConfigs(r) {
		p := r.ProgFor(cfg, "./pkg/goDB/encoder/...")
		for _, rel := range encoderImpls {
			ruleEncoderContract(r, p, rel)
		}
	}
	// encoder.New maps every declared type constant to its own implementation and rejects the rest
	p := r.ProgFor("cgo", "./pkg/goDB/encoder/...")
	ruleEncoderNew(r, p)
}

// zeroLen reports whether e is syntactically a zero-length slice: x[:0], nil, make(T, 0, ...), []T{}.
func zeroLen(info *types.Info, e ast.Expr) bool {
	e = ast.Unparen(e)
	if core.IsNil(info, e) {
		return true
	}
	if s, ok := e.(*ast.SliceExpr); ok && s.High != nil {
		if k, okc := core.ConstInt(info, s.High); okc && k == 0 {
			return true
		}
	}
	if c, ok := e.(*ast.CallExpr); ok && core.CallName(info, c) == "builtin.make" && len(c.Args) >= 2 {
		if k, okc := core.ConstInt(info, c.Args[1]); okc && k == 0 {
			return true
		}
	}
	if cl, ok := e.(*ast.CompositeLit); ok && len(cl.Elts) == 0 {
		return true
	}
	return false
}

func ruleEncoderContract(r *core.Run, p *core.Prog, rel string) {
	const rule = "encoder-contract"
	short := rel[strings.LastIndex(rel, "/")+1:]
	comp := r.MustFunc(rule, rel, "Encoder.Compress")
	dec := r.MustFunc(rule, rel, "Encoder.Decompress")
	if comp == nil || dec == nil {
		return
	}
	// ---------------- Compress ----------------
	{
		f := comp
		info := f.Info()
		g := core.GraphOf(f)
		where := p.Rel(f.Decl.Pos())
		sig := f.Obj.Type().(*types.Signature)
		pData, pBuf, pDst := sig.Params().At(0), sig.Params().At(1), sig.Params().At(2)
		bufUsed := pBuf.Name() != "_" && pBuf.Name() != ""
		var countVar types.Object
		cl := func(n ast.Node, cond *bool) []ev {
			var out []ev
			if cond != nil {
				c := n.(ast.Expr)
				if b, ok := core.BinOp(c, token.LSS); ok {
					if cc, ok := ast.Unparen(b.X).(*ast.CallExpr); ok && core.CallName(info, cc) == "builtin.cap" && core.ObjOf(info, cc.Args[0]) == pBuf {
						out = append(out, ev{label: map[bool]string{true: "cap<need", false: "cap>=need"}[*cond] + ":" + core.Str(b.Y)})
					}
				}
				for _, nm := range nonEmptyFacts(info, c, *cond, f.Decl.Body) {
					out = append(out, ev{label: "nonempty:" + nm})
				}
			}
			if a, ok := n.(*ast.AssignStmt); ok && len(a.Lhs) == 1 && len(a.Rhs) == 1 && core.ObjOf(info, a.Lhs[0]) == pBuf {
				switch rh := ast.Unparen(a.Rhs[0]).(type) {
				case *ast.SliceExpr:
					if core.ObjOf(info, rh.X) == pBuf && rh.Low == nil && rh.High != nil {
						if zeroLen(info, rh) {
							out = append(out, ev{label: "buf-zero"})
						} else {
							out = append(out, ev{label: "reslice:" + core.Str(rh.High)})
						}
					}
				case *ast.CallExpr:
					if core.CallName(info, rh) == "builtin.make" && len(rh.Args) == 3 {
						out = append(out, ev{label: "realloc:" + core.Str(rh.Args[2])})
					} else {
						out = append(out, ev{label: "buf-assigned?"})
					}
				}
			}
			for _, c := range core.Calls(n, false) {
				name := core.CallName(info, c)
				rx, m := core.MethodCall(info, c)
				if idx, ok := appendStyle[name]; ok && len(c.Args) > idx {
					l := "append-api-dirty"
					if zeroLen(info, c.Args[idx]) {
						l = "append-api-clean"
					}
					out = append(out, ev{label: l, node: c})
				}
				if m == "Write" && rx != nil && core.ObjOf(info, rx) == pDst && len(c.Args) == 1 {
					if a, ok := n.(*ast.AssignStmt); ok && len(a.Lhs) == 2 {
						countVar = core.ObjOf(info, a.Lhs[0])
					}
					out = append(out, ev{label: "write", node: c})
				}
				// &x[0] on a slice parameter
			}
			core.Walk(n, false, func(x ast.Node) bool {
				if u, ok := x.(*ast.UnaryExpr); ok && u.Op == token.AND {
					if ix, ok := ast.Unparen(u.X).(*ast.IndexExpr); ok {
						if k, okc := core.ConstInt(info, ix.Index); okc && k == 0 {
							if o := core.ObjOf(info, ix.X); o == pData || o == pBuf {
								out = append(out, ev{label: "addr0:" + o.Name(), node: u})
							}
						}
					}
				}
				return true
			})
			return out
		}
		ts, ok := traces(f, g, cl, 20000)
		if !ok {
			r.Undecided(rule, short+".Compress:paths", where, "too many paths")
			return
		}
		r.Stat("paths_enumerated", len(ts))
		var badWrite, badCount, badGuard, badAppend, badAddr string
		nOK := 0
		for _, t := range ts {
			if t.has("append-api-dirty") && !t.has("buf-zero") {
				badAppend = "an append-style library call receives the caller's scratch buffer without truncating it to zero length: the scratch contents (8 KiB in the storage layer) are emitted in front of the compressed frame: " + pathLines(p, g, t.path)
			}
			if t.has("buf-assigned?") {
				badGuard = "scratch buffer reassigned in an unrecognised way: " + pathLines(p, g, t.path)
			}
			// reslice under capacity guard
			for i, e := range t.evs {
				if strings.HasPrefix(e.label, "reslice:") {
					need := strings.TrimPrefix(e.label, "reslice:")
					okG := false
					for _, e2 := range t.evs[:i] {
						if e2.label == "cap>=need:"+need {
							okG = true
						}
						if strings.HasPrefix(e2.label, "realloc:") && strings.Contains(e2.label, need) {
							okG = true
						}
					}
					if !okG {
						badGuard = fmt.Sprintf("buf is resliced to [:%s] without a preceding 'cap(buf) < %s' test that reallocates: panics for inputs whose bound exceeds the scratch capacity: %s", need, need, pathLines(p, g, t.path))
					}
				}
				if strings.HasPrefix(e.label, "addr0:") {
					nm := strings.TrimPrefix(e.label, "addr0:")
					okA := false
					for _, e2 := range t.evs[:i] {
						if e2.label == "nonempty:"+nm || (nm == pBuf.Name() && strings.HasPrefix(e2.label, "reslice:")) {
							okA = true
						}
					}
					if !okA {
						badAddr = fmt.Sprintf("&%s[0] is evaluated although %s may be empty (its sibling parameters are guarded by len(x) > 0): %s", nm, nm, pathLines(p, g, t.path))
					}
				}
			}
			isWriteReturn := false
			if t.outcome == "call" && t.ret != nil && len(t.ret.Results) == 1 {
				if c, ok := ast.Unparen(t.ret.Results[0]).(*ast.CallExpr); ok {
					if rx, m := core.MethodCall(info, c); m == "Write" && rx != nil && core.ObjOf(info, rx) == pDst {
						isWriteReturn = true
					}
				}
			}
			if t.outcome == "ok" || isWriteReturn {
				nOK++
				// number of writes: exactly one unless dst == nil branch (cond on dst) — count ≤ 1 and ≥ 1 on paths where dst != nil
				if t.count("write") > 1 {
					badWrite = "more than one dst.Write on a successful path: " + pathLines(p, g, t.path)
				}
				if t.count("write") == 0 {
					// allowed only if the path took `dst != nil` false
					dstNil := false
					for i := range t.path {
						if tk, isC := g.Taken(t.path, i); isC {
							if x, y, eq, ok := eqTest(g.Nodes[t.path[i]].(ast.Expr), tk); ok && core.ObjOf(info, x) == pDst && core.IsNil(info, y) && eq {
								dstNil = true
							}
						}
					}
					if !dstNil {
						badWrite = "a successful path emits nothing although a destination was given: " + pathLines(p, g, t.path)
					}
				}
				if t.outcome == "ok" && t.ret != nil && t.count("write") == 1 {
					if countVar == nil || core.ObjOf(info, t.ret.Results[0]) != countVar {
						badCount = "the count returned on success is " + core.Str(t.ret.Results[0]) + ", not the count returned by dst.Write: " + pathLines(p, g, t.path)
					}
				}
			}
		}
		r.Check(rule, short+".Compress:scratch-contributes-no-bytes", where, badAppend == "", badAppend)
		r.Check(rule, short+".Compress:one-write-per-success", where, badWrite == "" && nOK > 0, badWrite)
		r.Check(rule, short+".Compress:reports-write-count", where, badCount == "", badCount)
		if bufUsed {
			r.Check(rule, short+".Compress:reslice-under-capacity-guard", where, badGuard == "", badGuard)
		}
		r.Check(rule, short+".Compress:no-address-of-empty-slice", where, badAddr == "", badAddr)
		// liblz4 (unlike libzstd, which documents NULL as valid for empty input) dereferences the source
		// pointer at high levels even for empty input: the pointer variable filled from &data[0] under
		// the len(data) > 0 guard must start out non-nil (finding F26)
		if short == "lz4" {
			ruleSourcePointerNeverNil(r, p, f, pData, short)
		}
		// the size the scratch buffer is resliced to must be the codec's own worst-case bound
		core.Walk(f.Decl.Body, false, func(x ast.Node) bool {
			a, ok := x.(*ast.AssignStmt)
			if !ok || len(a.Lhs) != 1 || len(a.Rhs) != 1 || core.ObjOf(info, a.Lhs[0]) != pBuf {
				return true
			}
			se, ok := ast.Unparen(a.Rhs[0]).(*ast.SliceExpr)
			if !ok || se.High == nil || zeroLen(info, se) {
				return true
			}
			okB, src := false, core.Str(se.High)
			if o := core.ObjOf(info, se.High); o != nil {
				if d := singleDef(info, f.Decl.Body, o); d != nil {
					src = core.Str(d)
					if c, ok := stripConv(info, d).(*ast.CallExpr); ok {
						fn := core.Str(c.Fun) + " " + core.CallName(info, c)
						okB = strings.Contains(fn, "ompressBound") || strings.Contains(fn, "CompressBlockBound")
					}
				}
			}
			r.Check(rule, short+".Compress:buffer-sized-by-codec-bound", p.Rel(a.Pos()), okB,
				"the output buffer is sized by "+src+" instead of the codec's own worst-case bound function: for incompressible input the codec needs up to its documented bound, a hand-written estimate makes large incompressible blocks fail in this build only")
			return true
		})
		// what is written: data itself (null), library-length prefix of buf, or the library's returned slice
		var wcalls []*ast.CallExpr
		for _, c := range core.Calls(f.Decl.Body, false) {
			if rx, m := core.MethodCall(info, c); m == "Write" && rx != nil && core.ObjOf(info, rx) == pDst {
				wcalls = append(wcalls, c)
			}
		}
		if len(wcalls) == 0 {
			r.Undecided(rule, short+".Compress:written-bytes", where, "no dst.Write call")
		}
		libCall := func(d ast.Expr) bool {
			c, ok := stripConv(info, d).(*ast.CallExpr)
			if !ok {
				return false
			}
			return !strings.HasPrefix(core.CallName(info, c), "builtin.")
		}
		for wi, wcall := range wcalls {
			arg := ast.Unparen(wcall.Args[0])
			// a local that merely names the slice (`out := buf[:n]`, or the parameter of an expanded helper) is read at its definition
			for i := 0; i < 4; i++ {
				id, isId := arg.(*ast.Ident)
				if !isId || core.ObjOf(info, id) == pData {
					break
				}
				d := singleDef(info, f.Decl.Body, core.ObjOf(info, id))
				if d == nil {
					break
				}
				if _, isCall := ast.Unparen(d).(*ast.CallExpr); isCall {
					break
				}
				arg = ast.Unparen(d)
			}
			okW, why := false, "dst.Write("+core.Str(arg)+")"
			switch a := arg.(type) {
			case *ast.Ident:
				o := core.ObjOf(info, a)
				if o == pData {
					okW = short == "null"
					why += ": raw input is only a valid frame for the null encoder"
				} else if d := singleDef(info, f.Decl.Body, o); d != nil {
					if c, ok := ast.Unparen(d).(*ast.CallExpr); ok {
						if _, isApp := appendStyle[core.CallName(info, c)]; isApp {
							okW = true
						}
					}
				}
			case *ast.SliceExpr:
				if core.ObjOf(info, a.X) == pBuf && a.Low == nil && a.High != nil {
					if o := core.ObjOf(info, a.High); o != nil {
						if d := singleDef(info, f.Decl.Body, o); d != nil && libCall(d) {
							okW = true // the library-reported length
						}
						// multi-value definition: compLen, err := lib(...)
						if !okW {
							core.Walk(f.Decl.Body, false, func(x ast.Node) bool {
								if as, ok := x.(*ast.AssignStmt); ok && len(as.Rhs) == 1 && len(as.Lhs) == 2 && core.ObjOf(info, as.Lhs[0]) == o && libCall(as.Rhs[0]) {
									okW = true
								}
								return true
							})
						}
					}
				}
			}
			r.Check(rule, fmt.Sprintf("%s.Compress:write#%d-is-exactly-the-library-output", short, wi+1), p.Rel(wcall.Pos()), okW, why+" — what reaches the file must be the codec library's returned slice, or buf[:n] with n the length reported by the codec library; a hand-built frame is readable only by coincidence")
		}
	}
	// ---------------- Decompress ----------------
	{
		f := dec
		info := f.Info()
		g := core.GraphOf(f)
		where := p.Rel(f.Decl.Pos())
		sig := f.Obj.Type().(*types.Signature)
		pIn, pOut, pSrc := sig.Params().At(0), sig.Params().At(1), sig.Params().At(2)
		readInto := pIn
		if short == "null" {
			readInto = pOut
		}
		var readCount types.Object
		cl := func(n ast.Node, cond *bool) []ev {
			var out []ev
			if cond != nil {
				c := n.(ast.Expr)
				if lhs, rhs, eq, ok := eqTest(c, *cond); ok && readCount != nil {
					if core.ObjOf(info, rhs) == readCount {
						lhs, rhs = rhs, lhs
					}
					if core.ObjOf(info, lhs) == readCount {
						if cc, ok := ast.Unparen(rhs).(*ast.CallExpr); ok && core.CallName(info, cc) == "builtin.len" && core.ObjOf(info, cc.Args[0]) == readInto {
							out = append(out, ev{label: map[bool]string{true: "full-read", false: "short-read"}[eq]})
						}
					}
				}
				for _, nm := range nonEmptyFacts(info, c, *cond, f.Decl.Body) {
					out = append(out, ev{label: "nonempty:" + nm})
				}
			}
			if a, ok := n.(*ast.AssignStmt); ok && len(a.Lhs) == 1 && len(a.Rhs) == 1 && core.ObjOf(info, a.Lhs[0]) == pOut {
				if zeroLen(info, a.Rhs[0]) {
					out = append(out, ev{label: "out-zero"})
				}
			}
			for _, c := range core.Calls(n, false) {
				name := core.CallName(info, c)
				rx, m := core.MethodCall(info, c)
				if m == "Read" && rx != nil && core.ObjOf(info, rx) == pSrc && len(c.Args) == 1 {
					l := "read"
					if core.ObjOf(info, c.Args[0]) != readInto {
						l = "read-elsewhere"
					}
					if a, ok := n.(*ast.AssignStmt); ok && len(a.Lhs) == 2 {
						readCount = core.ObjOf(info, a.Lhs[0])
					}
					out = append(out, ev{label: l, node: c})
				}
				if idx, ok := appendStyle[name]; ok && len(c.Args) > idx {
					l := "append-api-dirty"
					if zeroLen(info, c.Args[idx]) {
						l = "append-api-clean"
					} else if core.ObjOf(info, c.Args[idx]) == pOut {
						l = "append-api-out"
					}
					out = append(out, ev{label: l, node: c})
				}
			}
			core.Walk(n, false, func(x ast.Node) bool {
				if u, ok := x.(*ast.UnaryExpr); ok && u.Op == token.AND {
					if ix, ok := ast.Unparen(u.X).(*ast.IndexExpr); ok {
						if k, okc := core.ConstInt(info, ix.Index); okc && k == 0 {
							if o := core.ObjOf(info, ix.X); o == pIn || o == pOut {
								out = append(out, ev{label: "addr0:" + o.Name(), node: u})
							}
						}
					}
				}
				return true
			})
			return out
		}
		for _, n := range g.Nodes {
			if n != nil {
				cl(n, nil) // learn readCount
			}
		}
		ts, ok := traces(f, g, cl, 20000)
		if !ok {
			r.Undecided(rule, short+".Decompress:paths", where, "too many paths")
			return
		}
		r.Stat("paths_enumerated", len(ts))
		var badRead, badAppend, badAddr, badRet string
		nOK := 0
		for _, t := range ts {
			for i, e := range t.evs {
				if e.label == "append-api-dirty" || (e.label == "append-api-out" && !hasBefore(t, i, "out-zero")) {
					badAppend = "an append-style decoder call receives a destination that was not truncated to zero length: decoded bytes land behind stale contents of out: " + pathLines(p, g, t.path)
				}
				if strings.HasPrefix(e.label, "addr0:") {
					nm := strings.TrimPrefix(e.label, "addr0:")
					if !hasBefore(t, i, "nonempty:"+nm) {
						badAddr = fmt.Sprintf("&%s[0] is evaluated although %s may be empty (a zero on-disk length in damaged metadata reaches this with len(%s) == 0; the sibling parameter is guarded by len(x) > 0): %s", nm, nm, nm, pathLines(p, g, t.path))
					}
				}
			}
			if t.outcome != "ok" {
				continue
			}
			nOK++
			if t.count("read") != 1 || t.has("read-elsewhere") || !t.has("full-read") {
				badRead = fmt.Sprintf("a successful path must read from src exactly once into %s and compare the count with len(%s) before decoding: %s", readInto.Name(), readInto.Name(), pathLines(p, g, t.path))
			}
			// returned length: not len(out) / constant; must stem from the library call (or the read count for null)
			if t.ret != nil {
				res := ast.Unparen(t.ret.Results[0])
				// where the returned length comes from: the decoder's own report (a call result, or the length of the slice a
				// decoder call returned), for the null codec the read count; never the length of a parameter or a constant
				var origin func(e ast.Expr, depth int) bool
				origin = func(e ast.Expr, depth int) bool {
					if depth > 5 {
						return false
					}
					e = stripConv(info, resolveLocal(info, f.Decl.Body, stripConv(info, e)))
					if c, ok := e.(*ast.CallExpr); ok {
						if core.CallName(info, c) == "builtin.len" && len(c.Args) == 1 {
							x := resolveLocal(info, f.Decl.Body, c.Args[0])
							if o := core.ObjOf(info, x); o != nil {
								if o == pOut || o == pIn {
									return false
								}
								if dc, _ := defCall(info, f.Decl.Body, o); dc != nil {
									return true // length of what a decoder call returned
								}
								return false
							}
							_, isCall := ast.Unparen(x).(*ast.CallExpr)
							return isCall
						}
						return true // reported by a call
					}
					if o := core.ObjOf(info, e); o != nil {
						if short == "null" && o == readCount {
							return true
						}
						if dc, _ := defCall(info, f.Decl.Body, o); dc != nil {
							if _, m := core.MethodCall(info, dc); m != "Read" || short == "null" {
								return true
							}
						}
					}
					return false
				}
				okR := origin(res, 0)
				if !okR {
					badRet = "Decompress returns " + core.Str(res) + ", which is not the length reported by the decoder: " + pathLines(p, g, t.path)
				}
			}
		}
		r.Check(rule, short+".Decompress:reads-exactly-len-in", where, badRead == "" && nOK > 0, badRead)
		r.Check(rule, short+".Decompress:destination-truncated-for-append-api", where, badAppend == "", badAppend)
		r.Check(rule, short+".Decompress:no-address-of-empty-slice", where, badAddr == "", badAddr)
		r.Check(rule, short+".Decompress:returns-decoded-length", where, badRet == "" && nOK > 0, badRet)
	}
}

func hasBefore(t trace, i int, label string) bool {
	for _, e := range t.evs[:i] {
		if e.label == label {
			return true
		}
	}
	return false
}

// ruleEncoderNew: encoder.New returns, for each declared encoders.Type constant, the
// implementation whose Type() returns that constant, and an error for everything else.
func ruleEncoderNew(r *core.Run, p *core.Prog) {
	const rule = "encoder-table"
	f := r.MustFunc(rule, pkgEncoder, "New")
	if f == nil {
		return
	}
	info := f.Info()
	var sw *ast.SwitchStmt
	core.Walk(f.Decl.Body, false, func(x ast.Node) bool {
		if s, ok := x.(*ast.SwitchStmt); ok && sw == nil {
			sw = s
		}
		return true
	})
	if sw == nil {
		r.Undecided(rule, "encoder.New:switch", p.Rel(f.Decl.Pos()), "no switch over the type")
		return
	}
	hasDefaultErr := false
	for _, s := range sw.Body.List {
		cc := s.(*ast.CaseClause)
		var ret *ast.ReturnStmt
		for _, st := range cc.Body {
			if rs, ok := st.(*ast.ReturnStmt); ok {
				ret = rs
			}
		}
		if ret == nil || len(ret.Results) != 2 {
			r.Undecided(rule, "encoder.New:case-shape", p.Rel(cc.Pos()), "case without a two-value return")
			continue
		}
		if cc.List == nil {
			hasDefaultErr = core.IsNil(info, ret.Results[0]) && !core.IsNil(info, ret.Results[1])
			continue
		}
		for _, ce := range cc.List {
			cname := core.ObjOf(info, selOrIdent(ce)).Name()
			if core.IsNil(info, ret.Results[0]) {
				r.Check(rule, "encoder.New:"+cname, p.Rel(ce.Pos()), !core.IsNil(info, ret.Results[1]), "a type without implementation must be rejected with an error")
				continue
			}
			// returned value: pkg.New() — the package's Encoder.Type must return the same constant
			call, ok := ast.Unparen(ret.Results[0]).(*ast.CallExpr)
			okT, got := false, "?"
			if ok {
				if fo, ok := core.Callee(info, call).(*types.Func); ok && fo.Pkg() != nil {
					if tf := p.Func(core.RelPkg(fo.Pkg().Path()), "Encoder.Type"); tf != nil {
						core.Walk(tf.Decl.Body, false, func(x ast.Node) bool {
							if rs, ok := x.(*ast.ReturnStmt); ok && len(rs.Results) == 1 {
								if o := core.ObjOf(tf.Info(), selOrIdent(rs.Results[0])); o != nil {
									got = o.Name()
									okT = got == cname
								}
							}
							return true
						})
					}
				}
			}
			r.Check(rule, "encoder.New:"+cname, p.Rel(ce.Pos()), okT, fmt.Sprintf("case %s returns an encoder whose Type() is %s", cname, got))
		}
	}
	r.Check(rule, "encoder.New:unknown-type-rejected", p.Rel(sw.Pos()), hasDefaultErr, "the default branch must return (nil, error): an unknown type byte in a damaged file must not yield a decoder")
}

// ruleSourcePointerNeverNil: liblz4 (unlike libzstd, which documents NULL as valid for empty input) dereferences the source
// pointer at high compression levels even for empty input (finding F26). On every path to the LZ4_compress_HC call the
// pointer passed as source must be the address of something: &data[0] where data is known to be non-empty, or the address of
// another object; never nil / never left at its zero value. The pointer may be a local (any assignment structure) or the result
// of a helper whose every return is such an address.
func ruleSourcePointerNeverNil(r *core.Run, p *core.Prog, f *core.Fn, pData types.Object, short string) {
	const rule = "encoder-contract"
	info := f.Info()
	g := core.GraphOf(f)
	var ccall *ast.CallExpr
	for _, c := range core.Calls(f.Decl.Body, false) {
		if strings.Contains(core.Str(c.Fun), "LZ4_compress_HC") && len(c.Args) >= 1 {
			ccall = c
		}
	}
	if ccall == nil {
		return // the pure-Go implementation has no such call
	}
	strip := func(i *types.Info, e ast.Expr) ast.Expr {
		for {
			e = ast.Unparen(e)
			c, ok := e.(*ast.CallExpr)
			if !ok || len(c.Args) != 1 {
				return e
			}
			if tv, ok := i.Types[c.Fun]; ok && tv.IsType() {
				e = c.Args[0]
				continue
			}
			return e
		}
	}
	// state of a pointer-valued expression: "addr" (address of an object other than an element of `par`), "addr0:par"
	// (address of par[0]: needs par non-empty), "nil", "?"
	var helperOK func(i *types.Info, hc *ast.CallExpr, par types.Object) string
	classify := func(i *types.Info, e ast.Expr, par types.Object) string {
		e = strip(i, e)
		if core.IsNil(i, e) {
			return "nil"
		}
		if hc, ok := e.(*ast.CallExpr); ok {
			if why := helperOK(i, hc, par); why == "" {
				return "addr"
			}
			return "?"
		}
		if u, ok := e.(*ast.UnaryExpr); ok && u.Op == token.AND {
			if ix, ok := ast.Unparen(u.X).(*ast.IndexExpr); ok && par != nil && core.ObjOf(i, ix.X) == par {
				return "addr0"
			}
			return "addr"
		}
		return "?"
	}
	// pathStates: for every path from the entry of fn to node `until` (or to every return if until < 0) the state of the value
	// `of(path-node)`; reports the first bad path
	checkFn := func(fn *core.Fn, par types.Object, target func(n ast.Node) (ast.Expr, bool)) string {
		fi := fn.Info()
		fg := core.GraphOf(fn)
		if fn == f {
			fg = g
		}
		var ptr types.Object
		// the tracked variable: the target expression, if it is a local
		for _, n := range fg.Nodes {
			if n == nil {
				continue
			}
			if e, ok := target(n); ok {
				if o, isVar := core.ObjOf(fi, strip(fi, e)).(*types.Var); isVar && !o.IsField() {
					ptr = o
				}
			}
		}
		paths, ok := fg.Paths(core.Entry, core.Exit, 20000)
		if !ok {
			return "too many paths"
		}
		for _, path := range paths {
			state := "nil" // zero value of an unassigned pointer
			nonEmpty := false
			for i, id := range path {
				n := fg.Nodes[id]
				if n == nil {
					continue
				}
				if tk, isC := fg.Taken(path, i); isC {
					for _, nm := range nonEmptyFacts(fi, n.(ast.Expr), tk, fn.Decl.Body) {
						if par != nil && nm == par.Name() {
							nonEmpty = true
						}
					}
					continue
				}
				if ptr != nil {
					var rhs ast.Expr
					switch st := n.(type) {
					case *ast.AssignStmt:
						for j, l := range st.Lhs {
							if core.ObjOf(fi, l) == types.Object(ptr) && j < len(st.Rhs) {
								rhs = st.Rhs[j]
							}
						}
					case *ast.ValueSpec:
						for j, nm := range st.Names {
							if fi.Defs[nm] == types.Object(ptr) {
								if j < len(st.Values) {
									rhs = st.Values[j]
								} else {
									state = "nil"
								}
							}
						}
					}
					if rhs != nil {
						state = classify(fi, rhs, par)
						if state == "addr0" && !nonEmpty {
							return fmt.Sprintf("&%s[0] is taken although %s may be empty: %s", par.Name(), par.Name(), pathLines(p, fg, path))
						}
					}
				}
				if e, isTarget := target(n); isTarget {
					st := state
					if ptr == nil || core.ObjOf(fi, strip(fi, e)) != types.Object(ptr) {
						st = classify(fi, e, par)
						if st == "addr0" && !nonEmpty {
							return fmt.Sprintf("&%s[0] is taken although %s may be empty: %s", par.Name(), par.Name(), pathLines(p, fg, path))
						}
					}
					if st != "addr" && st != "addr0" {
						return fmt.Sprintf("the source pointer is %s on %s", map[string]string{"nil": "nil", "?": "of unknown origin"}[st], pathLines(p, fg, path))
					}
				}
			}
		}
		return ""
	}
	depth := 0
	helperOK = func(i *types.Info, hc *ast.CallExpr, par types.Object) string {
		// helper(data): every return of the helper must be an address
		fo, _ := core.Callee(i, hc).(*types.Func)
		h := p.FnOf(fo)
		if h == nil || depth > 1 {
			return "the source pointer comes from " + core.Str(hc.Fun) + ", which is not a (small) module function"
		}
		depth++
		defer func() { depth-- }()
		var hp types.Object
		hs := h.Obj.Type().(*types.Signature)
		for ai, a := range hc.Args {
			if par != nil && core.ObjOf(i, a) == par && ai < hs.Params().Len() {
				hp = hs.Params().At(ai)
			}
		}
		return checkFn(h, hp, func(n ast.Node) (ast.Expr, bool) {
			if rs, ok := n.(*ast.ReturnStmt); ok && len(rs.Results) == 1 {
				return rs.Results[0], true
			}
			return nil, false
		})
	}
	src := strip(info, ccall.Args[0])
	why := ""
	if hc, ok := src.(*ast.CallExpr); ok {
		why = helperOK(info, hc, pData)
	} else {
		why = checkFn(f, pData, func(n ast.Node) (ast.Expr, bool) {
			found := false
			core.Walk(n, false, func(x ast.Node) bool {
				if x == ast.Node(ccall) {
					found = true
				}
				return !found
			})
			if found {
				return ccall.Args[0], true
			}
			return nil, false
		})
	}
	r.Check(rule, short+".Compress:source-pointer-never-nil", p.Rel(ccall.Pos()), why == "",
		"the source pointer handed to LZ4_compress_HC must be a valid address on every path, also for empty input (at compression levels >= 10 the library dereferences it: SIGSEGV): "+why)
}

// codecOptionTable: options of the third-party pure-Go codecs, classified by reading their documentation. "neutral" options
// change speed / memory / checksum handling but not which frames the encoder may emit or the decoder accepts; "restricting"
// options make the decoder reject (or the encoder emit) frames the other build's library handles differently. Both builds must
// read each other's blocks whatever their size, so a restricting option breaks interchangeability for some block.
var codecOptionTable = map[string]string{
	"github.com/klauspost/compress/zstd.WithEncoderLevel":       "neutral",
	"github.com/klauspost/compress/zstd.WithEncoderCRC":         "neutral",
	"github.com/klauspost/compress/zstd.WithEncoderConcurrency": "neutral",
	"github.com/klauspost/compress/zstd.WithLowerEncoderMem":    "neutral",
	"github.com/klauspost/compress/zstd.WithZeroFrames":         "neutral",
	"github.com/klauspost/compress/zstd.IgnoreChecksum":         "neutral",
	"github.com/klauspost/compress/zstd.WithDecoderConcurrency": "neutral",
	"github.com/klauspost/compress/zstd.WithDecoderLowmem":      "neutral",
	"github.com/klauspost/compress/zstd.WithDecoderMaxWindow":   "restricting: frames whose window exceeds the bound are rejected; libzstd writes a window as large as the block",
	"github.com/klauspost/compress/zstd.WithDecoderMaxMemory":   "restricting: frames that need more memory than the bound are rejected",
	"github.com/klauspost/compress/zstd.WithDecodeAllCapLimit":  "restricting: DecodeAll refuses to grow the destination",
	"github.com/klauspost/compress/zstd.WithDecoderDicts":       "restricting: frames then depend on a dictionary the other build does not have",
	"github.com/klauspost/compress/zstd.WithEncoderDict":        "restricting: frames then depend on a dictionary the other build does not have",
	"github.com/klauspost/compress/zstd.WithWindowSize":         "restricting: fixes the window the other build's decoder must accept",
	"github.com/klauspost/compress/zstd.WithSingleSegment":      "restricting: changes the frame header the other build must parse",
	"github.com/klauspost/compress/zstd.WithEncoderPadding":     "restricting: pads frames with skippable frames",
}

// ruleCodecOptions: every option passed to a third-party codec constructor is classified neutral in codecOptionTable.
func ruleCodecOptions(r *core.Run, p *core.Prog, rel string) {
	const rule = "codec-options"
	short := rel[strings.LastIndex(rel, "/")+1:]
	for _, f := range p.Funcs(rel) {
		info := f.Info()
		for _, c := range core.Calls(f.Decl.Body, true) {
			cn := core.CallName(info, c)
			if !strings.HasPrefix(cn, "github.com/klauspost/compress/zstd.New") {
				continue
			}
			for _, a := range c.Args {
				oc, ok := ast.Unparen(a).(*ast.CallExpr)
				if !ok {
					continue
				}
				on := core.CallName(info, oc)
				class, known := codecOptionTable[on]
				key := fmt.Sprintf("%s.%s:%s(%s)", short, f.Name, cn[strings.LastIndex(cn, ".")+1:], on[strings.LastIndex(on, ".")+1:])
				switch {
				case !known:
					r.Undecided(rule, key, p.Rel(oc.Pos()), "codec option "+on+" is not classified: it must be shown not to restrict the frames the other build writes / reads before it is used")
				default:
					r.Check(rule, key, p.Rel(oc.Pos()), class == "neutral", on+" — "+class)
				}
			}
		}
	}
}
