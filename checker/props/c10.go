package props

import (
	"fmt"
	"go/ast"
	"go/token"
	"go/types"
	"regexp"
	"sort"
	"strings"

	"gpverif/core"
)

func init() { register("C10", c10) }

func c10(r *core.Run) {
	r.Expl = "C10 (condition text parsed robustly): decides (1) every operator spelling documented in the goQuery help tables (extracted from the constant help text) is matched — bare for symbol forms, enclosed by blanks for word forms — by a regular expression that tokenize.go lists under the same base operator and by no expression listed under a different base operator (the rewrite rules are applied in map-iteration order, so a spelling claimed by two operators has a random meaning); all listed expressions compile; (2) parser totality: every access to the token slice is guarded by the end-of-input test, parseConditional rejects parse errors and trailing tokens before returning a tree; (3) the prefix length taken from user text is bounded on both sides before it indexes (shared with C09). NOT decided: that sanitise → tokenise → join → parse preserves meaning or is idempotent; interaction between consecutive word operators sharing a blank (e.g. 'x and not y' is rejected today — observation F07, not the result of a check); behaviour on arbitrary (fuzzed) strings."
	r.Floor = 40
	r.Rules = append(r.Rules, "help-vs-grammar: constant regexps compiled and applied to the documented spellings at analysis time", "parser-totality", "parsed-int-bounds", "conversion-applied (P1)", "window-slice-bounded: x[a:a+K] needs a test relating a to len(x)", "conversion-order: no string fold over a map")
	p := r.Prog("cgo")
	c10HelpGrammar(r, p)
	c10Sanitize(r, p)
	c10Parser(r, p)
	ruleNetmaskBounds(r, p)
	ruleFamilyDecidedOnce(r, p)
	c10Windows(r, p)
	c10FoldOrder(r, p)
}

// c10FoldOrder: the canonical form of a condition is computed by rewriting the text once per entry of the conversion
// table. The word spellings are matched together with the blanks around them, so neighbouring operators compete for the
// blank between them and the rewrites do not commute. The text that comes out therefore depends on the order in which the
// table is walked, and that order must be fixed by the program: a string accumulator that is rewritten inside a `range`
// over a Go map (`s = f(s, key, value)`) takes the order of the run. Decided: SanitizeUserInput contains no such fold.
func c10FoldOrder(r *core.Run, p *core.Prog) {
	const rule = "conversion-order"
	f := r.MustFunc(rule, "pkg/goDB/conditions", "SanitizeUserInput")
	if f == nil {
		return
	}
	info := f.Info()
	bad := ""
	core.Walk(f.Decl.Body, false, func(x ast.Node) bool {
		rs, ok := x.(*ast.RangeStmt)
		if !ok {
			return true
		}
		t := info.TypeOf(resolveLocal(info, f.Decl.Body, ast.Unparen(rs.X)))
		if t == nil {
			return true
		}
		if _, isMap := t.Underlying().(*types.Map); !isMap {
			return true
		}
		core.Walk(rs.Body, false, func(y ast.Node) bool {
			a, ok := y.(*ast.AssignStmt)
			if !ok || len(a.Lhs) != 1 || len(a.Rhs) != 1 {
				return true
			}
			o, isVar := core.ObjOf(info, a.Lhs[0]).(*types.Var)
			if !isVar || (o.Pos() >= rs.Pos() && o.Pos() < rs.End()) {
				return true // declared inside the loop: not an accumulator
			}
			if b, isB := o.Type().Underlying().(*types.Basic); !isB || b.Info()&types.IsString == 0 {
				return true
			}
			if core.MentionsObj(info, a.Rhs[0], o) {
				bad = fmt.Sprintf("%s: %s is rewritten once per entry of the map %s, in the map's iteration order", p.Rel(a.Pos()), o.Name(), core.Str(rs.X))
			}
			return true
		})
		return true
	})
	r.Check(rule, "SanitizeUserInput:conversion-order-independent-of-map-iteration", p.Rel(f.Decl.Pos()), bad == "",
		bad+": the word forms are matched with the blanks around them, so for `a and not b` the rewrite of \"and\" and the rewrite of \"not\" compete for the blank between them; which one wins differs from run to run, the canonical form is \"…and!b\" or \"…&not b\", and neither parses")
}

// c10Windows: no fixed-size window at a variable offset without a length test, in everything that handles the tokens of
// a condition: tokenizer, parser, node construction and the error value that reports a rejected condition (its Error()
// method runs for every rejected input).
func c10Windows(r *core.Run, p *core.Prog) {
	const rule = "window-slice-bounded"
	if err := windowSliceSelfTest(); err != nil {
		r.Undecided(rule, "self-test", "-", "the rule does not behave as specified on its fixture: "+err.Error())
		return
	}
	n := 0
	for _, rel := range []string{"pkg/goDB/conditions", pkgNode, "pkg/types"} {
		for _, fn := range p.Funcs(rel) {
			if rel == "pkg/types" && !strings.HasPrefix(fn.Name, "ParseError.") {
				continue
			}
			n++
			hz := windowSliceHazards(fn.Info(), fn.Decl.Body, p.Rel)
			if len(hz) > 0 {
				r.Check(rule, fn.Where(), p.Rel(fn.Decl.Pos()), false, strings.Join(hz, "; "))
			}
		}
	}
	r.Check(rule, "functions-scanned", "-", n >= 20, fmt.Sprintf("%d functions of the condition packages and of types.ParseError scanned; fixture verdicts as specified", n))
}

func c10HelpGrammar(r *core.Run, p *core.Prog) {
	const rule = "help-vs-grammar"
	condPkg := p.Pkg("pkg/goDB/conditions")
	helpPkg := p.Pkg("cmd/goQuery/cmd")
	if condPkg == nil || helpPkg == nil {
		r.Missing(rule, "pkg/goDB/conditions or cmd/goQuery/cmd")
		return
	}
	// grammar table
	grammar := map[string][]string{}
	var gpos token.Pos
	for _, f := range condPkg.Syntax {
		ast.Inspect(f, func(x ast.Node) bool {
			vs, ok := x.(*ast.ValueSpec)
			if !ok || len(vs.Names) != 1 || vs.Names[0].Name != "grammarConversionMap" || len(vs.Values) != 1 {
				return true
			}
			cl, ok := vs.Values[0].(*ast.CompositeLit)
			if !ok {
				return true
			}
			gpos = vs.Pos()
			for _, el := range cl.Elts {
				kv := el.(*ast.KeyValueExpr)
				k, ok := core.ConstStr(condPkg.TypesInfo, kv.Key)
				if !ok {
					continue
				}
				if vl, ok := kv.Value.(*ast.CompositeLit); ok {
					for _, v := range vl.Elts {
						if s, ok := core.ConstStr(condPkg.TypesInfo, v); ok {
							grammar[k] = append(grammar[k], s)
						}
					}
				}
			}
			return false
		})
	}
	if len(grammar) == 0 {
		r.Missing(rule, "conditions.grammarConversionMap (map literal of constant strings)")
		return
	}
	compiled := map[string][]*regexp.Regexp{}
	for base, pats := range grammar {
		for _, pat := range pats {
			re, err := regexp.Compile(pat)
			r.Check(rule, "grammar:"+base+":compiles:"+pat, p.Rel(gpos), err == nil, fmt.Sprintf("%v", err))
			if err == nil {
				compiled[base] = append(compiled[base], re)
			}
		}
	}
	// help text
	help := ""
	var hpos token.Pos
	for _, f := range helpPkg.Syntax {
		ast.Inspect(f, func(x ast.Node) bool {
			if bl, ok := x.(*ast.BasicLit); ok && bl.Kind == token.STRING {
				if s, ok := core.ConstStr(helpPkg.TypesInfo, bl); ok && strings.Contains(s, "COMPARATIVE OPERATORS") && strings.Contains(s, "LOGICAL OPERATORS") {
					help, hpos = s, bl.Pos()
				}
			}
			return true
		})
	}
	if help == "" {
		r.Missing(rule, "help text with the COMPARATIVE / LOGICAL OPERATORS tables")
		return
	}
	rowRe := regexp.MustCompile(`^\s*(=|!=|<=|>=|<|>|!|&|\|)\s{2,}\S.*?\s{2,}(\S.*)$`)
	type sp struct{ base, s string }
	var spellings []sp
	for _, line := range strings.Split(help, "\n") {
		m := rowRe.FindStringSubmatch(line)
		if m == nil {
			continue
		}
		for _, s := range strings.Split(m[2], ",") {
			s = strings.TrimSpace(s)
			if s != "" {
				spellings = append(spellings, sp{m[1], s})
			}
		}
	}
	r.Stat("documented_spellings", len(spellings))
	if len(spellings) < 20 {
		r.Undecided(rule, "help:tables", p.Rel(hpos), fmt.Sprintf("only %d operator spellings could be extracted from the help text", len(spellings)))
	}
	bases := []string{}
	for b := range compiled {
		bases = append(bases, b)
	}
	sort.Strings(bases)
	wordy := regexp.MustCompile(`^-?[a-z]+$`)
	for _, s := range spellings {
		probe := s.s
		if wordy.MatchString(s.s) {
			probe = "x " + s.s + " y" // word forms require enclosing whitespace
		} else {
			probe = "x" + s.s + "y"
		}
		own := false
		for _, re := range compiled[s.base] {
			if re.MatchString(probe) {
				own = true
			}
		}
		r.Check(rule, fmt.Sprintf("spelling:%s:%s:accepted", s.base, s.s), p.Rel(gpos), own,
			fmt.Sprintf("the help text documents %q as a spelling of %q but no expression listed under %q matches %q", s.s, s.base, s.base, probe))
		var foreign []string
		for _, b := range bases {
			if b == s.base || (s.base == "!" && b == "!(") {
				continue
			}
			for _, re := range compiled[b] {
				if loc := re.FindStringIndex(probe); loc != nil {
					// the match must cover the spelling itself (not only the x / y padding)
					foreign = append(foreign, fmt.Sprintf("%q (under %q)", re.String(), b))
				}
			}
		}
		r.Check(rule, fmt.Sprintf("spelling:%s:%s:unambiguous", s.base, s.s), p.Rel(gpos), len(foreign) == 0,
			fmt.Sprintf("%q is documented for %q but is also rewritten by %s; rules are applied in map order, so its meaning depends on the iteration order", s.s, s.base, strings.Join(foreign, ", ")))
	}
}

// c10Sanitize: every condition text passes through the whole operator conversion table: no return of SanitizeUserInput is
// reachable without passing the loop over the compiled table, and the loop applies every expression of every entry to the
// text and keeps the result. A shortcut that skips the table for "simple looking" input silently drops documented spellings.
func c10Sanitize(r *core.Run, p *core.Prog) {
	const rule = "conversion-applied"
	f := r.MustFunc(rule, "pkg/goDB/conditions", "SanitizeUserInput")
	if f == nil {
		return
	}
	info := f.Info()
	g := core.GraphOf(f)
	// the loop over the table: either a range over the package-level map itself, or a range over a package-level list of
	// its keys (the fixed order of application) with the entry looked up in the map
	var outer *ast.RangeStmt
	overKeys := false
	core.Walk(f.Decl.Body, false, func(x ast.Node) bool {
		if rs, ok := x.(*ast.RangeStmt); ok && outer == nil {
			v, isVar := core.ObjOf(info, rs.X).(*types.Var)
			if !isVar || v.Parent() != v.Pkg().Scope() {
				return true
			}
			switch info.TypeOf(rs.X).Underlying().(type) {
			case *types.Map:
				outer = rs
			case *types.Slice:
				outer, overKeys = rs, true
			}
		}
		return true
	})
	if outer == nil {
		r.Check(rule, "SanitizeUserInput:ranges-over-conversion-table", p.Rel(f.Decl.Pos()), false, "no loop over the package-level conversion table")
		return
	}
	hdr := g.NodeOf(outer.X)
	bad := ""
	if hdr < 0 {
		r.Undecided(rule, "SanitizeUserInput:loop-node", p.Rel(outer.Pos()), "loop header not found in the control-flow graph")
		return
	}
	for _, rn := range g.Returns() {
		if !g.Dominated(rn, map[int]bool{hdr: true}) {
			bad = fmt.Sprintf("the return at %s is reachable without the conversion table having been applied", p.Rel(g.Nodes[rn].Pos()))
		}
	}
	r.Check(rule, "SanitizeUserInput:no-return-before-the-table", p.Rel(f.Decl.Pos()), bad == "", bad)
	// inside: text = re.ReplaceAllString(text, key) for every element of the entry
	okApply := false
	var key, val types.Object
	if overKeys {
		key = core.ObjOf(info, outer.Value)
		c10KeyListComplete(r, p, f, core.ObjOf(info, outer.X))
	} else if outer.Key != nil && outer.Value != nil {
		key, val = core.ObjOf(info, outer.Key), core.ObjOf(info, outer.Value)
	}
	if key != nil {
		core.Walk(outer.Body, false, func(x ast.Node) bool {
			in, ok := x.(*ast.RangeStmt)
			if !ok || in.Value == nil {
				return true
			}
			if overKeys {
				// for _, re := range table[key]
				ie, isIdx := ast.Unparen(resolveLocal(info, f.Decl.Body, ast.Unparen(in.X))).(*ast.IndexExpr)
				if !isIdx || core.ObjOf(info, ie.Index) != key {
					return true
				}
				tv, isVar := core.ObjOf(info, ie.X).(*types.Var)
				if !isVar || tv.Parent() != tv.Pkg().Scope() {
					return true
				}
			} else if core.ObjOf(info, in.X) != val {
				return true
			}
			re := core.ObjOf(info, in.Value)
			core.Walk(in.Body, false, func(y ast.Node) bool {
				a, ok := y.(*ast.AssignStmt)
				if !ok || len(a.Lhs) != 1 || len(a.Rhs) != 1 {
					return true
				}
				c, isCall := a.Rhs[0].(*ast.CallExpr)
				if !isCall || len(c.Args) != 2 {
					return true
				}
				rx, m := core.MethodCall(info, c)
				if m == "ReplaceAllString" && rx != nil && core.ObjOf(info, rx) == re && core.ObjOf(info, c.Args[0]) == core.ObjOf(info, a.Lhs[0]) && core.ObjOf(info, c.Args[1]) == key {
					okApply = true
				}
				return true
			})
			return true
		})
	}
	r.Check(rule, "SanitizeUserInput:every-expression-of-every-entry-applied", p.Rel(outer.Pos()), okApply, "text = expr.ReplaceAllString(text, operator) for each expression of each table entry")
}

// c10KeyListComplete: when the table is applied in the order of a separate list of its keys, that list must name every
// entry: it is filled in the loop that builds the table, with the key of the entry being built.
func c10KeyListComplete(r *core.Run, p *core.Prog, f *core.Fn, list types.Object) {
	const rule = "conversion-applied"
	okList := false
	for _, fn := range p.Funcs("pkg/goDB/conditions") {
		info := fn.Info()
		core.Walk(fn.Decl.Body, false, func(x ast.Node) bool {
			rs, ok := x.(*ast.RangeStmt)
			if !ok || rs.Key == nil {
				return true
			}
			if _, isMap := info.TypeOf(rs.X).Underlying().(*types.Map); !isMap {
				return true
			}
			k := core.ObjOf(info, rs.Key)
			stores, appends := false, false
			for _, st := range rs.Body.List {
				a, ok := st.(*ast.AssignStmt)
				if !ok || len(a.Lhs) != 1 || len(a.Rhs) != 1 {
					continue
				}
				if ie, isIdx := ast.Unparen(a.Lhs[0]).(*ast.IndexExpr); isIdx && core.ObjOf(info, ie.Index) == k {
					stores = true
				}
				if c, isCall := ast.Unparen(a.Rhs[0]).(*ast.CallExpr); isCall && core.CallName(info, c) == "builtin.append" && len(c.Args) == 2 &&
					core.ObjOf(info, a.Lhs[0]) == list && core.ObjOf(info, c.Args[0]) == list && core.ObjOf(info, c.Args[1]) == k {
					appends = true
				}
			}
			if stores && appends {
				okList = true
			}
			return true
		})
	}
	r.Check(rule, "SanitizeUserInput:order-list-names-every-entry", p.Rel(f.Decl.Pos()), okList, "the list that fixes the order of the conversions must be filled, unconditionally, in the loop that builds the table, with the key of each entry: an entry missing from it is never applied")
}

func c10Parser(r *core.Run, p *core.Prog) {
	const rule = "parser-totality"
	fTok := p.FieldObj(pkgNode, "parser", "tokens")
	if fTok == nil {
		r.Missing(rule, "node.parser.tokens")
		return
	}
	isEOF := func(f *core.Fn, e ast.Expr) (neg bool, ok bool) {
		e = ast.Unparen(e)
		if u, isU := e.(*ast.UnaryExpr); isU && u.Op == token.NOT {
			if c, isC := ast.Unparen(u.X).(*ast.CallExpr); isC && core.CallName(f.Info(), c) == pkgNode+".parser.eof" {
				return true, true
			}
		}
		if c, isC := e.(*ast.CallExpr); isC && core.CallName(f.Info(), c) == pkgNode+".parser.eof" {
			return false, true
		}
		return false, false
	}
	n := 0
	for _, f := range p.Funcs(pkgNode) {
		info := f.Info()
		if f.Name == "parser.eof" || f.Name == "newParseError" || f.Name == "parser.die" {
			continue
		}
		var g *core.Graph
		parents := core.Parents(f.Decl.Body)
		core.Walk(f.Decl.Body, true, func(x ast.Node) bool {
			ix, ok := x.(*ast.IndexExpr)
			if !ok || core.SelField(info, ix.X) != fTok {
				return true
			}
			n++
			guarded := false
			// (a) right operand of && whose left side contains !p.eof()
			var cur ast.Node = ix
			for cur != nil {
				par := parents[cur]
				if b, ok := par.(*ast.BinaryExpr); ok && b.Op == token.LAND && b.Y == cur {
					for _, c := range core.Conjuncts(b.X, false) {
						if neg, ok := isEOF(f, c); ok && neg {
							guarded = true
						}
					}
				}
				// (a') right operand of || whose left side contains p.eof(): evaluated only when eof is false
				if b, ok := par.(*ast.BinaryExpr); ok && b.Op == token.LOR && b.Y == cur {
					for _, c := range core.Conjuncts(b.X, true) {
						if neg, ok := isEOF(f, c); ok && !neg {
							guarded = true
						}
					}
				}
				if _, ok := par.(ast.Stmt); ok {
					break
				}
				cur = par
			}
			// (b) dominated by `if p.eof() { leave }`
			if !guarded {
				if g == nil {
					g = core.GraphOf(f)
				}
				id := g.NodeOf(ix)
				for gid, gn := range g.Nodes {
					ce, ok := gn.(ast.Expr)
					if !ok || len(g.Succ[gid]) != 2 || id < 0 {
						continue
					}
					neg, ok := isEOF(f, ce)
					if !ok {
						continue
					}
					thenN, elseN, _ := g.CondEdges(gid)
					bad := thenN // branch on which eof holds
					if neg {
						bad = elseN
					}
					if g.Dominated(id, map[int]bool{gid: true}) && !g.Reach(bad, id, map[int]bool{gid: true}) {
						guarded = true
					}
				}
			}
			r.Check(rule, fmt.Sprintf("%s:token-access", f.Name), p.Rel(ix.Pos()), guarded, "p.tokens is indexed without the end-of-input test having excluded pos >= len(tokens): malformed input panics instead of being rejected")
			return true
		})
	}
	if n < 2 {
		r.Undecided(rule, "token-accesses", "-", fmt.Sprintf("only %d indexed token accesses found in the parser", n))
	}
	// parseConditional: success and eof tests guard the success return
	if f := r.MustFunc(rule, pkgNode, "parseConditional"); f != nil {
		info := f.Info()
		g := core.GraphOf(f)
		cl := func(n ast.Node, cond *bool) []ev {
			var out []ev
			if cond == nil {
				return nil
			}
			e := ast.Unparen(n.(ast.Expr))
			neg := false
			if u, ok := e.(*ast.UnaryExpr); ok && u.Op == token.NOT {
				neg = true
				e = ast.Unparen(u.X)
			}
			if c, ok := e.(*ast.CallExpr); ok {
				holds := *cond != neg
				switch core.CallName(info, c) {
				case pkgNode + ".parser.success":
					out = append(out, ev{label: map[bool]string{true: "success", false: "failed"}[holds]})
				case pkgNode + ".parser.eof":
					out = append(out, ev{label: map[bool]string{true: "eof", false: "trailing"}[holds]})
				}
			}
			return out
		}
		ts, ok := traces(f, g, cl, 2000)
		if !ok {
			r.Undecided(rule, "parseConditional:paths", p.Rel(f.Decl.Pos()), "too many paths")
			return
		}
		bad, nOK := "", 0
		for _, t := range ts {
			if t.outcome == "ok" {
				nOK++
				if !t.has("success") || !t.has("eof") {
					bad = "a tree is returned without the parser having succeeded and consumed all tokens: " + pathLines(p, g, t.path)
				}
			}
		}
		r.Check(rule, "parseConditional:rejects-errors-and-trailing-tokens", p.Rel(f.Decl.Pos()), bad == "" && nOK > 0, bad)
	}
}
