package props

import (
	"go/token"

	"gpverif/core"
)

func init() {
	register("C01", c01)
	register("C03", c03)
	register("C04", c04)
	register("C05", c05)
	register("C30", c30)
}

func c01(r *core.Run) {
	r.Expl = "C01 (blocks read back as written): decides structural necessary conditions only — (1) the write-offset accounting and commit protocol of GPFile.writeBlock on every control-flow path (rollback by seek+reset between two emitting attempts, flush before commit, recorded Len/offset advance = count of the last emitting call, recorded encoder type = emitting encoder, RawLen = input length, duplicate test before AddBlock); (2) GPFile.open seeks to the committed offset before creating the writer, ModeWrite has neither O_TRUNC nor O_APPEND; (3) GPDir.Marshal and GPDir.Unmarshal agree on offset, width, role, stride and loop structure of every stored field, and the size constants equal the sizes implied by the code; (4) WriteBlocks touches the summaries exactly once after all columns succeeded and the Add methods cover every field; (5) ReadBlockAtIndex returns data only after the length check, with the decoder chosen from the block's type. NOT decided: that arbitrary byte contents survive (compression libraries trusted), behaviour over histories of sessions, numeric equality of totals."
	r.Floor = 50
	p := r.Prog("cgo")
	r.Rules = append(r.Rules, "writeBlock-trace: path-enumerating automaton over emit/seek/reset/flush/AddBlock/offset-update events",
		"open-resume", "codec-layout: serialisation signature of Marshal vs Unmarshal + size constants", "decode-guards", "narrowing-guarded",
		"writeblocks-protocol", "read-path", "field-coverage")
	ruleWriteBlockTrace(r, p, nil)
	ruleOpenResume(r, p)
	ruleCodecLayout(r, p)
	ruleWriteBlocksSummaries(r, p)
	ruleReadPath(r, p)
	ruleAccumulate(r, p, pkgGpfile, "TrafficMetadata.Add", token.ADD_ASSIGN)
	ruleAccumulate(r, p, pkgGpfile, "Stats.Add", token.ADD_ASSIGN)
	ruleAccumulate(r, p, "pkg/types", "Counters.Add", token.ADD_ASSIGN)
}

func c03(r *core.Run) {
	r.Expl = "C03 (day metadata survives reopening): decides (1) every narrowing conversion stored by GPDir.Marshal is dominated by range guards on every side its source type can exceed (signed timestamp delta: upper and lower); (2) GPDir.Unmarshal's two size guards exist, use constants that cover the bytes the decoder consumes (derived from the code), reject with an error and dominate every access and allocation; writer/reader layout agreement; (3) the duplicate-timestamp test dominates AddBlock in writeBlock; (4) GPDir.Open propagates Unmarshal errors; (5) WriteBlocks does not modify the timestamp / traffic metadata / counters it is given before recording them (a clamp there would defeat the refusal of unrepresentable values). NOT decided: equality of re-read histories as values, rejection of every malformed byte string, >4GiB blocks."
	r.Floor = 36
	p := r.Prog("cgo")
	r.Rules = append(r.Rules, "codec-layout", "decode-guards", "narrowing-guarded", "recorded-as-given", "writeBlock-trace(duplicate-check)", "storage-errors(Open)")
	ruleCodecLayout(r, p)
	ruleRecordedAsGiven(r, p)
	ruleWriteBlockTrace(r, p, map[string]bool{"duplicate-check-dominates-add": true, "no-commit-on-error-path": true, "success-implies-commit": true})
	if f := r.MustFunc("storage-errors", pkgGpfile, "GPDir.Open"); f != nil {
		for _, c := range core.Calls(f.Decl.Body, false) {
			if core.CallName(f.Info(), c) == pkgGpfile+".GPDir.Unmarshal" {
				use, why := core.ErrDisposition(f.Info(), f.Decl.Body, c)
				r.Check("storage-errors", "GPDir.Open:Unmarshal-error-propagates", p.Rel(c.Pos()), use == core.ErrChecked || use == core.ErrReturned, why)
			}
		}
	}
}

func commitProtocol(r *core.Run, p *core.Prog) {
	ruleMetaAtomic(r, p)
	ruleDirClose(r, p)
	ruleDBWriter(r, p)
	ruleWriteBlocksSummaries(r, p)
	ruleOpenResume(r, p)
	ruleDirOpenFresh(r, p)
}

func c04(r *core.Run) {
	r.Expl = "C04 (crash during write-out): decides only that the protocol the recovery argument relies on is the one in the code — metadata published by create-temp(in the day directory) → marshal → close → rename onto the metadata path → directory rename, each step's error aborting; no other function writes the metadata path; GPDir.Close commits only if all column closes succeeded; DBWriter commits only after every WriteBlocks succeeded; summaries updated after all columns; committed bytes are never rewritten (only seek target in write mode is the committed offset, no truncate; ModeWrite constant); write ownership (who may modify files / create write-mode directories). NOT decided: the state of the files at each system-call boundary, partial writes, recovery by later write-outs — these need crash-point enumeration."
	r.Floor = 40
	p := r.Prog("cgo")
	r.Rules = append(r.Rules, "commit-protocol: per-path event order (create-temp, marshal, close, rename) with error dispositions", "write-ownership", "writeBlock-trace", "open-resume", "loaded-sentinel: only the loaders make GPDir.Metadata non-nil")
	commitProtocol(r, p)
	ruleWriteBlockTrace(r, p, map[string]bool{"rollback-between-emits": true, "flush-after-last-emit": true, "no-foreign-seek-or-truncate": true, "block-offset-is-committed-offset": true, "offset-advances-by-last-emit-count": true, "no-commit-on-error-path": true})
	ruleWriteOwnership(r, p)
	ruleCommittedOffsetRoles(r, p)
	ruleMetadataSentinel(r, p)
}

func c05(r *core.Run) {
	r.Expl = "C05 (failed I/O never damages committed data): decides the error discipline and commit protocol of the write path — no error returned by a storage call is dropped in gpfile and in the goDB writer (every call site classified: returned / tested-and-leaves / deliberately soft with a frozen reason); writeBlock reaches no header update on an error path; WriteBlocks aborts on the first failing column before touching summaries; DBWriter never reaches GPDir.Close (the metadata commit) after a failed WriteBlocks; Close does not commit after a column close error; the metadata commit is temp-file + rename with every step checked. NOT decided: behaviour under each injected fault at each call, recovery after the fault clears."
	r.Floor = 60
	p := r.Prog("cgo")
	r.Rules = append(r.Rules, "storage-errors: disposition of every error-returning call in gpfile + goDB writer", "commit-protocol", "writeBlock-trace", "writeblocks-protocol")
	commitProtocol(r, p)
	ruleWriteBlockTrace(r, p, map[string]bool{"no-commit-on-error-path": true, "compress-error-checked": true, "flush-after-last-emit": true, "rollback-between-emits": true, "success-implies-commit": true})
	ruleStorageErrcheck(r, p, pkgGpfile)
	for _, n := range []string{"DBWriter.Write", "DBWriter.WriteBulk"} {
		_ = n
	}
}

func c30(r *core.Run) {
	r.Expl = "C30 (queries during write-outs): decides the two immutability facts the per-day snapshot argument needs — committed column bytes are never rewritten (write mode seeks only to the committed offset, no truncate, ModeWrite without O_TRUNC/O_APPEND, block offset recorded = committed offset) and the metadata file is replaced only by rename of a fully written temp file in the same directory with a single writer — plus the reader's reopen-on-missing-file recovery retrying exactly once after a successful reopen, without a loop, GPDir.Open in read mode reacting to a missing metadata file by relocating the (renamed) day directory and opening again rather than trusting an earlier probe, and the reader never handing out data whose decoded length mismatches. NOT decided: the interleavings themselves."
	r.Floor = 20
	p := r.Prog("cgo")
	r.Rules = append(r.Rules, "commit-protocol", "open-resume", "reader-recovery", "buffer-ownership", "writeBlock-trace", "read-path")
	ruleMetaAtomic(r, p)
	ruleOpenResume(r, p)
	ruleReadRetryOnce(r, p)
	ruleOpenRecovery(r, p)
	ruleLentBuffers(r, p)
	ruleWriteBlockTrace(r, p, map[string]bool{"no-foreign-seek-or-truncate": true, "block-offset-is-committed-offset": true, "flush-after-last-emit": true})
	ruleReadPath(r, p)
	ruleCommittedOffsetRoles(r, p)
}
