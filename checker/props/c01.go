package props

import "gpverif/core"

func init() { register("C01", c01) }

func c01(r *core.Run) {
	r.Expl = "C01 (blocks read back as written): decides structural necessary conditions only — the write-offset accounting and commit protocol of GPFile.writeBlock on every control-flow path; resume position on open; agreement of the metadata writer/reader layouts; field coverage of the summaries; the read path's length check and decoder choice. Does not decide that arbitrary byte contents survive (compression libraries trusted) nor equality of numeric totals."
	r.Floor = 10
	p := r.Prog("cgo")
	r.Rules = append(r.Rules, "writeBlock-trace: path-enumerating automaton over emit/seek/reset/flush/AddBlock/offset-update events")
	ruleWriteBlockTrace(r, p, nil)
}
