package props

import (
	"fmt"
	"go/ast"
	"go/token"
	"go/types"
	"strings"

	"gpverif/core"
)

func init() { register("C28", c28) }

func c28(r *core.Run) {
	r.Expl = "C28 (time arguments parse to the instant they denote): decides the relative-time and range clauses structurally — (1) in parseRelativeTime the unit table is d=86400, h=3600, m=60, s=1 seconds (both syntaxes), the only quantity subtracted is the accumulated number of seconds, every successful return is time.Now().Unix() minus that accumulator (a fixed duration: no calendar arithmetic such as AddDate, which shifts by an hour across DST changes), and the accumulator is only ever increased by unit*number or a parsed duration's seconds; a missing leading '-' and an empty / unknown chunk are errors; (2) ParseTimeRange and ParseTimeRangeCollectErrors both reject first > last and both default an empty upper bound to now; (3) ParseTimeArgument tries relative (leading '-'), then integer Unix time, then every layout of the default and custom lists in order with ParseInLocation in the local zone, returning the first success's Unix time and an error if none matches. NOT decided: that each layout round-trips instants (time package behaviour), ambiguity between layouts, DST behaviour of absolute local times."
	r.Floor = 12
	r.Rules = append(r.Rules, "unit-table (P4)", "return-shape", "sibling-agreement", "layout-loop")
	p := r.Prog("cgo")
	c28Relative(r, p)
	c28Range(r, p)
	c28Absolute(r, p)
}

func c28Relative(r *core.Run, p *core.Prog) {
	const rule = "unit-table"
	f := r.MustFunc(rule, "pkg/query", "parseRelativeTime")
	if f == nil {
		return
	}
	info := f.Info()
	where := p.Rel(f.Decl.Pos())
	// accumulator: the int64 local that is subtracted in return statements
	var acc types.Object
	var badRet []string
	nRet := 0
	core.Walk(f.Decl.Body, false, func(x ast.Node) bool {
		rs, ok := x.(*ast.ReturnStmt)
		if !ok || len(rs.Results) != 2 || !core.IsNil(info, rs.Results[1]) {
			return true
		}
		nRet++
		b, ok := core.BinOp(rs.Results[0], token.SUB)
		if !ok || core.Str(ast.Unparen(resolveLocal(info, f.Decl.Body, b.X))) != "time.Now().Unix()" || core.ObjOf(info, b.Y) == nil {
			badRet = append(badRet, fmt.Sprintf("%s: returns %s", p.Rel(rs.Pos()), core.Str(rs.Results[0])))
			return true
		}
		if acc != nil && acc != core.ObjOf(info, b.Y) {
			badRet = append(badRet, fmt.Sprintf("%s: subtracts a different variable", p.Rel(rs.Pos())))
		}
		acc = core.ObjOf(info, b.Y)
		return true
	})
	r.Check("return-shape", "parseRelativeTime:now-minus-accumulated-seconds", where, len(badRet) == 0 && nRet >= 2 && acc != nil,
		"every successful return must be time.Now().Unix() - <accumulated seconds>: "+strings.Join(badRet, "; "))
	if acc == nil {
		return
	}
	// all writes to the accumulator
	units := map[string]int64{}
	var badAcc []string
	other := 0
	core.Walk(f.Decl.Body, false, func(x ast.Node) bool {
		if a, ok := x.(*ast.AssignStmt); ok && len(a.Lhs) == 1 && core.ObjOf(info, a.Lhs[0]) == acc && a.Tok == token.ADD_ASSIGN {
			// the unit this update belongs to: `case 'd':` or `if unit == 'd'`
			for _, unit := range governingConsts(info, f.Decl.Body, a) {
				if b, ok := core.BinOp(a.Rhs[0], token.MUL); ok {
					if k, okc := core.ConstInt(info, b.X); okc {
						units[unit] = k
					} else if k, okc := core.ConstInt(info, b.Y); okc {
						units[unit] = k
					}
				} else if core.ObjOf(info, a.Rhs[0]) != nil {
					units[unit] = 1
				}
			}
		}
		// the table may also select a multiplier that is applied after it: `unitSeconds = K` per unit, later `acc += unitSeconds * n`
		if a, ok := x.(*ast.AssignStmt); ok && len(a.Lhs) == 1 && core.ObjOf(info, a.Lhs[0]) == acc && a.Tok == token.ADD_ASSIGN && len(governingConsts(info, f.Decl.Body, a)) == 0 {
			if b, ok := core.BinOp(a.Rhs[0], token.MUL); ok {
				for _, operand := range []ast.Expr{b.X, b.Y} {
					mv, isVar := core.ObjOf(info, operand).(*types.Var)
					if !isVar {
						continue
					}
					core.Walk(f.Decl.Body, false, func(y ast.Node) bool {
						ma, ok := y.(*ast.AssignStmt)
						if !ok || len(ma.Lhs) != 1 || len(ma.Rhs) != 1 || core.ObjOf(info, ma.Lhs[0]) != types.Object(mv) {
							return true
						}
						if k, okc := core.ConstInt(info, ma.Rhs[0]); okc {
							for _, unit := range governingConsts(info, f.Decl.Body, ma) {
								units[unit] = k
							}
						}
						return true
					})
				}
			}
		}
		if a, ok := x.(*ast.AssignStmt); ok && len(a.Lhs) == 1 && core.ObjOf(info, a.Lhs[0]) == acc {
			if a.Tok != token.ADD_ASSIGN {
				badAcc = append(badAcc, fmt.Sprintf("%s: %s %s …", p.Rel(a.Pos()), acc.Name(), a.Tok))
				return true
			}
			rhs := core.Str(a.Rhs[0])
			switch {
			case strings.Contains(rhs, "*"):
			case strings.Contains(rhs, ".Seconds()"):
				other++
			case core.ObjOf(info, a.Rhs[0]) != nil:
			default:
				badAcc = append(badAcc, fmt.Sprintf("%s: += %s", p.Rel(a.Pos()), rhs))
			}
		}
		return true
	})
	for u, want := range map[string]int64{"100": 86400, "104": 3600, "109": 60, "115": 1} { // 'd' 'h' 'm' 's'
		r.Check(rule, "parseRelativeTime:unit:"+string(rune(mustAtoi(u))), where, units[u] == want, fmt.Sprintf("unit %q counts %d seconds, want %d", string(rune(mustAtoi(u))), units[u], want))
	}
	// the d-prefix of the duration syntax
	dOK := false
	core.Walk(f.Decl.Body, false, func(x ast.Node) bool {
		if a, ok := x.(*ast.AssignStmt); ok && len(a.Lhs) == 1 && core.ObjOf(info, a.Lhs[0]) == acc && a.Tok == token.ADD_ASSIGN {
			if b, ok := core.BinOp(a.Rhs[0], token.MUL); ok {
				k1, ok1 := core.ConstInt(info, b.X)
				k2, ok2 := core.ConstInt(info, b.Y)
				// not inside the per-unit table
				inCase := len(governingConsts(info, f.Decl.Body, a)) > 0
				if !inCase && ((ok1 && k1 == 86400) || (ok2 && k2 == 86400)) {
					dOK = true
				}
			}
		}
		return true
	})
	r.Check(rule, "parseRelativeTime:duration-syntax-day-prefix", where, dOK, "in the -XdYhZm syntax the day prefix must count 86400 seconds per day")
	r.Check(rule, "parseRelativeTime:accumulator-only-grows-by-seconds", where, len(badAcc) == 0 && other >= 1, strings.Join(badAcc, "; "))
	// no calendar arithmetic anywhere
	cal := []string{}
	for _, c := range core.Calls(f.Decl.Body, true) {
		cn := core.CallName(info, c)
		if cn == "time.Time.AddDate" || cn == "time.Time.Add" || cn == "time.Date" {
			cal = append(cal, p.Rel(c.Pos())+": "+cn)
		}
	}
	r.Check("return-shape", "parseRelativeTime:no-calendar-arithmetic", where, len(cal) == 0, "a relative time denotes now minus a fixed duration; calendar arithmetic keeps the wall clock and is off by an hour across DST transitions: "+strings.Join(cal, "; "))
	// leading '-' required, errors on malformed chunks
	lead := false
	core.Walk(f.Decl.Body, false, func(x ast.Node) bool {
		if ifs, ok := x.(*ast.IfStmt); ok {
			if b, ok := core.BinOp(ifs.Cond, token.NEQ); ok && strings.HasSuffix(core.Str(b.X), "[0]") {
				if tv, ok := info.Types[b.Y]; ok && tv.Value != nil && tv.Value.String() == "45" && core.Leaves(ifs.Body) {
					lead = true
				}
			}
		}
		return true
	})
	r.Check("return-shape", "parseRelativeTime:requires-leading-minus", where, lead, "a relative time without leading '-' must be rejected")
}

func mustAtoi(s string) int {
	n := 0
	fmt.Sscan(s, &n)
	return n
}

func c28Range(r *core.Run, p *core.Prog) {
	const rule = "sibling-agreement"
	for _, name := range []string{"ParseTimeRange", "ParseTimeRangeCollectErrors"} {
		f := r.MustFunc(rule, "pkg/query", name)
		if f == nil {
			continue
		}
		info := f.Info()
		sig := f.Obj.Type().(*types.Signature)
		first, last := sig.Results().At(0), sig.Results().At(1)
		okOrder, okNow, parses := false, false, 0
		core.Walk(f.Decl.Body, false, func(x ast.Node) bool {
			switch s := x.(type) {
			case *ast.IfStmt:
				if b, ok := core.BinOp(s.Cond, token.GTR, token.LSS); ok && ((b.Op == token.GTR && core.ObjOf(info, b.X) == first && core.ObjOf(info, b.Y) == last) || (b.Op == token.LSS && core.ObjOf(info, b.X) == last && core.ObjOf(info, b.Y) == first)) {
					// the branch must produce an error / detail
					produces := false
					core.Walk(s.Body, false, func(y ast.Node) bool {
						if a, ok := y.(*ast.AssignStmt); ok {
							for _, l := range a.Lhs {
								if o := core.ObjOf(info, l); o != nil && (core.IsErrorType(o.Type()) || strings.Contains(o.Type().String(), "ErrorDetail")) {
									produces = true
								}
							}
						}
						// or returns a non-nil error directly
						if rs, ok := y.(*ast.ReturnStmt); ok {
							for _, res := range rs.Results {
								if t := info.TypeOf(res); t != nil && core.IsErrorType(t) && !core.IsNil(info, res) {
									if _, isId := ast.Unparen(res).(*ast.Ident); !isId {
										produces = true
									}
								}
							}
						}
						return true
					})
					okOrder = produces
				}
				// `if x == "" {last = now}` or `if x != "" {…} else {last = now}`
				if _, y, eq, ok := eqTest(s.Cond, true); ok {
					if v, okc := core.ConstStr(info, y); okc && v == "" {
						var branch ast.Node = s.Body
						if !eq {
							branch = s.Else
						}
						if branch != nil {
							core.Walk(branch, false, func(y ast.Node) bool {
								if a, ok := y.(*ast.AssignStmt); ok && len(a.Lhs) == len(a.Rhs) {
									for k := range a.Lhs {
										if core.ObjOf(info, a.Lhs[k]) == last && core.Str(resolveLocal(info, f.Decl.Body, a.Rhs[k])) == "time.Now().Unix()" {
											okNow = true
										}
									}
								}
								return true
							})
						}
					}
				}
			case *ast.CallExpr:
				if core.CallName(info, s) == "pkg/query.ParseTimeArgument" {
					parses++
				}
			}
			return true
		})
		r.Check(rule, name+":rejects-first-after-last", p.Rel(f.Decl.Pos()), okOrder, "a range whose start lies after its end must produce an error")
		r.Check(rule, name+":empty-last-means-now", p.Rel(f.Decl.Pos()), okNow, "an empty upper bound must default to the current time")
		r.Check(rule, name+":parses-both-bounds", p.Rel(f.Decl.Pos()), parses == 2, fmt.Sprintf("%d ParseTimeArgument calls (first and last expected)", parses))
	}
}

func c28Absolute(r *core.Run, p *core.Prog) {
	const rule = "layout-loop"
	f := r.MustFunc(rule, "pkg/query", "ParseTimeArgument")
	if f == nil {
		return
	}
	info := f.Info()
	where := p.Rel(f.Decl.Pos())
	var relPos, intPos, loopPos token.Pos
	okLoop, okLists, okLoc := false, false, false
	triedAll, decidedAll := false, false
	core.Walk(f.Decl.Body, false, func(x ast.Node) bool {
		switch s := x.(type) {
		case *ast.CallExpr:
			switch core.CallName(info, s) {
			case "pkg/query.parseRelativeTime":
				relPos = s.Pos()
			case "strconv.ParseInt":
				intPos = s.Pos()
			case "time.LoadLocation":
				if v, ok := core.ConstStr(info, s.Args[0]); ok && v == "Local" {
					okLoc = true
				}
			}
		case *ast.RangeStmt:
			loopPos = s.Pos()
			xs := core.Str(resolveLocal(info, f.Decl.Body, s.X))
			// the list may be assembled once in a package-level variable: read its initialiser
			if id, ok := ast.Unparen(resolveLocal(info, f.Decl.Body, s.X)).(*ast.Ident); ok {
				if v, ok := info.Uses[id].(*types.Var); ok && v.Parent() == f.Pkg.Types.Scope() {
					for _, file := range f.Pkg.Syntax {
						ast.Inspect(file, func(n ast.Node) bool {
							if vs, ok := n.(*ast.ValueSpec); ok {
								for i, nm := range vs.Names {
									if info.Defs[nm] == v && i < len(vs.Values) && len(vs.Names) == len(vs.Values) {
										xs = core.Str(vs.Values[i])
									}
								}
							}
							return true
						})
					}
				}
			}
			okLists = strings.Contains(xs, "timeFormatsDefault") && strings.Contains(xs, "timeFormatsCustom") && strings.Index(xs, "timeFormatsDefault") < strings.Index(xs, "timeFormatsCustom")
			// body: t, err = time.ParseInLocation(fmt.Format, str, loc); if err == nil { return t.Unix(), nil }
			parse, ret := false, false
			core.Walk(s.Body, false, func(y ast.Node) bool {
				if c, ok := y.(*ast.CallExpr); ok && core.CallName(info, c) == "time.ParseInLocation" && len(c.Args) == 3 && strings.HasSuffix(core.Str(resolveLocal(info, f.Decl.Body, c.Args[0])), ".Format") {
					parse = true
				}
				if ifs, ok := y.(*ast.IfStmt); ok {
					if b, ok := core.BinOp(ifs.Cond, token.EQL); ok && core.IsNil(info, b.Y) {
						for _, st := range ifs.Body.List {
							if rs, ok := st.(*ast.ReturnStmt); ok && len(rs.Results) == 2 && strings.HasSuffix(core.Str(rs.Results[0]), ".Unix()") && core.IsNil(info, rs.Results[1]) {
								ret = true
							}
						}
					}
				}
				return true
			})
			okLoop = parse && ret
			// every layout is tried: no iteration may go on to the next layout without having attempted the parse
			// (a pre-filter on the shape of the input makes some well-formed inputs of that layout unparsable)
			g := core.GraphOf(f)
			var pcall *ast.CallExpr
			core.Walk(s.Body, false, func(y ast.Node) bool {
				if c, ok := y.(*ast.CallExpr); ok && core.CallName(info, c) == "time.ParseInLocation" {
					pcall = c
				}
				return true
			})
			if pcall != nil {
				hn, pn := g.LoopHead(s), g.NodeOf(pcall)
				if hn >= 0 && pn >= 0 {
					triedAll, decidedAll = !g.ReachStrict(hn, hn, map[int]bool{pn: true}), true
				}
			}
		}
		return true
	})
	if decidedAll {
		r.Check(rule, "ParseTimeArgument:every-layout-is-tried", where, triedAll, "an iteration of the layout loop can move on to the next layout without calling ParseInLocation: inputs that the skipped layout denotes are rejected or read by a later layout")
	} else {
		r.Undecided(rule, "ParseTimeArgument:every-layout-is-tried", where, "layout loop (range over the layouts with a ParseInLocation call) not recognised")
	}
	r.Check(rule, "ParseTimeArgument:order-relative-integer-layouts", where, relPos.IsValid() && intPos.IsValid() && loopPos.IsValid() && relPos < intPos && intPos < loopPos, "relative syntax first, then integer Unix time, then the layout lists")
	r.Check(rule, "ParseTimeArgument:first-matching-layout-wins", where, okLoop, "each layout is tried with ParseInLocation and the first success returns its Unix time")
	r.Check(rule, "ParseTimeArgument:all-layout-lists-in-order", where, okLists, "the default layouts must be tried before the custom ones, and both lists must be tried")
	r.Check(rule, "ParseTimeArgument:local-zone", where, okLoc, "layouts without zone are interpreted in the local time zone")
	// final failure returns an error
	last, _ := f.Decl.Body.List[len(f.Decl.Body.List)-1].(*ast.ReturnStmt)
	r.Check(rule, "ParseTimeArgument:no-layout-matches-is-an-error", where, last != nil && len(last.Results) == 2 && !core.IsNil(info, last.Results[1]), "when no layout matches an error must be returned")
}
