package props

import (
	"fmt"
	"go/ast"
	"go/token"
	"go/types"
	"strings"

	"gpverif/core"
)

// ruleOpenResume: GPFile.open positions a write-mode file at the committed offset before it is
// handed to the buffered writer, and ModeWrite can neither truncate nor append.
func ruleOpenResume(r *core.Run, p *core.Prog) {
	const rule = "open-resume"
	f := r.MustFunc(rule, pkgGpfile, "GPFile.open")
	if f == nil {
		return
	}
	info := f.Info()
	fldFile := p.FieldObj(pkgGpfile, "GPFile", "file")
	fldBuf := p.FieldObj(pkgGpfile, "GPFile", "fileWriteBuffer")
	fldCur := p.FieldObj(pkgStorage, "BlockHeader", "CurrentOffset")
	fldMode := p.FieldObj(pkgGpfile, "GPFile", "accessMode")
	g := core.GraphOf(f)
	where := p.Rel(f.Decl.Pos())
	cl := func(n ast.Node, cond *bool) []ev {
		var out []ev
		for _, c := range core.Calls(n, false) {
			recv, m := core.MethodCall(info, c)
			switch {
			case core.CallName(info, c) == "os.OpenFile":
				out = append(out, ev{label: "openfile", node: c})
			case m == "Seek" && recv != nil && core.MentionsField(info, recv, fldFile) && len(c.Args) == 2:
				wh, okc := core.ConstInt(info, c.Args[1])
				if okc && wh == 0 && core.MentionsField(info, c.Args[0], fldCur) {
					out = append(out, ev{label: "seekback", node: c})
				} else {
					out = append(out, ev{label: "seekother", node: c})
				}
			}
		}
		if a, ok := n.(*ast.AssignStmt); ok {
			for _, l := range a.Lhs {
				if core.SelField(info, l) == fldBuf {
					out = append(out, ev{label: "newwriter", node: a})
				}
			}
		}
		return out
	}
	ts, ok := traces(f, g, cl, 5000)
	if !ok {
		r.Undecided(rule, "open:paths", where, "too many paths")
		return
	}
	nW, bad := 0, ""
	var openCall *ast.CallExpr
	var seekCall *ast.CallExpr
	for _, t := range ts {
		for _, e := range t.evs {
			if e.label == "openfile" {
				openCall = e.node.(*ast.CallExpr)
			}
			if e.label == "seekback" {
				seekCall = e.node.(*ast.CallExpr)
			}
		}
		if !t.has("newwriter") || t.outcome == "fail" {
			continue
		}
		nW++
		if !t.has("seekback") || t.first("seekback") < t.first("openfile") {
			bad = "a successful path creates the buffered writer without file.Seek(header.CurrentOffset, 0) after opening: appended data would not start at the committed offset: " + pathLines(p, g, t.path)
		}
		if t.has("seekother") {
			bad = "the write-mode file is positioned somewhere other than the committed offset: " + pathLines(p, g, t.path)
		}
	}
	r.Check(rule, "open:seek-to-committed-offset-before-writing", where, bad == "" && nW > 0, orStr(bad, fmt.Sprintf("%d writer-creating paths, all seek to header.CurrentOffset", nW)))
	if seekCall != nil {
		use, why := core.ErrDisposition(info, f.Decl.Body, seekCall)
		r.Check(rule, "open:seek-error-checked", p.Rel(seekCall.Pos()), use == core.ErrChecked || use == core.ErrReturned, "the error of the resume Seek must abort open ("+why+")")
	}
	if openCall != nil && len(openCall.Args) == 3 {
		r.Check(rule, "open:flags-from-access-mode", p.Rel(openCall.Pos()), core.SelField(info, openCall.Args[1]) == fldMode, "os.OpenFile flags must be the GPFile's access mode, got "+core.Str(openCall.Args[1]))
	} else {
		r.Undecided(rule, "open:flags-from-access-mode", where, "os.OpenFile call not found")
	}
	// ModeWrite / ModeRead constants
	mw, ok1 := p.Const(pkgGpfile, "ModeWrite")
	mr, ok2 := p.Const(pkgGpfile, "ModeRead")
	if !ok1 || !ok2 {
		r.Missing(rule, "gpfile.ModeWrite/ModeRead")
		return
	}
	var w, rd int64
	fmt.Sscan(mw, &w)
	fmt.Sscan(mr, &rd)
	osc := func(name string) int64 {
		for _, pk := range p.Pkgs {
			if imp, ok := pk.Imports["os"]; ok && imp.Types != nil {
				if c, ok := imp.Types.Scope().Lookup(name).(*types.Const); ok {
					var v int64
					fmt.Sscan(c.Val().ExactString(), &v)
					return v
				}
			}
		}
		return -1
	}
	trunc, app, wr, rdwr, creat := osc("O_TRUNC"), osc("O_APPEND"), osc("O_WRONLY"), osc("O_RDWR"), osc("O_CREATE")
	r.Check(rule, "ModeWrite:no-truncate-no-append", pkgGpfile+".ModeWrite", w&trunc == 0 && w&app == 0 && (w&wr != 0 || w&rdwr != 0) && w&creat != 0,
		fmt.Sprintf("ModeWrite=%#x must create and open for writing without O_TRUNC (%#x: would drop committed blocks) or O_APPEND (%#x: would ignore the seek to the committed offset)", w, trunc, app))
	r.Check(rule, "ModeRead:read-only", pkgGpfile+".ModeRead", rd&(wr|rdwr|trunc|creat|app) == 0, fmt.Sprintf("ModeRead=%#x must not permit writes", rd))
}

// ruleWriteBlocksSummaries: GPDir.WriteBlocks writes every column, aborts on the first failing
// column, and touches the day summaries exactly once and only after all columns succeeded.
func ruleWriteBlocksSummaries(r *core.Run, p *core.Prog) {
	const rule = "writeblocks-protocol"
	f := r.MustFunc(rule, pkgGpfile, "GPDir.WriteBlocks")
	if f == nil {
		return
	}
	info := f.Info()
	g := core.GraphOf(f)
	where := p.Rel(f.Decl.Pos())
	sig := f.Obj.Type().(*types.Signature)
	if sig.Params().Len() != 4 {
		r.Undecided(rule, "WriteBlocks:signature", where, "expected (timestamp, blockTraffic, counters, dbData)")
		return
	}
	pTS, pTraffic, pCounters, pData := sig.Params().At(0), sig.Params().At(1), sig.Params().At(2), sig.Params().At(3)
	fBT := p.FieldObj(pkgGpfile, "Metadata", "BlockTraffic")
	fTr := p.FieldObj(pkgGpfile, "Stats", "Traffic")
	fCo := p.FieldObj(pkgGpfile, "Stats", "Counts")
	var wbCall *ast.CallExpr
	// classify one statement; the roles (this block's traffic record and counters) are objects of the function the
	// statement belongs to, so that a straight-line helper the summaries were moved into is read with its own parameters
	var classify func(ci *types.Info, n ast.Node, traffic, counters types.Object, depth int) []ev
	classify = func(ci *types.Info, n ast.Node, traffic, counters types.Object, depth int) []ev {
		var out []ev
		for _, c := range core.Calls(n, false) {
			switch cn := core.CallName(ci, c); cn {
			case pkgGpfile + ".GPFile.writeBlock":
				wbCall = c
				out = append(out, ev{label: "writeblock", node: c})
			case "pkg/types.Counters.Add":
				if rx, _ := core.MethodCall(ci, c); rx != nil && core.SelField(ci, rx) == fCo && len(c.Args) == 1 && core.ObjOf(ci, c.Args[0]) == counters {
					out = append(out, ev{label: "counts", node: c})
				} else {
					out = append(out, ev{label: "counts?", node: c})
				}
			case pkgGpfile + ".TrafficMetadata.Add", "builtin.append":
			default:
				// a straight-line module helper that receives this block's values: read its statements in place
				fo, _ := core.Callee(ci, c).(*types.Func)
				h := p.FnOf(fo)
				if h == nil || depth > 1 {
					continue
				}
				var ht, hc types.Object
				hs := h.Obj.Type().(*types.Signature)
				for ai, a := range c.Args {
					if ai >= hs.Params().Len() {
						break
					}
					if o := core.ObjOf(ci, a); o != nil && o == traffic {
						ht = hs.Params().At(ai)
					} else if o != nil && o == counters {
						hc = hs.Params().At(ai)
					}
				}
				if ht == nil && hc == nil {
					continue
				}
				straight := true
				for _, st := range h.Decl.Body.List {
					switch st.(type) {
					case *ast.AssignStmt, *ast.ExprStmt, *ast.IncDecStmt, *ast.DeclStmt:
					default:
						straight = false
					}
				}
				if !straight {
					out = append(out, ev{label: "counts?", node: c}) // summaries handled by a helper with control flow: not read
					continue
				}
				for _, st := range h.Decl.Body.List {
					out = append(out, classify(h.Info(), st, ht, hc, depth+1)...)
				}
			}
		}
		if a, ok := n.(*ast.AssignStmt); ok && len(a.Lhs) == 1 && len(a.Rhs) == 1 {
			switch core.SelField(ci, a.Lhs[0]) {
			case fBT:
				okApp := false
				if c, ok := a.Rhs[0].(*ast.CallExpr); ok && core.CallName(ci, c) == "builtin.append" && len(c.Args) == 2 &&
					core.SelField(ci, c.Args[0]) == fBT && core.ObjOf(ci, c.Args[1]) == traffic {
					okApp = true
				}
				if okApp {
					out = append(out, ev{label: "blocktraffic", node: a})
				} else {
					out = append(out, ev{label: "blocktraffic?", node: a})
				}
			case fTr:
				okAdd := false
				if c, ok := a.Rhs[0].(*ast.CallExpr); ok && core.CallName(ci, c) == pkgGpfile+".TrafficMetadata.Add" && len(c.Args) == 1 && core.ObjOf(ci, c.Args[0]) == traffic {
					if rx, _ := core.MethodCall(ci, c); rx != nil && core.SelField(ci, rx) == fTr {
						okAdd = true
					}
				}
				if okAdd {
					out = append(out, ev{label: "traffic", node: a})
				} else {
					out = append(out, ev{label: "traffic?", node: a})
				}
			}
		}
		return out
	}
	cl := func(n ast.Node, cond *bool) []ev { return classify(info, n, pTraffic, pCounters, 0) }
	ts, ok := traces(f, g, cl, 5000)
	if !ok {
		r.Undecided(rule, "WriteBlocks:paths", where, "too many paths")
		return
	}
	okN, bad := 0, ""
	for _, t := range ts {
		for _, q := range []string{"counts?", "blocktraffic?", "traffic?"} {
			if t.has(q) {
				bad = "summary updated with something other than this block's values (" + q + "): " + pathLines(p, g, t.path)
			}
		}
		sums := t.count("counts") + t.count("blocktraffic") + t.count("traffic")
		switch t.outcome {
		case "ok":
			okN++
			if t.count("counts") != 1 || t.count("blocktraffic") != 1 || t.count("traffic") != 1 {
				bad = fmt.Sprintf("a successful path updates BlockTraffic %d, Traffic %d, Counts %d times (want once each): %s", t.count("blocktraffic"), t.count("traffic"), t.count("counts"), pathLines(p, g, t.path))
			}
			for _, l := range []string{"counts", "blocktraffic", "traffic"} {
				if t.has("writeblock") && t.first(l) < t.last("writeblock") {
					bad = "summary '" + l + "' is updated before the last column was written: " + pathLines(p, g, t.path)
				}
			}
		case "fail", "call":
			if sums > 0 {
				bad = "an error return is reached after the day summaries were updated: " + pathLines(p, g, t.path)
			}
		}
	}
	r.Check(rule, "WriteBlocks:summaries-once-after-all-columns", where, bad == "" && okN > 0, orStr(bad, fmt.Sprintf("%d paths", len(ts))))
	if wbCall == nil {
		r.Undecided(rule, "WriteBlocks:writeBlock-call", where, "no call to GPFile.writeBlock")
		return
	}
	use, why := core.ErrDisposition(info, f.Decl.Body, wbCall)
	r.Check(rule, "WriteBlocks:column-error-aborts", p.Rel(wbCall.Pos()), use == core.ErrChecked || use == core.ErrReturned, "a failing column write must abort WriteBlocks ("+why+")")
	// the enclosing loop covers all columns, and the call is writeBlock(timestamp, dbData[i]) on gpFiles[i]
	path := core.PathTo(f.Decl.Body, wbCall)
	var loopVar types.Object
	allCols := false
	for _, n := range path {
		if rs, ok := n.(*ast.RangeStmt); ok {
			if rs.Key != nil {
				loopVar = core.ObjOf(info, rs.Key)
			}
			if v, okc := core.ConstInt(info, rs.X); okc {
				cc, _ := p.Const("pkg/types", "ColIdxCount")
				allCols = fmt.Sprint(v) == cc
			} else if t := info.TypeOf(rs.X); t != nil {
				if a, ok := t.Underlying().(*types.Array); ok {
					cc, _ := p.Const("pkg/types", "ColIdxCount")
					allCols = fmt.Sprint(a.Len()) == cc
				}
			}
		}
		if fs, ok := n.(*ast.ForStmt); ok {
			if b, ok := fs.Cond.(*ast.BinaryExpr); ok && b.Op == token.LSS {
				if v, okc := core.ConstInt(info, b.Y); okc {
					cc, _ := p.Const("pkg/types", "ColIdxCount")
					allCols = fmt.Sprint(v) == cc
					loopVar = core.ObjOf(info, b.X)
				}
			}
		}
	}
	r.Check(rule, "WriteBlocks:all-columns", p.Rel(wbCall.Pos()), allCols && loopVar != nil, "writeBlock must be called in a loop over all ColIdxCount columns")
	argsOK := len(wbCall.Args) == 2 && core.ObjOf(info, wbCall.Args[0]) == pTS
	if argsOK {
		ix, ok := ast.Unparen(wbCall.Args[1]).(*ast.IndexExpr)
		argsOK = ok && core.ObjOf(info, ix.X) == pData && core.ObjOf(info, ix.Index) == loopVar
	}
	if rx, _ := core.MethodCall(info, wbCall); rx != nil && argsOK {
		// the receiver is the loop column: d.gpFiles[i], or the file returned by d.Column(i)
		rx = resolveLocal(info, f.Decl.Body, rx)
		if ix, ok := ast.Unparen(rx).(*ast.IndexExpr); ok {
			argsOK = core.ObjOf(info, ix.Index) == loopVar
		} else if o := core.ObjOf(info, rx); o != nil {
			c, i := defCall(info, f.Decl.Body, o)
			argsOK = c != nil && i == 0 && core.CallName(info, c) == pkgGpfile+".GPDir.Column" && len(c.Args) == 1 && core.ObjOf(info, c.Args[0]) == loopVar
		} else {
			argsOK = false
		}
	}
	r.Check(rule, "WriteBlocks:column-gets-its-own-data", p.Rel(wbCall.Pos()), argsOK, "column i must be written with (timestamp, dbData[i]); got "+core.Str(wbCall))
}

// ruleReadPath: ReadBlockAtIndex hands out data only after the decoded length matched, picks the
// decoder from the block's own type, and sizes its buffers from the block descriptor.
func ruleReadPath(r *core.Run, p *core.Prog) {
	const rule = "read-path"
	f := r.MustFunc(rule, pkgGpfile, "GPFile.ReadBlockAtIndex")
	if f == nil {
		return
	}
	info := f.Info()
	g := core.GraphOf(f)
	where := p.Rel(f.Decl.Pos())
	fEnc := p.FieldObj(pkgStorage, "Block", "EncoderType")
	fRaw := p.FieldObj(pkgStorage, "Block", "RawLen")
	fLen := p.FieldObj(pkgStorage, "Block", "Len")
	fOff := p.FieldObj(pkgStorage, "Block", "Offset")
	fDef := p.FieldObj(pkgGpfile, "GPFile", "defaultEncoder")
	fUn := p.FieldObj(pkgGpfile, "GPFile", "uncompData")
	fBd := p.FieldObj(pkgGpfile, "GPFile", "blockData")
	fFile := p.FieldObj(pkgGpfile, "GPFile", "file")
	fSeek := p.FieldObj(pkgGpfile, "GPFile", "lastSeekPos")
	isNullConst := func(e ast.Expr) bool {
		o := core.ObjOf(info, selOrIdent(e))
		return o != nil && o.Name() == "EncoderTypeNull"
	}
	// variables assigned from encoder.New(<block.EncoderType>)
	newFromBlock := map[types.Object]bool{}
	core.Walk(f.Decl.Body, false, func(x ast.Node) bool {
		if a, ok := x.(*ast.AssignStmt); ok && len(a.Rhs) == 1 {
			if c, ok := core.IsCall(info, a.Rhs[0], pkgEncoder+".New"); ok && len(c.Args) == 1 && core.MentionsField(info, c.Args[0], fEnc) {
				if o := core.ObjOf(info, a.Lhs[0]); o != nil {
					newFromBlock[o] = true
				}
				if core.SelField(info, a.Lhs[0]) == fDef {
					newFromBlock[fDef] = true
				}
			}
		}
		return true
	})
	var countVars = map[types.Object]bool{}
	cl := func(n ast.Node, cond *bool) []ev {
		var out []ev
		if cond != nil {
			c := n.(ast.Expr)
			if b, ok := core.BinOp(c, token.NEQ, token.EQL); ok {
				ne := (b.Op == token.NEQ) == *cond // "operands differ" holds on this edge
				switch {
				case core.MentionsField(info, b.X, fEnc) && isNullConst(b.Y), core.MentionsField(info, b.Y, fEnc) && isNullConst(b.X):
					if ne {
						out = append(out, ev{label: "type!=null"})
					} else {
						out = append(out, ev{label: "type==null"})
					}
				case core.MentionsField(info, c, fEnc) && core.MentionsField(info, c, fDef):
					if ne {
						out = append(out, ev{label: "type!=current"})
					} else {
						out = append(out, ev{label: "type==current"})
					}
				case core.MentionsField(info, c, fRaw) && mentionsAny(info, c, countVars):
					if ne {
						out = append(out, ev{label: "count!=rawlen"})
					} else {
						out = append(out, ev{label: "count==rawlen"})
					}
				}
			}
		}
		if a, ok := n.(*ast.AssignStmt); ok {
			for i, l := range a.Lhs {
				if core.SelField(info, l) == fDef && i < len(a.Rhs) {
					if o := core.ObjOf(info, a.Rhs[i]); o != nil && newFromBlock[o] {
						out = append(out, ev{label: "switch-decoder"})
					} else if len(a.Rhs) == 1 && newFromBlock[fDef] {
						out = append(out, ev{label: "switch-decoder"})
					} else {
						out = append(out, ev{label: "switch-decoder?"})
					}
				}
				if core.SelField(info, l) == fSeek && a.Tok == token.ADD_ASSIGN {
					if core.MentionsField(info, a.Rhs[0], fLen) && !core.MentionsField(info, a.Rhs[0], fRaw) {
						out = append(out, ev{label: "advance-by-len"})
					} else {
						out = append(out, ev{label: "advance?"})
					}
				}
			}
		}
		for _, c := range core.Calls(n, false) {
			rx, m := core.MethodCall(info, c)
			if m == "Decompress" && len(c.Args) == 3 {
				if a, ok := n.(*ast.AssignStmt); ok && len(a.Lhs) >= 1 {
					if o := core.ObjOf(info, a.Lhs[0]); o != nil {
						countVars[o] = true
					}
				}
				kind := "decompress?"
				if tn := core.TypeName(info.TypeOf(rx)); strings.HasSuffix(tn, "encoder/null.Encoder") {
					kind = "decompress-null"
				} else if core.MentionsField(info, rx, fDef) {
					kind = "decompress-default"
				}
				argsOK := core.SelField(info, c.Args[1]) == fUn && core.SelField(info, c.Args[2]) == fFile
				if kind == "decompress-default" {
					argsOK = argsOK && core.SelField(info, c.Args[0]) == fBd
				}
				if !argsOK {
					kind += "-badargs"
				}
				out = append(out, ev{label: kind, node: c})
			}
			if m == "Seek" && rx != nil && core.SelField(info, rx) == fFile {
				out = append(out, ev{label: "seek", node: c})
			}
		}
		return out
	}
	// pre-pass to learn countVars
	for _, n := range g.Nodes {
		if n != nil {
			cl(n, nil)
		}
	}
	ts, ok := traces(f, g, cl, 20000)
	if !ok {
		r.Undecided(rule, "ReadBlockAtIndex:paths", where, "too many paths")
		return
	}
	r.Stat("paths_enumerated", len(ts))
	var badLen, badDec, badArgs, badAdv string
	nData := 0
	for _, t := range ts {
		if t.outcome != "ok" || t.ret == nil {
			continue
		}
		hasD := t.has("decompress-null") || t.has("decompress-default") || t.has("decompress?") || t.has("decompress-null-badargs") || t.has("decompress-default-badargs")
		if !hasD {
			continue // the empty-block return
		}
		nData++
		if !t.has("count==rawlen") {
			badLen = "data is returned without the decoded length having been compared with the block's RawLen: " + pathLines(p, g, t.path)
		}
		if t.has("decompress?") || t.has("switch-decoder?") {
			badDec = "decoder used is neither the null encoder nor the GPFile's (block-typed) encoder: " + pathLines(p, g, t.path)
		}
		if t.has("decompress-null-badargs") || t.has("decompress-default-badargs") {
			badArgs = "Decompress must be given (blockData, uncompData, file): " + pathLines(p, g, t.path)
		}
		if t.has("decompress-null") && !t.has("type==null") {
			badDec = "the null decoder is used without the block's type having been tested to be null: " + pathLines(p, g, t.path)
		}
		if t.has("decompress-default") {
			if !t.has("type!=null") && !t.has("type==current") && !t.has("switch-decoder") {
				badDec = "the default decoder is used without relating it to the block's own encoder type: " + pathLines(p, g, t.path)
			}
			if !(t.has("type==current") || t.has("switch-decoder")) {
				badDec = "the default decoder is used although the block's encoder type may differ from it (no type test / no decoder switch on the path): " + pathLines(p, g, t.path)
			}
		}
		if !t.has("advance-by-len") || t.has("advance?") {
			badAdv = "after a read the sequential-read position must advance by the block's on-disk Len: " + pathLines(p, g, t.path)
		}
	}
	r.Check(rule, "ReadBlockAtIndex:length-check-before-return", where, badLen == "" && nData > 0, orStr(badLen, fmt.Sprintf("%d data-returning paths", nData)))
	r.Check(rule, "ReadBlockAtIndex:decoder-from-block-type", where, badDec == "" && nData > 0, badDec)
	r.Check(rule, "ReadBlockAtIndex:decompress-arguments", where, badArgs == "" && nData > 0, badArgs)
	r.Check(rule, "ReadBlockAtIndex:position-advances-by-len", where, badAdv == "" && nData > 0, badAdv)
	// buffers sized from the descriptor; seek target from the block's offset
	sized := map[*types.Var]*types.Var{fUn: fRaw, fBd: fLen}
	for buf, want := range sized {
		okS := false
		core.Walk(f.Decl.Body, false, func(x ast.Node) bool {
			if a, ok := x.(*ast.AssignStmt); ok && len(a.Lhs) == 1 && core.SelField(info, a.Lhs[0]) == buf {
				if se, ok := ast.Unparen(a.Rhs[0]).(*ast.SliceExpr); ok && core.SelField(info, se.X) == buf && se.High != nil && core.MentionsField(info, se.High, want) && se.Low == nil {
					okS = true
				}
			}
			return true
		})
		r.Check(rule, "ReadBlockAtIndex:"+buf.Name()+"-sized-by-"+want.Name(), where, okS, fmt.Sprintf("%s must be resliced to [:block.%s] before decoding", buf.Name(), want.Name()))
	}
	okSeek := false
	core.Walk(f.Decl.Body, false, func(x ast.Node) bool {
		if c, ok := x.(*ast.CallExpr); ok {
			if rx, m := core.MethodCall(info, c); m == "Seek" && rx != nil && core.SelField(info, rx) == fFile && len(c.Args) == 2 {
				arg := c.Args[0]
				if o := core.ObjOf(info, arg); o != nil {
					if d := singleDef(info, f.Decl.Body, o); d != nil {
						arg = d
					}
				}
				wh, okc := core.ConstInt(info, c.Args[1])
				okSeek = core.MentionsField(info, arg, fOff) && okc && wh == 0
			}
		}
		return true
	})
	r.Check(rule, "ReadBlockAtIndex:seek-to-block-offset", where, okSeek, "the read must seek to the block's recorded Offset from the start of the file")
}

func mentionsAny(info *types.Info, n ast.Node, objs map[types.Object]bool) bool {
	hit := false
	core.Walk(n, true, func(x ast.Node) bool {
		if id, ok := x.(*ast.Ident); ok && objs[info.Uses[id]] {
			hit = true
		}
		return !hit
	})
	return hit
}

// ruleMetaAtomic: writeMetadataAtomic publishes the metadata by create-temp (same directory) →
// marshal → close → rename onto the metadata path → optional directory rename, every step checked.
func ruleMetaAtomic(r *core.Run, p *core.Prog) {
	const rule = "commit-protocol"
	f := r.MustFunc(rule, pkgGpfile, "GPDir.writeMetadataAtomic")
	if f == nil {
		return
	}
	info := f.Info()
	g := core.GraphOf(f)
	where := p.Rel(f.Decl.Pos())
	fDir := p.FieldObj(pkgGpfile, "GPDir", "dirPath")
	fMeta := p.FieldObj(pkgGpfile, "GPDir", "metaPath")
	var tmp types.Object
	calls := map[string]*ast.CallExpr{}
	helperRename := map[*ast.CallExpr]*core.Fn{} // os.Rename calls found inside helpers -> the helper
	cl := func(n ast.Node, cond *bool) []ev {
		var out []ev
		for _, c := range core.Calls(n, false) {
			name := core.CallName(info, c)
			rx, m := core.MethodCall(info, c)
			switch {
			case name == "os.CreateTemp" && len(c.Args) == 2:
				if a, ok := n.(*ast.AssignStmt); ok && len(a.Lhs) == 2 {
					tmp = core.ObjOf(info, a.Lhs[0])
				}
				l := "createtemp"
				if core.SelField(info, c.Args[0]) != fDir {
					l = "createtemp-elsewhere"
				}
				calls[l] = c
				out = append(out, ev{label: l, node: c})
			case name == pkgGpfile+".GPDir.Marshal" && len(c.Args) == 1:
				l := "marshal"
				if tmp == nil || core.ObjOf(info, c.Args[0]) != tmp {
					l = "marshal-elsewhere"
				}
				calls[l] = c
				out = append(out, ev{label: l, node: c})
			case m == "Close" && rx != nil && tmp != nil && core.ObjOf(info, rx) == tmp:
				calls["close"] = c
				out = append(out, ev{label: "close", node: c})
			case m == "Sync" && rx != nil && tmp != nil && core.ObjOf(info, rx) == tmp:
				out = append(out, ev{label: "sync", node: c})
			case name == "os.Chmod":
				calls["chmod"] = c
				out = append(out, ev{label: "chmod", node: c})
			case name == "os.Rename" && len(c.Args) == 2:
				switch {
				case core.SelField(info, resolveLocal(info, f.Decl.Body, c.Args[1])) == fMeta && tmp != nil && core.MentionsObj(info, resolveLocal(info, f.Decl.Body, c.Args[0]), tmp):
					calls["rename-meta"] = c
					out = append(out, ev{label: "rename-meta", node: c})
				case core.MentionsField(info, c.Args[1], fMeta) || core.MentionsField(info, c.Args[0], fMeta):
					out = append(out, ev{label: "rename-meta?", node: c})
				default:
					calls["rename-dir"] = c
					out = append(out, ev{label: "rename-dir", node: c})
				}
			case name == "os.WriteFile" || name == "os.Create" || name == "os.OpenFile":
				out = append(out, ev{label: "direct-write", node: c})
			case (name == "os.Remove" || name == "os.RemoveAll" || name == "os.Truncate") && len(c.Args) >= 1 && core.MentionsField(info, c.Args[0], fMeta):
				out = append(out, ev{label: "unlink-meta", node: c})
			default:
				// the trailing directory rename may live in a helper of the package: its os.Rename counts at the call
				if fo, ok := core.Callee(info, c).(*types.Func); ok && fo.Pkg() != nil && strings.HasSuffix(fo.Pkg().Path(), pkgGpfile) {
					if h := p.FnOf(fo); h != nil && h.Obj != f.Obj {
						hi := h.Info()
						for _, hc := range core.Calls(h.Decl.Body, false) {
							if core.CallName(hi, hc) != "os.Rename" || len(hc.Args) != 2 {
								continue
							}
							if core.MentionsField(hi, hc.Args[0], fMeta) || core.MentionsField(hi, hc.Args[1], fMeta) {
								out = append(out, ev{label: "rename-meta?", node: c})
								continue
							}
							calls["rename-dir"] = c
							helperRename[hc] = h
							out = append(out, ev{label: "rename-dir", node: c})
						}
					}
				}
			}
		}
		return out
	}
	ts, ok := traces(f, g, cl, 5000)
	if !ok {
		r.Undecided(rule, "writeMetadataAtomic:paths", where, "too many paths")
		return
	}
	bad, nOK := "", 0
	set := func(m string) { // keep the first (most specific) diagnosis
		if bad == "" {
			bad = m
		}
	}
	for _, t := range ts {
		if t.has("direct-write") || t.has("rename-meta?") || t.has("createtemp-elsewhere") || t.has("marshal-elsewhere") {
			set("metadata is written other than via a uniquely named temp file (os.CreateTemp in the day directory) renamed onto the metadata path — a fixed temp name left behind by a crash makes every later commit fail or is shared by two writers; a file outside the day directory cannot be renamed atomically: " + pathLines(p, g, t.path))
		}
		if t.has("unlink-meta") {
			set("the committed metadata file is removed / truncated in place: between that call and the rename a reader (or a crash) finds the day without metadata: " + pathLines(p, g, t.path))
		}
		if t.has("rename-meta") {
			i := t.first("rename-meta")
			if !(t.first("createtemp") >= 0 && t.first("createtemp") < t.first("marshal") && t.first("marshal") < t.first("close") && t.first("close") < i) {
				set("the rename onto the metadata path is not preceded by create-temp → marshal → close in that order: " + pathLines(p, g, t.path))
			}
			if t.count("rename-meta") != 1 {
				set("metadata renamed more than once: " + pathLines(p, g, t.path))
			}
		}
		if t.has("rename-dir") && (!t.has("rename-meta") || t.first("rename-dir") < t.first("rename-meta")) {
			set("the day directory is renamed before its metadata file was committed: " + pathLines(p, g, t.path))
		}
		if t.outcome == "ok" || t.outcome == "call" {
			nOK++
			if !t.has("rename-meta") {
				set("a non-failing return is reached without the metadata having been committed: " + pathLines(p, g, t.path))
			}
		}
	}
	r.Check(rule, "writeMetadataAtomic:temp-marshal-close-rename-order", where, bad == "" && nOK > 0, orStr(bad, fmt.Sprintf("%d paths, %d committing", len(ts), nOK)))
	for _, step := range []string{"createtemp", "marshal", "close", "chmod", "rename-meta", "rename-dir"} {
		c := calls[step]
		if c == nil {
			if step == "chmod" {
				continue
			}
			r.Undecided(rule, "writeMetadataAtomic:"+step+"-present", where, "step not found")
			continue
		}
		use, why := core.ErrDisposition(info, f.Decl.Body, c)
		okD := use == core.ErrChecked || use == core.ErrReturned
		if step == "rename-dir" {
			// when the rename lives in a helper, the helper must hand its error on as well
			for hc, h := range helperRename {
				hu, hw := core.ErrDisposition(h.Info(), h.Decl.Body, hc)
				if hu != core.ErrChecked && hu != core.ErrReturned {
					okD, why = false, "in "+h.Name+": "+hw
				}
			}
		}
		r.Check(rule, "writeMetadataAtomic:"+step+"-error-aborts", p.Rel(c.Pos()), okD, "a failing "+step+" must abort the commit ("+why+")")
	}
	// nobody else writes the metadata file
	bad = ""
	n := 0
	for _, fn := range p.AllFuncs() {
		if fn.Obj == f.Obj {
			continue
		}
		fi := fn.Info()
		core.Walk(fn.Decl.Body, true, func(x ast.Node) bool {
			c, ok := x.(*ast.CallExpr)
			if !ok {
				return true
			}
			name := core.CallName(fi, c)
			if name == "os.WriteFile" || name == "os.Create" || name == "os.OpenFile" || name == "os.Rename" || name == "os.Remove" || name == "os.Truncate" {
				n++
				for _, a := range c.Args {
					mp := false
					core.Walk(a, true, func(y ast.Node) bool {
						if id, ok := y.(*ast.Ident); ok {
							if o := fi.Uses[id]; o == fMeta || (o != nil && o.Name() == "MetadataPath" && o.Pkg() != nil && strings.HasSuffix(o.Pkg().Path(), pkgGpfile)) ||
								(o != nil && o.Name() == "metadataFileName" && o.Pkg() != nil && strings.HasSuffix(o.Pkg().Path(), pkgGpfile)) {
								mp = true
							}
						}
						return true
					})
					if mp && name != "os.OpenFile" {
						bad = fmt.Sprintf("%s in %s touches the metadata path outside writeMetadataAtomic", name, fn.Where())
					}
					if mp && name == "os.OpenFile" {
						if fl, okc := core.ConstInt(fi, c.Args[1]); !okc || fl != 0 {
							bad = fmt.Sprintf("%s in %s opens the metadata path writable outside writeMetadataAtomic", name, fn.Where())
						}
					}
				}
			}
			return true
		})
	}
	r.Check(rule, "metadata-path:single-writer", where, bad == "", orStr(bad, fmt.Sprintf("%d file-modifying os calls in the module inspected", n)))
}

// ruleDirClose: GPDir.Close closes every column first and does not commit metadata if any failed.
func ruleDirClose(r *core.Run, p *core.Prog) {
	const rule = "commit-protocol"
	f := r.MustFunc(rule, pkgGpfile, "GPDir.Close")
	if f == nil {
		return
	}
	info := f.Info()
	g := core.GraphOf(f)
	where := p.Rel(f.Decl.Pos())
	fMode := p.FieldObj(pkgGpfile, "GPDir", "accessMode")
	var errsVar types.Object
	core.Walk(f.Decl.Body, false, func(x ast.Node) bool {
		if a, ok := x.(*ast.AssignStmt); ok && len(a.Rhs) == 1 && len(a.Lhs) == 1 {
			if c, ok := a.Rhs[0].(*ast.CallExpr); ok && core.CallName(info, c) == "builtin.append" && len(c.Args) == 2 {
				if o := core.ObjOf(info, c.Args[1]); o != nil && core.IsErrorType(o.Type()) {
					errsVar = core.ObjOf(info, a.Lhs[0])
				}
			}
		}
		return true
	})
	cl := func(n ast.Node, cond *bool) []ev {
		var out []ev
		if cond != nil && errsVar != nil && core.MentionsObj(info, n, errsVar) {
			c := n.(ast.Expr)
			some := false
			if b, ok := core.BinOp(c, token.GTR, token.NEQ); ok {
				if k, okc := core.ConstInt(info, b.Y); okc && k == 0 {
					some = *cond
					out = append(out, ev{label: map[bool]string{true: "errs>0", false: "errs==0"}[some]})
				}
			}
			if b, ok := core.BinOp(c, token.EQL); ok {
				if k, okc := core.ConstInt(info, b.Y); okc && k == 0 {
					out = append(out, ev{label: map[bool]string{true: "errs==0", false: "errs>0"}[*cond]})
				}
			}
		}
		if cond != nil && core.MentionsField(info, n, fMode) {
			if _, y, eq, ok := eqTest(n.(ast.Expr), *cond); ok && core.ObjOf(info, selOrIdent(y)) != nil && core.ObjOf(info, selOrIdent(y)).Name() == "ModeWrite" {
				out = append(out, ev{label: map[bool]string{true: "mode==write", false: "mode!=write"}[eq]})
			}
		}
		for _, c := range core.Calls(n, false) {
			switch core.CallName(info, c) {
			case pkgGpfile + ".GPFile.Close":
				out = append(out, ev{label: "col-close", node: c})
			case pkgGpfile + ".GPDir.writeMetadataAtomic":
				out = append(out, ev{label: "commit", node: c})
			}
		}
		return out
	}
	ts, ok := traces(f, g, cl, 20000)
	if !ok {
		r.Undecided(rule, "GPDir.Close:paths", where, "too many paths")
		return
	}
	bad, nC := "", 0
	for _, t := range ts {
		if !t.has("commit") {
			continue
		}
		nC++
		if !t.has("errs==0") {
			bad = "metadata is committed without the column-close errors having been tested empty: " + pathLines(p, g, t.path)
		}
		if !t.has("mode==write") {
			bad = "metadata is committed outside write mode: " + pathLines(p, g, t.path)
		}
		if t.has("col-close") && t.last("col-close") > t.first("commit") {
			bad = "a column file is closed after the metadata commit: " + pathLines(p, g, t.path)
		}
	}
	for _, t := range ts {
		if t.has("errs>0") && (t.outcome == "ok") {
			bad = "column-close errors are swallowed (success return): " + pathLines(p, g, t.path)
		}
	}
	r.Check(rule, "GPDir.Close:no-commit-after-column-error", where, bad == "" && nC > 0 && errsVar != nil, orStr(bad, fmt.Sprintf("%d committing paths", nC)))
	// the column close error must feed errs
	var cc *ast.CallExpr
	core.Walk(f.Decl.Body, false, func(x ast.Node) bool {
		if c, ok := x.(*ast.CallExpr); ok && core.CallName(info, c) == pkgGpfile+".GPFile.Close" {
			cc = c
		}
		return true
	})
	if cc != nil {
		use, why := core.ErrDisposition(info, f.Decl.Body, cc)
		r.Check(rule, "GPDir.Close:column-close-error-collected", p.Rel(cc.Pos()), use == core.ErrChecked || use == core.ErrCheckedSoft || use == core.ErrReturned, why)
	} else {
		r.Undecided(rule, "GPDir.Close:column-close-error-collected", where, "no GPFile.Close call")
	}
}

// ruleDBWriter: Write / WriteBulk open the day, write, and commit (Close) only if every
// WriteBlocks succeeded; no Close on the failure branch.
func ruleDBWriter(r *core.Run, p *core.Prog) {
	const rule = "commit-protocol"
	for _, name := range []string{"DBWriter.Write", "DBWriter.WriteBulk"} {
		f := r.MustFunc(rule, pkgGoDB, name)
		if f == nil {
			continue
		}
		info := f.Info()
		g := core.GraphOf(f)
		where := p.Rel(f.Decl.Pos())
		var wbErr types.Object
		core.Walk(f.Decl.Body, false, func(x ast.Node) bool {
			if a, ok := x.(*ast.AssignStmt); ok && len(a.Rhs) == 1 && len(a.Lhs) == 1 {
				if _, ok := core.IsCall(info, a.Rhs[0], pkgGpfile+".GPDir.WriteBlocks"); ok {
					wbErr = core.ObjOf(info, a.Lhs[0])
				}
			}
			return true
		})
		cl := func(n ast.Node, cond *bool) []ev {
			var out []ev
			if cond != nil && wbErr != nil {
				if b, ok := core.BinOp(n.(ast.Expr), token.NEQ, token.EQL); ok && core.ObjOf(info, b.X) == wbErr && core.IsNil(info, b.Y) {
					failed := (b.Op == token.NEQ) == *cond
					out = append(out, ev{label: map[bool]string{true: "write-failed", false: "write-ok"}[failed]})
				}
			}
			for _, c := range core.Calls(n, false) {
				switch core.CallName(info, c) {
				case pkgGpfile + ".GPDir.Open":
					out = append(out, ev{label: "open", node: c})
				case pkgGpfile + ".GPDir.WriteBlocks":
					out = append(out, ev{label: "writeblocks", node: c})
				case pkgGpfile + ".GPDir.Close":
					out = append(out, ev{label: "close", node: c})
				}
			}
			return out
		}
		ts, ok := traces(f, g, cl, 5000)
		if !ok {
			r.Undecided(rule, name+":paths", where, "too many paths")
			continue
		}
		bad, n := "", 0
		// deferred Close would run on every path, including the failure ones
		for _, d := range g.Defer {
			for _, c := range core.Calls(d, true) {
				if core.CallName(info, c) == pkgGpfile+".GPDir.Close" {
					bad = "GPDir.Close is deferred: it also commits metadata after a failed WriteBlocks (columns of unequal length)"
				}
			}
		}
		for _, t := range ts {
			if t.has("write-failed") {
				n++
				i := t.first("write-failed")
				for j := i; j < len(t.evs); j++ {
					if t.evs[j].label == "close" {
						bad = "GPDir.Close (the metadata commit) is reached after WriteBlocks failed: columns already written have more blocks than the summaries, the committed metadata would be misaligned: " + pathLines(p, g, t.path)
					}
				}
				if t.outcome == "ok" {
					bad = "WriteBlocks failure is turned into a success return: " + pathLines(p, g, t.path)
				}
			}
			if (t.outcome == "ok" || t.outcome == "call") && !t.has("write-failed") {
				if t.count("close") != 1 || !t.has("open") {
					bad = fmt.Sprintf("a non-failing path has %d Close and %d Open calls (want exactly one commit): %s", t.count("close"), t.count("open"), pathLines(p, g, t.path))
				}
			}
		}
		r.Check(rule, name+":commit-only-after-all-writes-succeeded", where, bad == "" && n > 0 && wbErr != nil, orStr(bad, fmt.Sprintf("%d paths, %d failing-write paths", len(ts), n)))
		for _, c := range core.Calls(f.Decl.Body, false) {
			cn := core.CallName(info, c)
			if cn == pkgGpfile+".GPDir.Open" || cn == pkgGpfile+".GPDir.Close" || cn == pkgGpfile+".GPDir.WriteBlocks" {
				use, why := core.ErrDisposition(info, f.Decl.Body, c)
				r.Check(rule, name+":"+cn[strings.LastIndex(cn, ".")+1:]+"-error-propagates", p.Rel(c.Pos()), use == core.ErrChecked || use == core.ErrReturned, why)
			}
		}
	}
}

// storageErrExceptions: (function, callee) pairs whose dropped error is deliberate.
var storageErrExceptions = map[string]string{
	pkgGpfile + ".GPDir.closeForReopen|" + pkgGpfile + ".GPFile.closeFile": "read-mode recovery: the directory moved, closing the read-only column files may fail and the directory is reopened right after",
	pkgGpfile + ".GPDir.Open|os.Open":                                      "tested in both arms of the switch over accessMode; only the implicit default arm (accessMode neither ModeRead nor ModeWrite, never constructed) skips the test",
}

// ruleStorageErrcheck: no error of the storage layer is dropped in gpfile and the goDB writer/merge.
func ruleStorageErrcheck(r *core.Run, p *core.Prog, rels ...string) {
	const rule = "storage-errors"
	total := 0
	for _, rel := range rels {
		for _, fn := range p.Funcs(rel) {
			info := fn.Info()
			for _, c := range core.Calls(fn.Decl.Body, true) {
				tv, ok := info.Types[c]
				if !ok {
					continue
				}
				hasErr := core.IsErrorType(tv.Type) || isTupleErr(tv.Type)
				if !hasErr {
					continue
				}
				cn := core.CallName(info, c)
				if cn == "" {
					continue // call through a function value
				}
				if strings.HasPrefix(cn, "fmt.") || strings.HasPrefix(cn, "errors.") || strings.HasPrefix(cn, "strconv.") || strings.Contains(cn, "logging") || strings.HasPrefix(cn, "log/") {
					continue
				}
				body := fn.Decl.Body
				// evaluate inside the innermost closure
				path := core.PathTo(fn.Decl.Body, c)
				for _, n := range path {
					if fl, ok := n.(*ast.FuncLit); ok {
						body = fl.Body
					}
				}
				use, why := core.ErrDisposition(info, body, c)
				total++
				key := fn.Where() + "|" + cn
				switch use {
				case core.ErrChecked, core.ErrReturned, core.ErrCheckedSoft, core.ErrNone:
					r.Check(rule, key, p.Rel(c.Pos()), true, "")
				case core.ErrDeferred:
					r.Check(rule, key, p.Rel(c.Pos()), true, "deferred cleanup")
				default:
					if reason, ok := storageErrExceptions[key]; ok {
						r.Check(rule, key, p.Rel(c.Pos()), true, "frozen exception: "+reason)
						continue
					}
					r.Check(rule, key, p.Rel(c.Pos()), false, "error returned by "+cn+" is dropped in "+fn.Where()+": "+why)
				}
			}
		}
	}
	r.Stat("call_sites", total)
}

func isTupleErr(t types.Type) bool {
	tu, ok := t.(*types.Tuple)
	if !ok {
		return false
	}
	for i := 0; i < tu.Len(); i++ {
		if core.IsErrorType(tu.At(i).Type()) {
			return true
		}
	}
	return false
}

var fileModifying = map[string]bool{
	"os.OpenFile": true, "os.Create": true, "os.WriteFile": true, "os.Rename": true, "os.Remove": true, "os.RemoveAll": true,
	"os.Mkdir": true, "os.MkdirAll": true, "os.MkdirTemp": true, "os.CreateTemp": true, "os.Chmod": true, "os.Truncate": true,
	"os.Symlink": true, "os.Link": true, "os.Chown": true, "os.File.Truncate": true,
}

// writerPackages: packages allowed to modify files below a DB root. Everything else under pkg/
// (query engine, results, capture, API, info listing) must not.
var writerPackages = map[string]string{
	pkgGpfile: "the storage layer",
	pkgGoDB:   "DB writer and merge (further restricted to functions not reachable from the query path)",
}

// ruleWriteOwnership: who may modify files, and NewDirWriter callers.
func ruleWriteOwnership(r *core.Run, p *core.Prog) {
	const rule = "write-ownership"
	// query-path functions of package goDB: everything reachable (syntactically resolved calls within the package) from the read entry points
	readRoots := []string{"DBWorkManager.CreateWorkerJobs", "DBWorkManager.ReadMetadata", "DBWorkManager.ExecuteWorkerReadJobs", "DBWorkManager.readBlocksAndEvaluate", "DBWorkManager.walkDB", "DBWorkManager.grabAndProcessWorkload"}
	reach := map[*types.Func]bool{}
	var visit func(fn *core.Fn)
	byObj := map[*types.Func]*core.Fn{}
	for _, fn := range p.Funcs(pkgGoDB) {
		byObj[fn.Obj] = fn
	}
	visit = func(fn *core.Fn) {
		if fn == nil || reach[fn.Obj] {
			return
		}
		reach[fn.Obj] = true
		for _, c := range core.Calls(fn.Decl.Body, true) {
			if o, ok := core.Callee(fn.Info(), c).(*types.Func); ok {
				visit(byObj[o])
			}
		}
	}
	for _, n := range readRoots {
		fn := p.Func(pkgGoDB, n)
		if fn == nil {
			r.Missing(rule, pkgGoDB+"."+n)
			continue
		}
		visit(fn)
	}
	nSites := 0
	for _, fn := range p.AllFuncs() {
		rel := core.RelPkg(fn.Pkg.PkgPath)
		info := fn.Info()
		for _, c := range core.Calls(fn.Decl.Body, true) {
			cn := core.CallName(info, c)
			if cn == pkgGpfile+".NewDirWriter" {
				nSites++
				okCaller := (rel == pkgGoDB && !reach[fn.Obj]) || strings.HasPrefix(rel, "examples/") // examples/: stand-alone demo tools, not part of any deployed binary
				r.Check(rule, "NewDirWriter-caller:"+fn.Where(), p.Rel(c.Pos()), okCaller, "write-mode day directories may only be created by the goDB writer/merge code, never on the query path or outside package goDB")
			}
			if !fileModifying[cn] {
				continue
			}
			if cn == "os.OpenFile" && len(c.Args) == 3 {
				if fl, okc := core.ConstInt(info, c.Args[1]); okc && fl == 0 {
					continue // O_RDONLY
				}
			}
			nSites++
			key := "file-modifying-call:" + fn.Where() + ":" + cn
			switch {
			case rel == pkgGpfile:
				r.Check(rule, key, p.Rel(c.Pos()), true, "")
			case rel == pkgGoDB:
				r.Check(rule, key, p.Rel(c.Pos()), !reach[fn.Obj], fn.Where()+" is on the query path (reachable from CreateWorkerJobs/ReadMetadata/ExecuteWorkerReadJobs) and must not modify files")
			case strings.HasPrefix(rel, "pkg/goDB/engine") && rel != "pkg/goDB/engine/benchgen", strings.HasPrefix(rel, "pkg/results"), strings.HasPrefix(rel, "pkg/query") && rel != "pkg/query/heap",
				strings.HasPrefix(rel, "pkg/capture"), strings.HasPrefix(rel, "pkg/goprobe"), strings.HasPrefix(rel, "pkg/types"), strings.HasPrefix(rel, "pkg/goDB/conditions"),
				strings.HasPrefix(rel, "pkg/goDB/encoder"), strings.HasPrefix(rel, "pkg/goDB/storage"), rel == "cmd/gpdb/pkg/csvimport", strings.HasPrefix(rel, "pkg/api") && rel != "pkg/api/server",
				strings.HasPrefix(rel, "cmd/global-query"), strings.HasPrefix(rel, "plugins"):
				r.Check(rule, key, p.Rel(c.Pos()), false, fmt.Sprintf("%s modifies files from package %s, which must reach the database only through gpfile / DBWriter", cn, rel))
			default:
				r.Check(rule, key, p.Rel(c.Pos()), true, "outside the database packages")
			}
		}
	}
	r.Stat("call_sites", nSites)
}

// ruleReadRetryOnce: the reopen-on-missing-file recovery in GPDir.ReadBlockAtIndex retries once, without a loop.
func ruleReadRetryOnce(r *core.Run, p *core.Prog) {
	const rule = "reader-recovery"
	f := r.MustFunc(rule, pkgGpfile, "GPDir.ReadBlockAtIndex")
	if f == nil {
		return
	}
	info := f.Info()
	g := core.GraphOf(f)
	where := p.Rel(f.Decl.Pos())
	cl := func(n ast.Node, cond *bool) []ev {
		var out []ev
		for _, c := range core.Calls(n, false) {
			switch core.CallName(info, c) {
			case pkgGpfile + ".GPDir.readBlockAtIndex":
				out = append(out, ev{label: "read", node: c})
			case pkgGpfile + ".GPDir.Open":
				out = append(out, ev{label: "reopen", node: c})
			case pkgGpfile + ".GPDir.Close":
				out = append(out, ev{label: "close", node: c})
			case pkgGpfile + ".GPDir.ReadBlockAtIndex":
				out = append(out, ev{label: "recurse", node: c})
			case "errors.Is":
				if len(c.Args) == 2 && core.Str(c.Args[1]) == "fs.ErrNotExist" && cond != nil {
					if atom, truth := normCond(n.(ast.Expr), *cond); atom == ast.Expr(c) {
						out = append(out, ev{label: map[bool]string{true: "notexist", false: "other-error"}[truth]})
					}
				}
			}
		}
		return out
	}
	// a retry loop: a read that can be reached again from itself
	hasLoop := false
	for id, n := range g.Nodes {
		if n == nil {
			continue
		}
		for _, c := range core.Calls(n, false) {
			if core.CallName(info, c) == pkgGpfile+".GPDir.readBlockAtIndex" && g.ReachStrict(id, id, nil) {
				hasLoop = true
			}
		}
	}
	ts, ok := traces(f, g, cl, 5000)
	if !ok {
		r.Undecided(rule, "ReadBlockAtIndex:paths", where, "too many paths")
		return
	}
	bad, nRetry := "", 0
	for _, t := range ts {
		if t.has("recurse") {
			bad = "recovery recurses into ReadBlockAtIndex: unbounded retries while the directory keeps moving"
		}
		if t.count("read") > 2 {
			bad = "more than one retry on a path: " + pathLines(p, g, t.path)
		}
		if t.count("read") == 2 {
			nRetry++
			if !t.has("notexist") || !t.has("reopen") || t.first("reopen") > t.last("read") || t.first("reopen") < t.first("read") {
				bad = "the retry must follow a not-exist error and a successful reopen: " + pathLines(p, g, t.path)
			}
		}
		if t.has("other-error") && t.count("read") > 1 {
			bad = "errors other than not-exist are retried: " + pathLines(p, g, t.path)
		}
	}
	r.Check(rule, "GPDir.ReadBlockAtIndex:retry-once-after-reopen", where, bad == "" && nRetry > 0 && !hasLoop, orStr(bad, fmt.Sprintf("%d retry paths; loop=%v", nRetry, hasLoop)))
}

// ruleCommittedOffsetRoles: the committed offset of a column is bookkeeping of the writer. Every
// use of BlockHeader.CurrentOffset must be one of: seek target, Offset of a new block, its own
// advance in writeBlock, (de)serialisation, a diagnostic argument. In particular it must never be
// compared with anything: bytes beyond it (left by an interrupted write-out) are legal and are
// overwritten by the next writer, so a reader or writer that validates a file against it turns a
// survivable crash into lost data.
func ruleCommittedOffsetRoles(r *core.Run, p *core.Prog) {
	const rule = "committed-offset-roles"
	fld := p.FieldObj(pkgStorage, "BlockHeader", "CurrentOffset")
	if fld == nil {
		r.Missing(rule, "storage.BlockHeader.CurrentOffset")
		return
	}
	n := 0
	for _, fn := range p.AllFuncs() {
		rel := core.RelPkg(fn.Pkg.PkgPath)
		if strings.HasPrefix(rel, "examples/") {
			continue
		}
		info := fn.Info()
		parents := core.Parents(fn.Decl.Body)
		ast.Inspect(fn.Decl.Body, func(x ast.Node) bool {
			id, ok := x.(*ast.Ident)
			if !ok || info.Uses[id] != fld {
				return true
			}
			n++
			// climb: ident -> selector -> conversions/parens
			var cur ast.Node = id
			if s, ok := parents[cur].(*ast.SelectorExpr); ok && s.Sel == id {
				cur = s
			}
			if kv, ok := parents[cur].(*ast.KeyValueExpr); ok && kv.Key == cur {
				// composite literal key: initialisation
				v, isC := core.ConstInt(info, kv.Value)
				r.Check(rule, fmt.Sprintf("%s:init", fn.Where()), p.Rel(id.Pos()), isC && v == 0 && rel == pkgGpfile, "the committed offset may only be initialised to 0, by the storage layer")
				return true
			}
			for {
				pn := parents[cur]
				if pe, ok := pn.(*ast.ParenExpr); ok {
					cur = pe
					continue
				}
				if c, ok := pn.(*ast.CallExpr); ok && len(c.Args) == 1 && c.Args[0] == cur {
					if tv, ok := info.Types[c.Fun]; ok && tv.IsType() {
						cur = c
						continue
					}
				}
				break
			}
			role, okRole := "", false
			switch pn := parents[cur].(type) {
			case *ast.AssignStmt:
				isLHS := false
				for _, l := range pn.Lhs {
					if l == cur {
						isLHS = true
					}
				}
				if isLHS {
					role = "store(" + pn.Tok.String() + ")"
					switch {
					case fn.Where() == pkgGpfile+".GPFile.writeBlock" && pn.Tok == token.ADD_ASSIGN:
						okRole = true
					case fn.Where() == pkgGpfile+".GPDir.Unmarshal" && pn.Tok == token.ASSIGN:
						okRole = true
					}
				} else {
					role = "copied into " + core.Str(pn.Lhs[0])
				}
			case *ast.CallExpr:
				cn := core.CallName(info, pn)
				_, m := core.MethodCall(info, pn)
				switch {
				case m == "Seek":
					role, okRole = "seek target", true
				case cn == "fmt.Errorf" || strings.HasPrefix(cn, "fmt.") || strings.Contains(cn, "logging") || strings.Contains(cn, "slog"):
					role, okRole = "diagnostic", true
				case strings.HasPrefix(cn, "encoding/binary.") && strings.Contains(cn, "PutUint64"):
					role, okRole = "serialise", rel == pkgGpfile
				default:
					role = "argument of " + cn
				}
			case *ast.KeyValueExpr:
				if k, ok := pn.Key.(*ast.Ident); ok && k.Name == "Offset" && pn.Value == cur {
					role, okRole = "offset of a new block", fn.Where() == pkgGpfile+".GPFile.writeBlock"
				} else {
					role = "value of field " + core.Str(pn.Key)
				}
			case *ast.BinaryExpr:
				role = "operand of " + pn.Op.String()
			default:
				role = fmt.Sprintf("%T", pn)
			}
			r.Check(rule, fmt.Sprintf("%s:%s", fn.Where(), role), p.Rel(id.Pos()), okRole,
				fmt.Sprintf("BlockHeader.CurrentOffset used as %s in %s; permitted roles: seek target, Offset of the new block and += in writeBlock, (de)serialisation in gpfile, diagnostics. Validating file contents against it breaks recovery: bytes beyond the committed offset are legal after an interrupted write-out", role, fn.Where()))
			return true
		})
	}
	if n < 8 {
		r.Undecided(rule, "uses", "-", fmt.Sprintf("only %d uses of CurrentOffset found", n))
	}
}

// ruleDirOpenFresh: a writer may start a day from empty metadata only when the metadata file does not exist. Any other
// failure to open it (EIO, EACCES, EMFILE …) must abort the open: starting fresh would rewrite the column files from offset
// 0 and replace the metadata of all committed blocks of the day.
func ruleDirOpenFresh(r *core.Run, p *core.Prog) {
	const rule = "open-resume"
	f := r.MustFunc(rule, pkgGpfile, "GPDir.Open")
	if f == nil {
		return
	}
	info := f.Info()
	g := core.GraphOf(f)
	cases := enumTests(f.Decl.Body)
	_ = cases
	cl := func(n ast.Node, cond *bool) []ev {
		var out []ev
		if cond != nil {
			atom, truth := normCond(n.(ast.Expr), *cond)
			if c, ok := atom.(*ast.CallExpr); ok && core.CallName(info, c) == "errors.Is" && len(c.Args) == 2 && core.Str(c.Args[1]) == "fs.ErrNotExist" {
				out = append(out, ev{label: map[bool]string{true: "missing", false: "other-error"}[truth]})
			}
			return out
		}
		for _, c := range core.Calls(n, false) {
			switch core.CallName(info, c) {
			case pkgGpfile + ".newMetadata":
				out = append(out, ev{label: "fresh", node: c})
			case pkgGpfile + ".GPDir.Unmarshal":
				out = append(out, ev{label: "decode", node: c})
			}
		}
		return out
	}
	ts, ok := traces(f, g, cl, 5000)
	if !ok {
		r.Undecided(rule, "GPDir.Open:paths", p.Rel(f.Decl.Pos()), "too many paths")
		return
	}
	bad, nFresh := "", 0
	for _, t := range ts {
		if !t.has("fresh") {
			continue
		}
		nFresh++
		if !t.has("missing") || t.first("missing") > t.first("fresh") {
			bad = "the day is started from empty metadata without errors.Is(err, fs.ErrNotExist) having been found true: another failure to open the metadata file (I/O error, permissions, descriptor limit) would make the writer overwrite all committed blocks of the day: " + pathLines(p, g, t.path)
		}
		if t.has("decode") {
			bad = "fresh metadata and decoding of an existing file on one path: " + pathLines(p, g, t.path)
		}
	}
	r.Check(rule, "GPDir.Open:fresh-metadata-only-if-file-missing", p.Rel(f.Decl.Pos()), bad == "" && nFresh > 0, bad)
}

// ruleOpenRecovery: GPDir.Open in read mode. A concurrent write-out renames the day directory (new metadata suffix in its
// name) as its last step, so a reader that has the old name can find the metadata file gone at any moment between
// learning the name and opening the file. The reader's protocol is therefore reactive: when the open itself reports
// not-exist, relocate the directory (recoverDirPath) and open again. On every read-mode path that fails after the
// metadata open, either the error is known not to be not-exist, or the relocation was attempted after that open. A
// relocation decided by an earlier probe (stat, then open) leaves the window between probe and open unprotected.
func ruleOpenRecovery(r *core.Run, p *core.Prog) {
	const rule = "reader-recovery"
	f := r.MustFunc(rule, pkgGpfile, "GPDir.Open")
	if f == nil {
		return
	}
	info := f.Info()
	g := core.GraphOf(f)
	where := p.Rel(f.Decl.Pos())
	fMode := p.FieldObj(pkgGpfile, "GPDir", "accessMode")
	fMeta := p.FieldObj(pkgGpfile, "GPDir", "metaPath")
	cases := enumTests(f.Decl.Body)
	cl := func(n ast.Node, cond *bool) []ev {
		var out []ev
		for _, c := range core.Calls(n, false) {
			switch core.CallName(info, c) {
			case "os.Open", "os.OpenFile":
				if len(c.Args) > 0 {
					a := resolveLocal(info, f.Decl.Body, ast.Unparen(c.Args[0]))
					isMeta := fMeta != nil && mentionsFieldR(info, f.Decl.Body, a, fMeta)
					for _, cc := range core.Calls(a, false) {
						if core.CallName(info, cc) == pkgGpfile+".GPDir.MetadataPath" {
							isMeta = true
						}
					}
					if isMeta {
						out = append(out, ev{label: "open", node: c})
					}
				}
			case pkgGpfile + ".GPDir.recoverDirPath":
				out = append(out, ev{label: "recover", node: c})
			case pkgGpfile + ".GPDir.Unmarshal":
				out = append(out, ev{label: "decode", node: c})
			}
		}
		if cond != nil {
			e := n.(ast.Expr)
			atoms, truths := atomsOf(e, *cond)
			for i, a := range atoms {
				if c, ok := ast.Unparen(a).(*ast.CallExpr); ok && core.CallName(info, c) == "errors.Is" && len(c.Args) == 2 {
					if o := core.ObjOf(info, selOrIdent(c.Args[1])); o != nil && o.Name() == "ErrNotExist" {
						out = append(out, ev{label: map[bool]string{true: "notexist", false: "other-error"}[truths[i]]})
					}
				}
			}
			if subj, konst, equal, ok := enumCond(cases, n, *cond); ok && fMode != nil && core.SelField(info, subj) == fMode {
				if o := core.ObjOf(info, selOrIdent(konst)); o != nil {
					pre := ""
					if !equal {
						pre = "not-"
					}
					out = append(out, ev{label: pre + "mode-" + o.Name()})
				}
			}
		}
		return out
	}
	ts, ok := traces(f, g, cl, 20000)
	if !ok {
		r.Undecided(rule, "GPDir.Open:paths", where, "too many paths")
		return
	}
	bad, nReactive, nRead := "", 0, 0
	for _, t := range ts {
		if t.has("mode-ModeWrite") || t.has("not-mode-ModeRead") || !t.has("open") {
			continue // write mode (or a contradictory combination of mode tests)
		}
		if t.has("mode-ModeRead") && t.has("not-mode-ModeRead") {
			continue
		}
		nRead++
		if t.count("open") >= 2 && t.has("notexist") && t.has("recover") && t.first("open") < t.first("recover") && t.first("recover") < t.last("open") {
			nReactive++
		}
		if t.outcome != "fail" && t.outcome != "call" && t.outcome != "?" {
			continue
		}
		if t.has("decode") {
			continue // the file was opened; the failure is a decoding failure
		}
		firstOpen := t.first("open")
		known := false
		for i := firstOpen + 1; i < len(t.evs); i++ {
			if t.evs[i].label == "other-error" || t.evs[i].label == "recover" {
				known = true
			}
		}
		if !known {
			bad = "a read-mode path reports the failed metadata open as an error without having tried to relocate the directory after it (a write-out that renames the day between locating and opening it makes a committed day unreadable): " + pathLines(p, g, t.path)
		}
	}
	r.Check(rule, "GPDir.Open:missing-metadata-is-retried-after-relocation", where, bad == "" && nReactive > 0 && nRead > 0, orStr(bad, fmt.Sprintf("%d read-mode paths, %d relocate-and-reopen paths", nRead, nReactive)))
}

// ruleLentBuffers: ownership of the block buffers. GPFile.ReadBlockAtIndex hands out a slice of a buffer the GPFile owns
// (taken from a process-wide pool); the caller keeps the blocks of all columns of a time slot while it reads the next
// column. Functions that serve blocks (return what ReadBlockAtIndex returned, directly or through wrappers) therefore must
// not, on any path, give such a buffer back to the pool: the next column file opened would be handed the same memory and
// overwrite a block the caller still holds. Giving buffers back is for the final Close only.
// Decided on the static call graph of the storage package: lent fields = receiver fields returned by
// GPFile.ReadBlockAtIndex; release sites = pool.Put(<lent field>); serving functions = fixpoint of "returns the result of
// a serving function"; obligation per serving function: no call in it reaches a release site.
func ruleLentBuffers(r *core.Run, p *core.Prog) {
	const rule = "buffer-ownership"
	rd := r.MustFunc(rule, pkgGpfile, "GPFile.ReadBlockAtIndex")
	if rd == nil {
		return
	}
	// (1) lent fields
	lent := map[types.Object]bool{}
	rinfo := rd.Info()
	core.Walk(rd.Decl.Body, false, func(x ast.Node) bool {
		if rs, ok := x.(*ast.ReturnStmt); ok && len(rs.Results) == 2 {
			if fv := core.SelField(rinfo, resolveLocal(rinfo, rd.Decl.Body, ast.Unparen(rs.Results[0]))); fv != nil {
				lent[fv] = true
			}
		}
		return true
	})
	if len(lent) == 0 {
		r.Undecided(rule, "GPFile.ReadBlockAtIndex:lent-field", p.Rel(rd.Decl.Pos()), "the returned block is not a field of the GPFile")
		return
	}
	fns := p.Funcs(pkgGpfile)
	// (2) release sites
	releases := map[*types.Func]string{}
	for _, fn := range fns {
		info := fn.Info()
		for _, c := range core.Calls(fn.Decl.Body, true) {
			if _, m := core.MethodCall(info, c); m == "Put" && len(c.Args) == 1 {
				if fv := core.SelField(info, resolveLocal(info, fn.Decl.Body, ast.Unparen(c.Args[0]))); fv != nil && lent[fv] {
					releases[fn.Obj] = p.Rel(c.Pos())
				}
			}
		}
	}
	if len(releases) == 0 {
		r.Undecided(rule, "release-sites", p.Rel(rd.Decl.Pos()), "no pool.Put of a lent buffer found (the buffers come from a pool: where do they go back?)")
		return
	}
	// (3) serving functions
	serving := map[*types.Func]bool{rd.Obj: true}
	for changed := true; changed; {
		changed = false
		for _, fn := range fns {
			if serving[fn.Obj] {
				continue
			}
			info := fn.Info()
			core.Walk(fn.Decl.Body, false, func(x ast.Node) bool {
				rs, ok := x.(*ast.ReturnStmt)
				if !ok {
					return true
				}
				for _, res := range rs.Results {
					e := ast.Unparen(res)
					if id, isId := e.(*ast.Ident); isId {
						if c, _ := defCall(info, fn.Decl.Body, core.ObjOf(info, id)); c != nil {
							e = c
						}
					}
					if c, isCall := e.(*ast.CallExpr); isCall {
						if fo, _ := core.Callee(info, c).(*types.Func); fo != nil && serving[fo] {
							serving[fn.Obj], changed = true, true
						}
					}
				}
				return true
			})
		}
	}
	// (4) no serving function reaches a release site
	var reach func(fo *types.Func, depth int, seen map[*types.Func]bool) string
	reach = func(fo *types.Func, depth int, seen map[*types.Func]bool) string {
		if w, ok := releases[fo]; ok {
			return fo.Name() + " (" + w + ")"
		}
		if depth > 6 || seen[fo] {
			return ""
		}
		seen[fo] = true
		fn := p.FnOf(fo)
		if fn == nil {
			return ""
		}
		for _, c := range core.Calls(fn.Decl.Body, true) {
			if co, _ := core.Callee(fn.Info(), c).(*types.Func); co != nil {
				if via := reach(co, depth+1, seen); via != "" {
					return fo.Name() + " → " + via
				}
			}
		}
		return ""
	}
	n := 0
	for _, fn := range fns {
		if !serving[fn.Obj] {
			continue
		}
		n++
		bad := ""
		for _, c := range core.Calls(fn.Decl.Body, true) {
			if co, _ := core.Callee(fn.Info(), c).(*types.Func); co != nil && !serving[co] {
				if via := reach(co, 0, map[*types.Func]bool{}); via != "" {
					bad = fmt.Sprintf("%s: while serving a block, %s returns the buffers of the column files to the pool; blocks handed out earlier alias them and are overwritten by the next column that is opened", p.Rel(c.Pos()), via)
				}
			}
		}
		r.Check(rule, fn.Name+":serving-does-not-recycle-lent-buffers", p.Rel(fn.Decl.Pos()), bad == "", bad)
	}
	r.Stat("serving_functions", n)
}

// ruleMetadataSentinel: `GPDir.Metadata == nil` is how the interface listing (DBWorkManager.ReadMetadata) recognises a day
// whose metadata has not been loaded — neither from the suffix of the directory name nor from the metadata file — and
// opens it. A day directory without a suffix exists whenever a writer was interrupted between publishing the metadata
// file and renaming the directory. The sentinel only works if nothing but the loaders ever makes the field non-nil:
// stores to GPDir.Metadata (assignments and composite-literal keys) are allowed in the frozen set below; a constructor
// that pre-populates the field makes every unloaded day look loaded and the listing counts nothing for it.
func ruleMetadataSentinel(r *core.Run, p *core.Prog) {
	const rule = "loaded-sentinel"
	fld := p.FieldObj(pkgGpfile, "GPDir", "Metadata")
	if fld == nil {
		r.Missing(rule, "gpfile.GPDir.Metadata")
		return
	}
	loaders := map[string]string{
		pkgGpfile + ".GPDir.Unmarshal":             "decodes the metadata file",
		pkgGpfile + ".GPDir.setMetadataFromSuffix": "decodes the suffix of the directory name",
		pkgGpfile + ".GPDir.Open":                  "write mode: a day that does not exist yet starts with empty metadata and is marked open",
	}
	nStores, nTests := 0, 0
	for _, fn := range p.AllFuncs() {
		if strings.HasPrefix(core.RelPkg(fn.Pkg.PkgPath), "examples/") {
			continue
		}
		info := fn.Info()
		core.Walk(fn.Decl.Body, true, func(x ast.Node) bool {
			switch s := x.(type) {
			case *ast.AssignStmt:
				for _, l := range s.Lhs {
					if core.SelField(info, l) == fld {
						nStores++
						_, ok := loaders[fn.Where()]
						r.Check(rule, "store:"+fn.Where(), p.Rel(s.Pos()), ok, fn.Where()+" sets GPDir.Metadata although it does not load it: `Metadata == nil` no longer means \"not loaded\", so the interface listing does not open such a day and reports none of its flows, packets and bytes")
					}
				}
			case *ast.KeyValueExpr:
				if id, ok := s.Key.(*ast.Ident); ok && info.Uses[id] == types.Object(fld) && !core.IsNil(info, s.Value) {
					nStores++
					_, ok := loaders[fn.Where()]
					r.Check(rule, "store:"+fn.Where(), p.Rel(s.Pos()), ok, fn.Where()+" constructs a GPDir with Metadata already set although nothing was loaded: `Metadata == nil` no longer means \"not loaded\", so the interface listing does not open such a day and reports none of its flows, packets and bytes")
				}
			case *ast.BinaryExpr:
				if x, y, _, ok := eqTest(s, true); ok && core.IsNil(info, y) && core.SelField(info, x) == fld {
					nTests++
				}
			}
			return true
		})
	}
	if nStores < 3 || nTests < 1 {
		r.Undecided(rule, "sites", "-", fmt.Sprintf("%d stores to GPDir.Metadata, %d nil tests found (3 loaders and the test in ReadMetadata on the reference tree)", nStores, nTests))
	}
}

// ruleAllocFromStoredLength: GPFile.ReadBlockAtIndex sizes its buffers from lengths stored in the metadata file
// (Block.Len, Block.RawLen: 32-bit, not validated against anything when the file is decoded) and then reslices the
// buffer to exactly that length. The capacity asked for must therefore not be able to come out smaller than the length:
// an arithmetic expression on the stored length that is evaluated in a 32-bit (or narrower) integer type — 2*block.RawLen
// — wraps for large values, the buffer is too small and the reslice panics: a damaged metadata file crashes the reader
// instead of being reported. Decided: every size argument of make() in ReadBlockAtIndex that mentions a Block field and
// contains *, + or << is evaluated in a 64-bit type (its operands are converted first).
func ruleAllocFromStoredLength(r *core.Run, p *core.Prog) {
	const rule = "decode-guards"
	f := r.MustFunc(rule, pkgGpfile, "GPFile.ReadBlockAtIndex")
	if f == nil {
		return
	}
	info := f.Info()
	fields := map[types.Object]bool{}
	for _, nm := range []string{"Len", "RawLen", "Offset"} {
		if fo := p.FieldObj(pkgStorage, "Block", nm); fo != nil {
			fields[fo] = true
		}
	}
	sizes := types.SizesFor("gc", "amd64")
	n := 0
	for _, c := range core.Calls(f.Decl.Body, true) {
		if core.CallName(info, c) != "builtin.make" || len(c.Args) < 2 {
			continue
		}
		for ai, a := range c.Args[1:] {
			a = resolveLocal(info, f.Decl.Body, ast.Unparen(a))
			mentions := false
			core.Walk(a, false, func(x ast.Node) bool {
				if se, ok := x.(*ast.SelectorExpr); ok && fields[core.SelField(info, se)] {
					mentions = true
				}
				return true
			})
			if !mentions {
				continue
			}
			n++
			bad := ""
			core.Walk(a, false, func(x ast.Node) bool {
				b, ok := x.(*ast.BinaryExpr)
				if !ok || (b.Op != token.MUL && b.Op != token.ADD && b.Op != token.SHL) {
					return true
				}
				t, _ := info.TypeOf(b).Underlying().(*types.Basic)
				if t != nil && t.Info()&types.IsInteger != 0 && sizes.Sizeof(t) < 8 {
					bad = fmt.Sprintf("%s is evaluated as %s: it wraps for stored lengths of 2^%d and more, the buffer is then smaller than the length it is resliced to and the read panics", core.Str(b), t.Name(), 8*sizes.Sizeof(t)-1)
				}
				return true
			})
			r.Check(rule, fmt.Sprintf("ReadBlockAtIndex:make#%d:size-arithmetic-does-not-wrap", n), p.Rel(c.Args[1+ai].Pos()), bad == "", bad)
		}
	}
	if n == 0 {
		r.Undecided(rule, "ReadBlockAtIndex:buffer-allocations", p.Rel(f.Decl.Pos()), "no make() sized from a stored block length found")
	}
}
