package props

import (
	"fmt"
	"go/ast"
	"go/token"
	"go/types"
	"sort"
	"strings"

	"gpverif/core"
)

func init() { register("C23", c23) }

const pkgCapture = "pkg/capture"

type recField struct {
	off, width int64
	where      string
}

// recLayout: role (parameter / result index, or "flag") -> field
type recLayout struct {
	fields map[string]recField
	stride int64
	flag   int64 // constant stored in / compared with the flag byte
	isV4   string
	where  string
	undec  []string
}

func (l recLayout) String() string {
	ks := []string{}
	for k := range l.fields {
		ks = append(ks, k)
	}
	sort.Strings(ks)
	s := []string{}
	for _, k := range ks {
		s = append(s, fmt.Sprintf("%s@%d/%d", k, l.fields[k].off, l.fields[k].width))
	}
	return fmt.Sprintf("{%s stride=%d flag=%d}", strings.Join(s, " "), l.stride, l.flag)
}

func c23(r *core.Run) {
	r.Expl = "C23 (local packet buffer): decides the packed record layout of LocalBuffer.Add and LocalBuffer.Next on every control-flow path: all fields written lie inside the cursor stride and are pairwise disjoint; writer and reader agree per role (parameter i of Add <-> result i of Next) on offset and width, on the stride and on the IP-version flag; a refused Add performs no store; refusal only under the size-limit test; the space test covers the full record; the cursors only advance by a positive constant record size (write cursor in Add, read cursor in Next) and are reset only together in Reset (a cursor rewound alone redelivers or loses records). NOT decided: FIFO behaviour over sequences of operations as executed."
	r.Floor = 14
	r.Rules = append(r.Rules, "packed-layout: per-path extraction of base+const accesses (index, slice, unsafe cast, copy) and cursor stride; writer/reader table comparison", "cursor-discipline")
	p := r.Prog("cgo")
	ruleLocalBufferLayout(r, p)
	ruleLocalBufferCursors(r, p)
}

// ruleLocalBufferCursors: the two cursors only advance (by a positive constant record size, write cursor in Add, read
// cursor in Next, on a path that produced / consumed a record) and are only ever reset together. A read cursor that is
// rewound alone redelivers consumed records; a write cursor rewound alone loses undelivered ones.
func ruleLocalBufferCursors(r *core.Run, p *core.Prog) {
	const rule = "cursor-discipline"
	fW := p.FieldObj(pkgCapture, "LocalBuffer", "writeBufPos")
	fR := p.FieldObj(pkgCapture, "LocalBuffer", "readBufPos")
	if fW == nil || fR == nil {
		r.Missing(rule, "LocalBuffer.writeBufPos/readBufPos")
		return
	}
	n := 0
	for _, f := range p.Funcs(pkgCapture) {
		info := f.Info()
		resets := map[types.Object]token.Pos{}
		core.Walk(f.Decl.Body, true, func(x ast.Node) bool {
			var lhs []ast.Expr
			var rhs []ast.Expr
			tok := token.ILLEGAL
			switch st := x.(type) {
			case *ast.AssignStmt:
				lhs, rhs, tok = st.Lhs, st.Rhs, st.Tok
			case *ast.IncDecStmt:
				lhs, tok = []ast.Expr{st.X}, st.Tok
			default:
				return true
			}
			for i, l := range lhs {
				fv := core.SelField(info, l)
				if fv != fW && fv != fR {
					continue
				}
				n++
				key := fmt.Sprintf("%s:%s:%s", f.Name, fv.Name(), tok)
				switch {
				case tok == token.ADD_ASSIGN && i < len(rhs):
					v, isConst := core.ConstInt(info, rhs[i])
					owner := map[types.Object]string{fW: "LocalBuffer.Add", fR: "LocalBuffer.Next"}[fv]
					r.Check(rule, key, p.Rel(x.Pos()), isConst && v > 0 && f.Name == owner,
						fmt.Sprintf("%s may only be advanced by a positive constant record size, and only in %s (here: %s in %s)", fv.Name(), owner, core.Str0(x.(ast.Stmt)), f.Name))
				case tok == token.ASSIGN && i < len(rhs):
					if v, isConst := core.ConstInt(info, rhs[i]); isConst && v == 0 {
						resets[fv] = x.Pos()
					} else {
						r.Check(rule, key, p.Rel(x.Pos()), false, fmt.Sprintf("%s is assigned %s: a cursor may only advance by a record size or be reset to 0", fv.Name(), core.Str(rhs[i])))
					}
				default:
					r.Check(rule, key, p.Rel(x.Pos()), false, fmt.Sprintf("unexpected update of cursor %s: %s", fv.Name(), core.Str0(x.(ast.Stmt))))
				}
			}
			return true
		})
		if len(resets) > 0 {
			_, okW := resets[fW]
			_, okR := resets[fR]
			var pos token.Pos
			for _, ps := range resets {
				pos = ps
			}
			why := "the read cursor is rewound without the write cursor: records already delivered are delivered again"
			if okW && !okR {
				why = "the write cursor is rewound without the read cursor: the read cursor points past the data, new records are never delivered"
			}
			r.Check(rule, f.Name+":cursors-reset-together", p.Rel(pos), okW && okR && (f.Name == "LocalBuffer.Reset" || f.Name == "LocalBuffer.reset"), orStr(map[bool]string{true: "cursors may be reset only in LocalBuffer.Reset", false: why}[okW && okR], ""))
		}
	}
	if n < 4 {
		r.Undecided(rule, "LocalBuffer:cursor-updates", "-", fmt.Sprintf("only %d cursor updates found", n))
	}
}

// ruleLocalBufferLayout: packed record layout of LocalBuffer.Add / Next (shared by C21 and C23).
func ruleLocalBufferLayout(r *core.Run, p *core.Prog) {
	const rule = "packed-layout"
	add := r.MustFunc(rule, pkgCapture, "LocalBuffer.Add")
	next := r.MustFunc(rule, pkgCapture, "LocalBuffer.Next")
	fData := p.FieldObj(pkgCapture, "LocalBuffer", "data")
	fW := p.FieldObj(pkgCapture, "LocalBuffer", "writeBufPos")
	fR := p.FieldObj(pkgCapture, "LocalBuffer", "readBufPos")
	fMax := p.FieldObj(pkgCapture, "LocalBufferPool", "MaxBufferSize")
	if add == nil || next == nil {
		return
	}
	if fData == nil || fW == nil || fR == nil || fMax == nil {
		r.Missing(rule, "LocalBuffer.{data,writeBufPos,readBufPos} / LocalBufferPool.MaxBufferSize")
		return
	}
	info := add.Info()
	isBuf := func(e ast.Expr) bool { return core.SelField(info, e) == fData }

	// ---- writer ----
	wsig := add.Obj.Type().(*types.Signature)
	paramIdx := map[types.Object]int{}
	for i := 0; i < wsig.Params().Len(); i++ {
		paramIdx[wsig.Params().At(i)] = i
	}
	roleOfValue := func(e ast.Expr) string {
		role := ""
		core.Walk(e, false, func(x ast.Node) bool {
			if id, ok := x.(*ast.Ident); ok {
				if i, ok := paramIdx[info.Uses[id]]; ok {
					role = fmt.Sprintf("#%d", i)
				}
			}
			return true
		})
		return role
	}
	g := core.GraphOf(add)
	wpaths, ok := g.Paths(core.Entry, core.Exit, 5000)
	if !ok {
		r.Undecided(rule, "Add:paths", p.Rel(add.Decl.Pos()), "too many paths")
		return
	}
	writer := map[string]recLayout{} // "v4"/"v6"
	var boolParam types.Object
	for i := 0; i < wsig.Params().Len(); i++ {
		if b, ok := wsig.Params().At(i).Type().(*types.Basic); ok && b.Kind() == types.Bool {
			boolParam = wsig.Params().At(i)
		}
	}
	refusalOK, refusalN := true, 0
	refusalDetail := ""
	limitOK, limitDetail := true, ""
	growGuardOK, growGuardDetail, growN := true, "", 0
	var spaceK int64 = -1
	spaceOp := token.ILLEGAL
	spaceWhere := ""
	for _, path := range wpaths {
		lay := recLayout{fields: map[string]recField{}, flag: -1}
		ver := ""
		retTrue, retFalse := false, false
		limitTaken := false
		var stores []string
		grew := false
		for i, n := range path {
			node := g.Nodes[n]
			if node == nil {
				continue
			}
			if taken, isCond := g.Taken(path, i); isCond {
				cond := node.(ast.Expr)
				if boolParam != nil && core.ObjOf(info, cond) == boolParam {
					if taken {
						ver = "v4"
					} else {
						ver = "v6"
					}
				}
				if u, ok := ast.Unparen(cond).(*ast.UnaryExpr); ok && u.Op == token.NOT && boolParam != nil && core.ObjOf(info, u.X) == boolParam {
					if taken {
						ver = "v6"
					} else {
						ver = "v4"
					}
				}
				if mentionsFieldR(info, add.Decl.Body, cond, fMax) {
					// the size-limit test `len(data) >= Max` (operands possibly hoisted into locals, either polarity)
					atom, truth := normCond(cond, taken)
					if b, ok := atom.(*ast.BinaryExpr); ok {
						atLimit := false
						lhsIsMax := mentionsFieldR(info, add.Decl.Body, b.X, fMax)
						switch b.Op {
						case token.GEQ, token.GTR: // len >= Max  |  Max >= len (mirrored below)
							atLimit = truth != lhsIsMax
						case token.LSS, token.LEQ:
							atLimit = truth == lhsIsMax
						}
						if atLimit {
							limitTaken = true
						}
					} else if truth {
						limitTaken = true
					}
				}
				// the space test: <expr with writeBufPos + ... + K> (>=|>) len(data)
				if b, ok := core.BinOp(cond, token.GEQ, token.GTR); ok && mentionsFieldR(info, add.Decl.Body, b.X, fW) && mentionsFieldR(info, add.Decl.Body, b.Y, fData) {
					_, k, okk := splitConstPart(info, b.X)
					if okk {
						spaceK, spaceOp, spaceWhere = k, b.Op, p.Rel(cond.Pos())
					}
				}
			}
			if rs, ok := node.(*ast.ReturnStmt); ok && len(rs.Results) == 1 {
				if v, ok := info.Types[rs.Results[0]]; ok && v.Value != nil {
					if v.Value.String() == "true" {
						retTrue = true
					} else {
						retFalse = true
					}
				}
			}
			for _, c := range core.Calls(node, false) {
				if cn := core.CallName(info, c); cn == pkgCapture+".LocalBuffer.grow" || strings.HasSuffix(cn, ".Resize") {
					grew = true
				}
			}
			if a, ok := node.(*ast.AssignStmt); ok {
				for _, l := range a.Lhs {
					if core.SelField(info, l) == fData {
						grew = true // the data slice is replaced
					}
					if core.SelField(info, l) == fW {
						stores = append(stores, "writeBufPos")
						if a.Tok == token.ADD_ASSIGN {
							if k, okk := core.ConstInt(info, a.Rhs[0]); okk {
								lay.stride = k
							} else {
								lay.undec = append(lay.undec, "cursor advanced by non-constant "+core.Str(a.Rhs[0]))
							}
						} else {
							lay.undec = append(lay.undec, "cursor assigned, not advanced, at "+p.Rel(a.Pos()))
						}
					}
				}
			}
			for _, ac := range core.Layout(info, node, isBuf) {
				if !ac.Write {
					continue
				}
				stores = append(stores, "data")
				if ac.Undec != "" {
					lay.undec = append(lay.undec, ac.Undec)
					continue
				}
				if !strings.HasSuffix(ac.Base, "writeBufPos") {
					lay.undec = append(lay.undec, fmt.Sprintf("store at %s is relative to %q, not to the write cursor", p.Rel(ac.Node.Pos()), ac.Base))
					continue
				}
				role := ""
				if ac.Src != nil {
					role = roleOfValue(ac.Src)
				} else if ac.Value != nil {
					role = roleOfValue(ac.Value)
					if role == "" {
						if k, okk := core.ConstInt(info, ac.Value); okk {
							role = "flag"
							lay.flag = k
						}
					}
				}
				if role == "" {
					lay.undec = append(lay.undec, fmt.Sprintf("store at %s: cannot tell which parameter it stores", p.Rel(ac.Node.Pos())))
					continue
				}
				if _, dup := lay.fields[role]; dup {
					lay.undec = append(lay.undec, "role "+role+" stored twice")
				}
				lay.fields[role] = recField{ac.Off, ac.Width, p.Rel(ac.Node.Pos())}
			}
		}
		if retFalse {
			refusalN++
			if len(stores) > 0 || grew {
				refusalOK = false
				refusalDetail = fmt.Sprintf("a path returning false stores to %v (grow=%v): %s", stores, grew, pathLines(p, g, path))
			}
			if !limitTaken {
				limitOK = false
				limitDetail = "a path returning false does not pass the size-limit test (len(data) >= MaxBufferSize) as true: " + pathLines(p, g, path)
			}
		}
		if grew {
			growN++
			// growth must happen on the false edge of the limit test: limitTaken must be false and the limit cond must be on the path
			onPath := false
			for i, n := range path {
				if _, isCond := g.Taken(path, i); isCond && mentionsFieldR(info, add.Decl.Body, g.Nodes[n], fMax) {
					onPath = true
				}
			}
			if !onPath || limitTaken {
				growGuardOK = false
				growGuardDetail = "grow is reachable without the size-limit test being false: " + pathLines(p, g, path)
			}
		}
		if retTrue {
			if ver == "" {
				r.Undecided(rule, "Add:version-branch", p.Rel(add.Decl.Pos()), "a successful path does not branch on the isIPv4 parameter: "+pathLines(p, g, path))
				continue
			}
			lay.where = pathLines(p, g, path)
			if prev, ok := writer[ver]; ok && prev.String() != lay.String() {
				r.Check(rule, "Add:"+ver+":layout-unique", p.Rel(add.Decl.Pos()), false, fmt.Sprintf("two paths for %s store different layouts: %s vs %s", ver, prev, lay))
			}
			writer[ver] = lay
		}
	}
	r.Stat("paths_enumerated", len(wpaths))
	r.Check(rule, "Add:refusal-stores-nothing", p.Rel(add.Decl.Pos()), refusalOK && refusalN > 0, orStr(refusalDetail, fmt.Sprintf("%d refusal paths, none stores to the buffer, the cursor or grows", refusalN)))
	r.Check(rule, "Add:refusal-only-at-size-limit", p.Rel(add.Decl.Pos()), limitOK && refusalN > 0, orStr(limitDetail, "every refusal path passes the size-limit test"))
	r.Check(rule, "Add:grow-only-below-limit", p.Rel(add.Decl.Pos()), growGuardOK && growN > 0, orStr(growGuardDetail, fmt.Sprintf("%d growing paths, all on the false edge of the limit test", growN)))

	for _, ver := range []string{"v4", "v6"} {
		lay, ok := writer[ver]
		if !ok {
			r.Undecided(rule, "Add:"+ver+":layout", p.Rel(add.Decl.Pos()), "no successful path found for this IP version")
			continue
		}
		for _, u := range lay.undec {
			r.Undecided(rule, "Add:"+ver+":shape", p.Rel(add.Decl.Pos()), u)
		}
		// containment + disjointness
		roles := []string{}
		for k := range lay.fields {
			roles = append(roles, k)
		}
		sort.Strings(roles)
		var extent int64
		for _, k := range roles {
			f := lay.fields[k]
			if f.off+f.width > extent {
				extent = f.off + f.width
			}
			r.Check(rule, fmt.Sprintf("Add:%s:field%s-inside-stride", ver, k), f.where, f.off >= 0 && f.off+f.width <= lay.stride,
				fmt.Sprintf("field %s occupies [%d,%d) of a record whose cursor stride is %d: the next record overwrites its tail", k, f.off, f.off+f.width, lay.stride))
		}
		disjoint, dd := true, ""
		for i, a := range roles {
			for _, b := range roles[i+1:] {
				fa, fb := lay.fields[a], lay.fields[b]
				if fa.off < fb.off+fb.width && fb.off < fa.off+fa.width {
					disjoint = false
					dd = fmt.Sprintf("fields %s [%d,%d) and %s [%d,%d) overlap", a, fa.off, fa.off+fa.width, b, fb.off, fb.off+fb.width)
				}
			}
		}
		r.Check(rule, "Add:"+ver+":fields-disjoint", p.Rel(add.Decl.Pos()), disjoint, orStr(dd, lay.String()))
		// a field must be as wide as the parameter it stores (narrower: silent truncation)
		sizes := types.SizesFor("gc", "amd64")
		for i := 0; i < wsig.Params().Len(); i++ {
			fld, ok := lay.fields[fmt.Sprintf("#%d", i)]
			if !ok {
				continue
			}
			pt := wsig.Params().At(i).Type()
			if _, isSlice := pt.Underlying().(*types.Slice); isSlice {
				continue
			}
			if b, ok := pt.Underlying().(*types.Basic); ok && b.Kind() == types.Bool {
				continue
			}
			want := sizes.Sizeof(pt)
			r.Check(rule, fmt.Sprintf("Add:%s:field#%d-width-matches-parameter", ver, i), fld.where, fld.width == want,
				fmt.Sprintf("parameter %s (%s, %d bytes) is stored in %d bytes: larger values are truncated silently and read back altered", wsig.Params().At(i).Name(), pt.String(), want, fld.width))
		}
		r.Check(rule, "Add:"+ver+":all-parameters-stored", p.Rel(add.Decl.Pos()), len(lay.fields) == wsig.Params().Len(),
			fmt.Sprintf("%d of %d parameters (incl. the version flag) are stored: %s", len(lay.fields), wsig.Params().Len(), lay))
		// the space test must cover the record: hash length is a run-time value (len(epHash)); the constant part must cover extent - hashWidth
		if h, ok := lay.fields["#0"]; ok && spaceK >= 0 {
			need := extent - h.width
			okSpace := (spaceOp == token.GEQ && spaceK >= need-1) || (spaceOp == token.GTR && spaceK >= need)
			r.Check(rule, "Add:"+ver+":space-test-covers-record", spaceWhere, okSpace,
				fmt.Sprintf("record needs len(hash)+%d bytes; the test 'cursor+len(hash)+%d %s len(data)' must trigger growth whenever fewer remain", need, spaceK, spaceOp))
		} else {
			r.Undecided(rule, "Add:"+ver+":space-test-covers-record", p.Rel(add.Decl.Pos()), "space test 'cursor + ... >= len(data)' or hash field not recognised")
		}
	}
	if a, b := writer["v4"], writer["v6"]; a.fields != nil && b.fields != nil {
		r.Check(rule, "Add:flag-distinguishes-versions", p.Rel(add.Decl.Pos()), a.flag >= 0 && b.flag >= 0 && a.flag != b.flag, fmt.Sprintf("flag byte v4=%d v6=%d", a.flag, b.flag))
	}

	// ---- reader ----
	ninfo := next.Info()
	isBufN := func(e ast.Expr) bool { return core.SelField(ninfo, e) == fData }
	gn := core.GraphOf(next)
	rpaths, ok := gn.Paths(core.Entry, core.Exit, 5000)
	if !ok {
		r.Undecided(rule, "Next:paths", p.Rel(next.Decl.Pos()), "too many paths")
		return
	}
	// locals that alias the read cursor: pos := l.readBufPos
	cursorAlias := map[string]bool{}
	core.Walk(next.Decl.Body, false, func(x ast.Node) bool {
		if a, ok := x.(*ast.AssignStmt); ok && len(a.Lhs) == 1 && len(a.Rhs) == 1 && core.SelField(ninfo, a.Rhs[0]) == fR {
			cursorAlias[core.Str(a.Lhs[0])] = true
		}
		return true
	})
	reader := map[string]recLayout{}
	emptyOK := false
	nextCases := enumTests(next.Decl.Body)
	for _, path := range rpaths {
		lay := recLayout{fields: map[string]recField{}, flag: -1}
		var flagCmp int64 = -1
		flagTaken := false
		var ret *ast.ReturnStmt
		retAt := 0
		for i, n := range path {
			node := gn.Nodes[n]
			if node == nil {
				continue
			}
			if taken, isCond := gn.Taken(path, i); isCond {
				// `data[cursor] == K` / `!= K` / `switch data[cursor] { case K: }`, operands possibly hoisted into locals
				if subj, konst, equal, ok := enumCond(nextCases, node, taken); ok {
					subj = resolveLocal(ninfo, next.Decl.Body, subj)
					for _, ac := range core.Layout(ninfo, subj, isBufN) {
						if k, okk := core.ConstInt(ninfo, konst); okk && ac.Undec == "" && ac.Off == 0 {
							flagCmp = k
							flagTaken = equal
							lay.fields["flag"] = recField{ac.Off, ac.Width, p.Rel(ac.Node.Pos())}
						}
					}
				}
			}
			if a, ok := node.(*ast.AssignStmt); ok {
				for _, l := range a.Lhs {
					if core.SelField(ninfo, l) == fR && a.Tok == token.ADD_ASSIGN {
						if k, okk := core.ConstInt(ninfo, a.Rhs[0]); okk {
							lay.stride = k
						} else {
							lay.undec = append(lay.undec, "read cursor advanced by non-constant "+core.Str(a.Rhs[0]))
						}
					}
				}
			}
			if rs, ok := node.(*ast.ReturnStmt); ok {
				ret, retAt = rs, i
			}
		}
		if ret == nil || len(ret.Results) != 7 {
			continue
		}
		okRes, _ := ninfo.Types[ret.Results[6]]
		if okRes.Value != nil && okRes.Value.String() == "false" {
			// the "empty" return must not move the cursor
			emptyOK = lay.stride == 0
			continue
		}
		for i, res := range ret.Results {
			// a result handed through a local (or the named result of an expanded helper) is read at its definition
			res = resolveLocal(ninfo, next.Decl.Body, resolveOnPath(ninfo, gn, path, retAt, res))
			for _, ac := range core.Layout(ninfo, res, isBufN) {
				if ac.Undec != "" {
					lay.undec = append(lay.undec, ac.Undec)
					continue
				}
				if !cursorAlias[ac.Base] && !strings.HasSuffix(ac.Base, "readBufPos") {
					lay.undec = append(lay.undec, fmt.Sprintf("load at %s is relative to %q, not to the read cursor", p.Rel(ac.Node.Pos()), ac.Base))
					continue
				}
				lay.fields[fmt.Sprintf("#%d", i)] = recField{ac.Off, ac.Width, p.Rel(ac.Node.Pos())}
			}
		}
		ver := ""
		if tv, ok := ninfo.Types[ret.Results[3]]; ok && tv.Value != nil {
			if tv.Value.String() == "true" {
				ver = "v4"
			} else {
				ver = "v6"
			}
		}
		if ver == "" {
			r.Undecided(rule, "Next:version-result", p.Rel(ret.Pos()), "the isIPv4 result is not a constant on this path")
			continue
		}
		if flagCmp < 0 {
			r.Undecided(rule, "Next:flag-test", p.Rel(ret.Pos()), "no comparison of the record's flag byte with a constant on this path")
			continue
		}
		if flagTaken {
			lay.flag = flagCmp
		} else {
			lay.flag = -2 // "anything but flagCmp"
			lay.isV4 = fmt.Sprint(flagCmp)
		}
		lay.where = p.Rel(ret.Pos())
		reader[ver] = lay
	}
	r.Check(rule, "Next:empty-return-keeps-cursor", p.Rel(next.Decl.Pos()), emptyOK, "the ok=false return must not advance the read cursor")
	for _, ver := range []string{"v4", "v6"} {
		w, okw := writer[ver]
		rd, okr := reader[ver]
		if !okr {
			r.Undecided(rule, "Next:"+ver+":layout", p.Rel(next.Decl.Pos()), "no path of Next returns this IP version")
			continue
		}
		for _, u := range rd.undec {
			r.Undecided(rule, "Next:"+ver+":shape", rd.where, u)
		}
		if !okw {
			continue
		}
		r.Check(rule, "AddNext:"+ver+":stride-agrees", rd.where, w.stride == rd.stride, fmt.Sprintf("Add advances by %d, Next by %d", w.stride, rd.stride))
		// flag agreement
		flagOK := rd.flag == w.flag
		if rd.flag == -2 {
			flagOK = fmt.Sprint(w.flag) != rd.isV4
		}
		r.Check(rule, "AddNext:"+ver+":flag-agrees", rd.where, flagOK, fmt.Sprintf("Add stores flag %d for %s; Next decides %s by flag %d (or !=%s)", w.flag, ver, ver, rd.flag, rd.isV4))
		roles := []string{}
		for k := range w.fields {
			if k != "flag" && k != "#3" {
				roles = append(roles, k)
			}
		}
		sort.Strings(roles)
		for _, k := range roles {
			wf := w.fields[k]
			rf, has := rd.fields[k]
			r.Check(rule, fmt.Sprintf("AddNext:%s:field%s-agrees", ver, k), wf.where, has && wf.off == rf.off && wf.width == rf.width,
				fmt.Sprintf("parameter %s of Add is stored at [%d,%d); result %s of Next is loaded from [%d,%d) (present=%v)", k, wf.off, wf.off+wf.width, k, rf.off, rf.off+rf.width, has))
		}
	}
}

func orStr(a, b string) string {
	if a != "" {
		return a
	}
	return b
}

// splitConstPart sums the constant terms of a + tree (non-constant terms ignored).
func splitConstPart(info *types.Info, e ast.Expr) (nonconst int, k int64, ok bool) {
	var flat func(e ast.Expr)
	flat = func(e ast.Expr) {
		e = ast.Unparen(e)
		if b, isBin := e.(*ast.BinaryExpr); isBin && b.Op == token.ADD {
			flat(b.X)
			flat(b.Y)
			return
		}
		if c, isC := core.ConstInt(info, e); isC {
			k += c
			return
		}
		nonconst++
	}
	flat(e)
	return nonconst, k, true
}
