package props

import (
	"fmt"
	"go/ast"
	"go/token"
	"go/types"
	"strings"

	"gpverif/core"
)

func init() { register("C27", c27) }

const pkgConfig = "cmd/goProbe/config"

// ruleEqualsCoverage: method Equals of struct T compares every field of T of receiver and parameter.
func ruleEqualsCoverage(r *core.Run, p *core.Prog, rel, typ string) {
	const rule = "field-coverage"
	f := r.MustFunc(rule, rel, typ+".Equals")
	T := p.Type(rel, typ)
	if f == nil || T == nil {
		return
	}
	info := f.Info()
	sig := f.Obj.Type().(*types.Signature)
	recv, other := sig.Recv(), sig.Params().At(0)
	both := map[string][2]bool{}
	core.Walk(f.Decl.Body, false, func(x ast.Node) bool {
		if s, ok := x.(*ast.SelectorExpr); ok {
			if fv := core.SelField(info, s); fv != nil {
				v := both[fv.Name()]
				if core.ObjOf(info, s.X) == recv {
					v[0] = true
				}
				if core.ObjOf(info, s.X) == other {
					v[1] = true
				}
				both[fv.Name()] = v
			}
		}
		return true
	})
	for _, fld := range structFields(T) {
		v := both[fld.Name()]
		r.Check(rule, fmt.Sprintf("%s.%s.Equals:field:%s", rel[strings.LastIndex(rel, "/")+1:], typ, fld.Name()), p.Rel(f.Decl.Pos()), v[0] && v[1],
			fmt.Sprintf("%s.Equals does not compare field %s: a configuration update that only changes %s is not seen as a change, the running capture keeps the old setting", typ, fld.Name(), fld.Name()))
	}
}

// mapOrderHazards: a return (or an assignment to an outer variable followed by break) of a value
// derived from the loop variables inside a range over a map (P12b).
func mapOrderHazards(p *core.Prog, f *core.Fn) []string {
	info := f.Info()
	var out []string
	core.Walk(f.Decl.Body, true, func(x ast.Node) bool {
		rs, ok := x.(*ast.RangeStmt)
		if !ok {
			return true
		}
		t := info.TypeOf(rs.X)
		if t == nil {
			return true
		}
		if _, isMap := t.Underlying().(*types.Map); !isMap {
			return true
		}
		vars := map[types.Object]bool{}
		for _, e := range []ast.Expr{rs.Key, rs.Value} {
			if e != nil {
				if o := core.ObjOf(info, e); o != nil {
					vars[o] = true
				}
			}
		}
		core.Walk(rs.Body, false, func(y ast.Node) bool {
			if ret, ok := y.(*ast.ReturnStmt); ok {
				for _, res := range ret.Results {
					if tr := info.TypeOf(res); tr != nil && core.IsErrorType(tr) {
						continue // which of several failing entries is named in the error is not a result
					}
					if mentionsAny(info, res, vars) {
						out = append(out, fmt.Sprintf("%s: returns the first match found while ranging over a map: which of several matching entries wins depends on the map iteration order", p.Rel(ret.Pos())))
					}
				}
			}
			return true
		})
		return true
	})
	return out
}

// sortedMapKeyHazards (P12c): a slice filled by appending the loop variables of a range over a map carries the map's
// iteration order. Sorting removes that order only if the comparator separates any two distinct elements. A comparator
// whose deciding comparison looks at the elements through a projection that is not injective — len / cap, arithmetic,
// indexing into something else, slicing — leaves ties, and within a tie the map order survives: "first match wins" over
// such a slice depends on the iteration order again. Typed sorts (sort.Strings, slices.Sort, …) order by the whole value.
func sortedMapKeyHazards(p *core.Prog, f *core.Fn) []string {
	info := f.Info()
	var out []string
	// slices collected from a map
	collected := map[types.Object]bool{}
	core.Walk(f.Decl.Body, true, func(x ast.Node) bool {
		rs, ok := x.(*ast.RangeStmt)
		if !ok {
			return true
		}
		t := info.TypeOf(rs.X)
		if t == nil {
			return true
		}
		if _, isMap := t.Underlying().(*types.Map); !isMap {
			return true
		}
		vars := map[types.Object]bool{}
		for _, e := range []ast.Expr{rs.Key, rs.Value} {
			if e != nil {
				if o := core.ObjOf(info, e); o != nil {
					vars[o] = true
				}
			}
		}
		core.Walk(rs.Body, false, func(y ast.Node) bool {
			a, ok := y.(*ast.AssignStmt)
			if !ok || len(a.Lhs) != 1 || len(a.Rhs) != 1 {
				return true
			}
			c, ok := ast.Unparen(a.Rhs[0]).(*ast.CallExpr)
			if !ok || core.CallName(info, c) != "builtin.append" || len(c.Args) < 2 {
				return true
			}
			if o := core.ObjOf(info, a.Lhs[0]); o != nil && core.ObjOf(info, c.Args[0]) == o {
				for _, arg := range c.Args[1:] {
					if mentionsAny(info, arg, vars) {
						collected[o] = true
					}
				}
			}
			return true
		})
		return true
	})
	if len(collected) == 0 {
		return nil
	}
	core.Walk(f.Decl.Body, true, func(x ast.Node) bool {
		c, ok := x.(*ast.CallExpr)
		if !ok || len(c.Args) != 2 {
			return true
		}
		switch core.CallName(info, c) {
		case "sort.Slice", "sort.SliceStable", "slices.SortFunc", "slices.SortStableFunc":
		default:
			return true
		}
		so := core.ObjOf(info, c.Args[0])
		if so == nil || !collected[so] {
			return true
		}
		body, binfo := funcBodyOf(p, info, f.Decl.Body, c.Args[1])
		if body == nil {
			return true
		}
		// the deciding comparison: the last return of the comparator
		var last *ast.ReturnStmt
		core.Walk(body, false, func(y ast.Node) bool {
			if rs, ok := y.(*ast.ReturnStmt); ok && len(rs.Results) == 1 {
				last = rs
			}
			return true
		})
		if last == nil {
			return true
		}
		why := ""
		core.Walk(resolveLocal(binfo, body, last.Results[0]), false, func(y ast.Node) bool {
			switch e := y.(type) {
			case *ast.CallExpr:
				if cn := core.CallName(binfo, e); cn == "builtin.len" || cn == "builtin.cap" {
					why = cn[len("builtin."):] + "(…)"
				}
			case *ast.SliceExpr:
				why = "a sub-slice"
			case *ast.BinaryExpr:
				switch e.Op {
				case token.REM, token.QUO, token.AND, token.SHR, token.SHL, token.AND_NOT:
					why = "arithmetic (" + e.Op.String() + ")"
				}
			case *ast.IndexExpr:
				if core.ObjOf(binfo, e.X) != so {
					why = "a lookup (" + core.Str(e) + ")"
				}
			}
			return true
		})
		if why != "" {
			out = append(out, fmt.Sprintf("%s: %s holds the entries of a map in iteration order and is sorted by %s only: distinct entries that tie keep the map's iteration order, so what is found first in it differs from run to run", p.Rel(c.Pos()), so.Name(), why))
		}
		return true
	})
	return out
}

func c27(r *core.Run) {
	r.Expl = "C27 (capture reconfiguration converges without data loss): decides (1) in Manager.update the final write-out of the interfaces to be disabled / restarted precedes, on every path, the code that closes their captures, and the applied configuration is recorded under the manager lock before captures change; interfaces whose parameters changed are both disabled and re-enabled; (2) the configuration an interface gets is chosen deterministically: IfaceMatcher.FindMatch returns no match found while ranging over a map; (3) CaptureConfig.Equals and RingBufferConfig.Equals compare every field, so every parameter change restarts the capture. NOT decided: convergence over sequences of updates with failures, the data actually written, link up/down handling."
	r.Floor = 9
	r.Rules = append(r.Rules, "writeout-before-close (P1)", "map-order-hazard (P12b)", "field-coverage (P3, compare form)", "diff-sets")
	p := r.Prog("cgo")
	ruleEqualsCoverage(r, p, pkgConfig, "CaptureConfig")
	ruleEqualsCoverage(r, p, pkgConfig, "RingBufferConfig")
	if f := r.MustFunc("map-order-hazard", pkgConfig, "IfaceMatcher.FindMatch"); f != nil {
		hz := mapOrderHazards(p, f)
		r.Check("map-order-hazard", "IfaceMatcher.FindMatch", p.Rel(f.Decl.Pos()), len(hz) == 0, strings.Join(hz, "; "))
		hs := sortedMapKeyHazards(p, f)
		r.Check("map-order-hazard", "IfaceMatcher.FindMatch:sorted-by-whole-key", p.Rel(f.Decl.Pos()), len(hs) == 0, strings.Join(hs, "; "))
		// explicit names take precedence over expressions
		info := f.Info()
		fI := p.FieldObj(pkgConfig, "IfaceMatcher", "ifaces")
		first := false
		for _, st := range f.Decl.Body.List {
			if ifs, ok := st.(*ast.IfStmt); ok && ifs.Init != nil && core.MentionsField(info, ifs.Init, fI) {
				first = true
			}
			if _, ok := st.(*ast.RangeStmt); ok && !first {
				first = false
				break
			}
			if first {
				break
			}
		}
		r.Check("map-order-hazard", "IfaceMatcher.FindMatch:explicit-name-first", p.Rel(f.Decl.Pos()), first, "a directly configured interface name must win over regular-expression matchers")
	}
	if r.Thorough() {
		for _, rel := range []string{pkgConfig, pkgCapture, "pkg/goDB", "pkg/goDB/engine", "pkg/goDB/info", "cmd/global-query/pkg/distributed", "pkg/results", "pkg/query"} {
			for _, fn := range p.Funcs(rel) {
				hz := mapOrderHazards(p, fn)
				hz = append(hz, sortedMapKeyHazards(p, fn)...)
				if len(hz) > 0 {
					known := map[string]string{
						"pkg/goDB.firstDay": "test helper style function returning an arbitrary element by design",
					}
					if _, ok := known[fn.Where()]; ok {
						continue
					}
					r.Check("map-order-hazard", "sweep:"+fn.Where(), p.Rel(fn.Decl.Pos()), false, strings.Join(hz, "; "))
				}
			}
		}
	}
	c27Update(r, p)
}

func c27Update(r *core.Run, p *core.Prog) {
	const rule = "writeout-before-close"
	f := r.MustFunc(rule, pkgCapture, "Manager.update")
	if f == nil {
		return
	}
	info := f.Info()
	g := core.GraphOf(f)
	where := p.Rel(f.Decl.Pos())
	sig := f.Obj.Type().(*types.Signature)
	if sig.Params().Len() != 4 {
		r.Undecided(rule, "Manager.update:signature", where, "expected update(ctx, ifaces, enable, disable)")
		return
	}
	pIfaces, pDisable := sig.Params().At(1), sig.Params().At(3)
	fLast := p.FieldObj(pkgCapture, "Manager", "lastAppliedConfig")
	wNode, cNode, lockNode, lastNode := -1, -1, -1, -1
	var condNode = -1
	for id, n := range g.Nodes {
		if n == nil {
			continue
		}
		if _, isDefer := n.(*ast.DeferStmt); isDefer {
			continue
		}
		for _, c := range core.Calls(n, false) {
			cn := core.CallName(info, c)
			if cn == pkgCapture+".Manager.performWriteout" && core.MentionsObj(info, c, pDisable) {
				wNode = id
			}
			if _, m := core.MethodCall(info, c); m == "Lock" && strings.HasSuffix(cn, ".Lock") && lockNode < 0 {
				lockNode = id
			}
		}
		// closures that close a capture
		core.Walk(n, true, func(x ast.Node) bool {
			if c, ok := x.(*ast.CallExpr); ok && core.CallName(info, c) == pkgCapture+".Capture.close" {
				cNode = id
			}
			return true
		})
		if a, ok := n.(*ast.AssignStmt); ok && len(a.Lhs) == 1 && core.SelField(info, a.Lhs[0]) == fLast {
			if core.ObjOf(info, a.Rhs[0]) == pIfaces {
				lastNode = id
			}
		}
		if e, ok := n.(ast.Expr); ok && len(g.Succ[id]) == 2 {
			if b, ok := core.BinOp(e, token.GTR, token.NEQ); ok && core.MentionsObj(info, b.X, pDisable) {
				if k, okc := core.ConstInt(info, b.Y); okc && k == 0 {
					condNode = id
				}
			}
		}
	}
	if wNode < 0 || cNode < 0 {
		r.Check(rule, "Manager.update:final-writeout-before-close", where, false, fmt.Sprintf("final write-out call found=%v, capture close found=%v", wNode >= 0, cNode >= 0))
	} else {
		// every path to the closing code passes the write-out, unless the disable list is empty
		avoid := map[int]bool{wNode: true}
		okW := !g.Reach(core.Entry, cNode, avoid)
		if !okW && condNode >= 0 {
			thenN, _, _ := g.CondEdges(condNode)
			okW = g.Dominated(cNode, map[int]bool{condNode: true}) && !g.Reach(thenN, cNode, avoid) && !g.Reach(cNode, wNode, nil)
		}
		r.Check(rule, "Manager.update:final-writeout-before-close", p.Rel(g.Nodes[cNode].Pos()), okW,
			"a capture that is removed or restarted is closed on a path that did not first write out its flows: the traffic since the last rotation is lost")
	}
	okLock := lockNode >= 0 && lastNode >= 0 && cNode >= 0 && g.Dominated(lastNode, map[int]bool{lockNode: true}) && g.Dominated(cNode, map[int]bool{lastNode: true})
	hasDeferUnlock := false
	for _, d := range g.Defer {
		if _, m := core.MethodCall(info, d.Call); m == "Unlock" {
			hasDeferUnlock = true
		}
	}
	r.Check(rule, "Manager.update:applied-config-recorded-under-lock", where, okLock && hasDeferUnlock, "cm.lastAppliedConfig = ifaces must happen after cm.Lock() (released by a deferred Unlock) and before any capture is closed or started: the next diff is computed against it")
	// updateSelected: updated interfaces are in both the disable and the enable list
	if u := r.MustFunc("diff-sets", pkgCapture, "Manager.updateSelected"); u != nil {
		ui := u.Info()
		var upd types.Object
		// the list appended to when Equals is false
		core.Walk(u.Decl.Body, false, func(x ast.Node) bool {
			ifs, ok := x.(*ast.IfStmt)
			if !ok {
				return true
			}
			un, ok := ast.Unparen(ifs.Cond).(*ast.UnaryExpr)
			if !ok || un.Op != token.NOT {
				return true
			}
			if c, ok := ast.Unparen(un.X).(*ast.CallExpr); ok && core.CallName(ui, c) == pkgConfig+".CaptureConfig.Equals" {
				core.Walk(ifs.Body, false, func(y ast.Node) bool {
					if a, ok := y.(*ast.AssignStmt); ok && len(a.Lhs) == 1 {
						upd = core.ObjOf(ui, a.Lhs[0])
					}
					return true
				})
			}
			return true
		})
		inDis, inEn := false, false
		var call *ast.CallExpr
		core.Walk(u.Decl.Body, false, func(x ast.Node) bool {
			if c, ok := x.(*ast.CallExpr); ok && core.CallName(ui, c) == pkgCapture+".Manager.update" && len(c.Args) == 4 {
				call = c
			}
			return true
		})
		if call != nil && upd != nil {
			for i, flag := range []*bool{&inEn, &inDis} {
				arg := call.Args[2+i]
				if o := core.ObjOf(ui, arg); o != nil {
					if d := singleDef(ui, u.Decl.Body, o); d != nil {
						*flag = core.MentionsObj(ui, d, upd)
					}
				}
			}
		}
		hz := appendAliasHazards(p, u)
		r.Check("diff-sets", "updateSelected:work-lists-do-not-share-memory", p.Rel(u.Decl.Pos()), len(hz) == 0, strings.Join(hz, "; "))
		r.Check("diff-sets", "updateSelected:changed-interfaces-are-restarted", p.Rel(u.Decl.Pos()), upd != nil && inDis && inEn,
			"interfaces whose configuration differs from the applied one (Equals false) must be in both the disable and the enable list handed to update")
	}
}

// appendAliasHazards: two append calls in one function extend the same base slice variable and
// keep both results: when the base has spare capacity both results share its backing array and
// the second append overwrites the elements the first one added.
func appendAliasHazards(p *core.Prog, f *core.Fn) []string {
	info := f.Info()
	type use struct {
		dst types.Object
		pos token.Pos
	}
	byBase := map[types.Object][]use{}
	core.Walk(f.Decl.Body, false, func(x ast.Node) bool {
		var lhs []ast.Expr
		var rhs []ast.Expr
		switch s := x.(type) {
		case *ast.AssignStmt:
			lhs, rhs = s.Lhs, s.Rhs
		case *ast.ValueSpec:
			for _, n := range s.Names {
				lhs = append(lhs, n)
			}
			rhs = s.Values
		default:
			return true
		}
		if len(lhs) != len(rhs) {
			return true
		}
		for i, rh := range rhs {
			c, ok := ast.Unparen(rh).(*ast.CallExpr)
			if !ok || core.CallName(info, c) != "builtin.append" || len(c.Args) < 2 {
				continue
			}
			base := core.ObjOf(info, c.Args[0])
			dst := core.ObjOf(info, lhs[i])
			if base == nil || dst == nil || base == dst {
				continue // x = append(x, …) is the normal growing idiom
			}
			byBase[base] = append(byBase[base], use{dst, c.Pos()})
		}
		return true
	})
	var out []string
	for base, us := range byBase {
		if len(us) < 2 {
			continue
		}
		out = append(out, fmt.Sprintf("%s and %s are both built by appending to %s (%s, %s): with spare capacity in %s they share one backing array and the later append overwrites what the earlier one added", us[0].dst.Name(), us[1].dst.Name(), base.Name(), p.Rel(us[0].pos), p.Rel(us[1].pos), base.Name()))
	}
	return out
}
