package props

import (
	"fmt"
	"go/ast"
	"go/importer"
	"go/parser"
	"go/token"
	"go/types"

	"gpverif/core"
)

// windowSliceHazards: a slice or index expression whose upper bound / index is "a variable plus a positive constant"
// (x[a:a+K], x[a+K]) takes a fixed-size window at a variable offset. It is within bounds only if something established
// a+K <= len(x) (or cap(x)); unlike x[a:] or x[:a], whose bound is usually an invariant of the data structure, the sum
// is a new quantity nobody else maintains. The rule asks for a branch condition that dominates the access and relates
// len(x) / cap(x) to the offset variable (any comparison mentioning both), or for the bound being clamped by min(…,
// len(x)). Without one the expression panics for offsets near the end of x.
func windowSliceHazards(info *types.Info, body *ast.BlockStmt, where func(token.Pos) string) []string {
	var out []string
	g := core.NewGraph(info, body)
	isPosConst := func(e ast.Expr) bool {
		k, ok := core.ConstInt(info, e)
		return ok && k > 0
	}
	// offset variable of `v + K` / `K + v` (v non-constant)
	window := func(e ast.Expr) (ast.Expr, bool) {
		e = resolveLocal(info, body, ast.Unparen(e))
		b, ok := ast.Unparen(e).(*ast.BinaryExpr)
		if !ok || b.Op != token.ADD {
			return nil, false
		}
		if _, isC := core.ConstInt(info, b); isC {
			return nil, false
		}
		switch {
		case isPosConst(b.Y):
			return b.X, true
		case isPosConst(b.X):
			return b.Y, true
		}
		return nil, false
	}
	mentionsLenOf := func(n ast.Node, x ast.Expr) bool {
		hit := false
		xs := core.Str(ast.Unparen(x))
		core.Walk(n, false, func(y ast.Node) bool {
			if c, ok := y.(*ast.CallExpr); ok && len(c.Args) == 1 {
				if cn := core.CallName(info, c); (cn == "builtin.len" || cn == "builtin.cap") && core.Str(ast.Unparen(resolveLocal(info, body, c.Args[0]))) == xs {
					hit = true
				}
			}
			return true
		})
		return hit
	}
	mentionsExpr := func(n ast.Node, v ast.Expr) bool {
		hit := false
		var objs = map[types.Object]bool{}
		core.Walk(v, false, func(y ast.Node) bool {
			if id, ok := y.(*ast.Ident); ok {
				if o, isVar := info.Uses[id].(*types.Var); isVar {
					objs[o] = true
				}
			}
			return true
		})
		core.Walk(n, false, func(y ast.Node) bool {
			if id, ok := y.(*ast.Ident); ok && objs[info.Uses[id]] {
				hit = true
			}
			return true
		})
		return hit
	}
	check := func(node ast.Expr, x ast.Expr, bound ast.Expr, what string) {
		if bound == nil {
			return
		}
		t := info.TypeOf(x)
		if t == nil {
			return
		}
		switch t.Underlying().(type) {
		case *types.Slice, *types.Basic: // slices and strings; arrays and maps are not the subject
		default:
			if pt, ok := t.Underlying().(*types.Pointer); !ok || pt == nil {
				return
			}
			return
		}
		// clamped by min(…, len(x))
		if c, ok := ast.Unparen(resolveLocal(info, body, ast.Unparen(bound))).(*ast.CallExpr); ok && core.CallName(info, c) == "builtin.min" && mentionsLenOf(c, x) {
			return
		}
		v, ok := window(bound)
		if !ok {
			return
		}
		id := g.NodeOf(node)
		if id < 0 {
			return
		}
		guarded := false
		for gid, gn := range g.Nodes {
			ce, isExpr := gn.(ast.Expr)
			if !isExpr || len(g.Succ[gid]) != 2 || gid == id {
				continue
			}
			if !g.Dominated(id, map[int]bool{gid: true}) {
				continue
			}
			if mentionsLenOf(ce, resolveLocal(info, body, ast.Unparen(x))) && mentionsExpr(ce, v) {
				guarded = true
			}
		}
		if !guarded {
			out = append(out, fmt.Sprintf("%s: %s %s is %s plus a constant, and no test on the way relates %s to len(%s): out of range for offsets near the end", where(node.Pos()), what, core.Str(node), core.Str(v), core.Str(v), core.Str(x)))
		}
	}
	core.Walk(body, false, func(n ast.Node) bool {
		switch e := n.(type) {
		case *ast.SliceExpr:
			check(e, e.X, e.High, "the upper bound of")
		case *ast.IndexExpr:
			if tv, ok := info.Types[e.X]; ok && tv.IsType() {
				return true // generic instantiation
			}
			check(e, e.X, e.Index, "the index of")
		}
		return true
	})
	return out
}

// windowSliceSelfTest: the rule has no instance on the reference tree; a two-function fixture, type-checked in memory,
// shows on every run that it fires on the unguarded window and stays silent on the guarded one.
func windowSliceSelfTest() error {
	const src = `package fixture
func bad(t []string, pos int) []string { first := pos - 2; return t[first : first+4] }
func good(t []string, pos int) []string { first := pos - 2; if first+4 > len(t) { return t }; return t[first : first+4] }
func clamp(t []string, pos int) []string { first := pos - 2; return t[first:min(first+4, len(t))] }
`
	fset := token.NewFileSet()
	file, err := parser.ParseFile(fset, "fixture.go", src, 0)
	if err != nil {
		return err
	}
	info := &types.Info{Types: map[ast.Expr]types.TypeAndValue{}, Defs: map[*ast.Ident]types.Object{}, Uses: map[*ast.Ident]types.Object{}, Selections: map[*ast.SelectorExpr]*types.Selection{}}
	if _, err := (&types.Config{Importer: importer.Default()}).Check("fixture", fset, []*ast.File{file}, info); err != nil {
		return err
	}
	got := map[string]int{}
	for _, d := range file.Decls {
		fd := d.(*ast.FuncDecl)
		got[fd.Name.Name] = len(windowSliceHazards(info, fd.Body, func(p token.Pos) string { return fset.Position(p).String() }))
	}
	if got["bad"] != 1 || got["good"] != 0 || got["clamp"] != 0 {
		return fmt.Errorf("fixture verdicts bad=%d good=%d clamp=%d (want 1, 0, 0)", got["bad"], got["good"], got["clamp"])
	}
	return nil
}
