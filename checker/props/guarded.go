package props

import (
	"go/ast"
	"go/token"
	"go/types"
	"sort"
	"strings"

	"gpverif/core"
)

// guardedStatements summarises a statement list as the set of its effectful statements, each rendered canonically (canon)
// and paired with the conditions under which it executes. The conditions are taken from the enclosing if / for statements
// with their polarity normalised, and from preceding guard clauses: after `if C { …; continue / return / goto / break }`
// the remaining statements of the list execute under C:false. Definitions of single-assignment locals are not statements
// of their own (canon inlines them). The summary is indifferent to inverted conditions with swapped branches, guard-clause
// vs if/else form, hoisted expressions, local names and the order of independent statements; it is the basis for comparing
// hand-duplicated code.
func guardedStatements(cn *canon, list []ast.Stmt) []string {
	var out []string
	var walk func(list []ast.Stmt, ctx []string)
	terminates := func(b *ast.BlockStmt) bool {
		if b == nil || len(b.List) == 0 {
			return false
		}
		switch last := b.List[len(b.List)-1].(type) {
		case *ast.ReturnStmt:
			return true
		case *ast.BranchStmt:
			return last.Tok == token.CONTINUE || last.Tok == token.GOTO || last.Tok == token.BREAK
		}
		return false
	}
	condAtoms := func(e ast.Expr, truth bool) []string {
		// a conjunction known true / a disjunction known false splits into separate facts; everything else is one fact in
		// negation normal form
		atoms, truths := atomsOf(e, truth)
		if len(atoms) == 0 {
			return []string{cn.cond(e, truth)}
		}
		var res []string
		for i, a := range atoms {
			res = append(res, cn.cond(a, truths[i]))
		}
		return res
	}
	emit := func(ctx []string, s string) {
		c := append([]string{}, ctx...)
		sort.Strings(c)
		out = append(out, "["+strings.Join(c, " & ")+"] "+s)
	}
	isInlined := func(e ast.Expr) bool {
		id, ok := ast.Unparen(e).(*ast.Ident)
		if !ok {
			return false
		}
		v, isVar := cn.info.Defs[id].(*types.Var)
		if !isVar {
			v, isVar = cn.info.Uses[id].(*types.Var)
		}
		if !isVar {
			return id.Name == "_"
		}
		if _, named := cn.names[v]; named {
			return true
		}
		return cn.soleAssign(v) != nil
	}
	walk = func(list []ast.Stmt, ctx []string) {
		extra := []string{}
		for _, st := range list {
			cur := append(append([]string{}, ctx...), extra...)
			switch s := st.(type) {
			case *ast.LabeledStmt:
				walk([]ast.Stmt{s.Stmt}, cur)
			case *ast.BlockStmt:
				walk(s.List, cur)
			case *ast.IfStmt:
				if s.Init != nil {
					walk([]ast.Stmt{s.Init}, cur)
				}
				walk(s.Body.List, append(append([]string{}, cur...), condAtoms(s.Cond, true)...))
				switch e := s.Else.(type) {
				case *ast.BlockStmt:
					walk(e.List, append(append([]string{}, cur...), condAtoms(s.Cond, false)...))
					if terminates(e) && !terminates(s.Body) {
						extra = append(extra, condAtoms(s.Cond, true)...)
					}
				case *ast.IfStmt:
					walk([]ast.Stmt{e}, append(append([]string{}, cur...), condAtoms(s.Cond, false)...))
				}
				if terminates(s.Body) && s.Else == nil {
					extra = append(extra, condAtoms(s.Cond, false)...)
				}
				if bs, ok := s.Else.(*ast.BlockStmt); ok && terminates(s.Body) && !terminates(bs) {
					extra = append(extra, condAtoms(s.Cond, false)...)
				}
			case *ast.ForStmt:
				if s.Init != nil {
					walk([]ast.Stmt{s.Init}, cur)
				}
				in := append([]string{}, cur...)
				if s.Cond != nil {
					in = append(in, condAtoms(s.Cond, true)...)
				}
				in = append(in, "loop")
				walk(s.Body.List, in)
				if s.Post != nil {
					walk([]ast.Stmt{s.Post}, in)
				}
			case *ast.RangeStmt:
				walk(s.Body.List, append(append([]string{}, cur...), "range "+cn.str(s.X)))
			case *ast.AssignStmt:
				for i, l := range s.Lhs {
					if s.Tok == token.DEFINE && isInlined(l) {
						continue
					}
					rhs := ""
					if i < len(s.Rhs) {
						rhs = cn.str(s.Rhs[i])
						if core.IsNil(cn.info, s.Rhs[i]) {
							if lt := cn.info.TypeOf(l); lt != nil {
								rhs = "zero<" + types.TypeString(lt, func(*types.Package) string { return "" }) + ">"
							}
						}
					} else if len(s.Rhs) == 1 {
						rhs = cn.str(s.Rhs[0])
					}
					tok := s.Tok.String()
					if tok == ":=" {
						tok = "="
					}
					emit(cur, cn.str(l)+" "+tok+" "+rhs)
				}
			case *ast.IncDecStmt:
				emit(cur, cn.str(s.X)+s.Tok.String())
			case *ast.ExprStmt:
				emit(cur, cn.str(s.X))
			case *ast.ReturnStmt:
				var rs []string
				for _, e := range s.Results {
					rs = append(rs, cn.str(e))
				}
				emit(cur, strings.TrimSpace("return "+strings.Join(rs, ",")))
			case *ast.BranchStmt:
				l := s.Tok.String()
				if s.Label != nil {
					l += " " + s.Label.Name
				}
				emit(cur, l)
			case *ast.DeclStmt, *ast.EmptyStmt:
			default:
				emit(cur, "?"+core.Str0(st))
			}
		}
	}
	walk(list, nil)
	sort.Strings(out)
	return out
}
