// Package props holds one file per property: rule instances, frozen tables, oracles.
package props

import "gpverif/core"

// Registry maps property ids to their check.
var Registry = map[string]func(*core.Run){}

func register(id string, f func(*core.Run)) { Registry[id] = f }
