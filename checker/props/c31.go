package props

import (
	"fmt"
	"go/ast"
	"go/token"
	"go/types"
	"strings"

	"gpverif/core"
)

func init() { register("C31", c31) }

func c31(r *core.Run) {
	r.Expl = "C31 (query concurrency limit never exceeded, never leaks): decides, on every control-flow path of both query entry points (engine.QueryRunner.run, distributed.QueryRunner.run): the slot is acquired (checkSemaphore) before any query work; on the failure branch the function returns a result with StatusTooManyRequests, performs no query work and registers no release; on the success branch the release function returned by the acquisition is deferred before any further return can be reached, exactly once, and is not called directly; checkSemaphore returns the result of TryAddFor on the runner's own semaphore (or a no-op when none is configured); the work functions (RunStatement / querier.Query) are called from nowhere else in their package, so no query bypasses the gate; the semaphore channel is created once per server outside any request handler. NOT decided: counts under real schedules (TryAddFor / channel semantics are trusted), behaviour under cancellation inside the library."
	r.Floor = 14
	r.Rules = append(r.Rules, "acquire-release-path-rule (P1/P2)", "who-may-call (P10)", "allocation-site")
	p := r.Prog("cgo")
	c31Run(r, p, "pkg/goDB/engine", "QueryRunner.run", []string{"pkg/goDB/engine.QueryRunner.RunStatement"})
	c31Run(r, p, "cmd/global-query/pkg/distributed", "QueryRunner.run", []string{"Querier.Query", "cmd/global-query/pkg/distributed.aggregateResults"})
	c31Alloc(r, p)
}

func c31Run(r *core.Run, p *core.Prog, rel, name string, work []string) {
	const rule = "acquire-release-path-rule"
	f := r.MustFunc(rule, rel, name)
	cs := r.MustFunc(rule, rel, "QueryRunner.checkSemaphore")
	if f == nil || cs == nil {
		return
	}
	info := f.Info()
	g := core.GraphOf(f)
	where := p.Rel(f.Decl.Pos())
	short := rel[strings.LastIndex(rel, "/")+1:]
	var done, aerr types.Object
	core.Walk(f.Decl.Body, false, func(x ast.Node) bool {
		if a, ok := x.(*ast.AssignStmt); ok && len(a.Rhs) == 1 && len(a.Lhs) == 2 {
			if c, ok := a.Rhs[0].(*ast.CallExpr); ok && core.CallName(info, c) == rel+".QueryRunner.checkSemaphore" {
				done, aerr = core.ObjOf(info, a.Lhs[0]), core.ObjOf(info, a.Lhs[1])
			}
		}
		return true
	})
	if done == nil || aerr == nil {
		r.Check(rule, short+".run:acquires", where, false, "no `release, err := checkSemaphore(...)` in the query entry point: queries run without taking a slot")
		return
	}
	isWork := func(c *ast.CallExpr) bool {
		cn := core.CallName(info, c)
		for _, w := range work {
			if cn == w || strings.HasSuffix(cn, "."+w) {
				return true
			}
		}
		return false
	}
	sawAcq := false
	tmRoots := map[types.Object]bool{}
	cl := func(n ast.Node, cond *bool) []ev {
		var out []ev
		if d, ok := n.(*ast.DeferStmt); ok {
			if core.ObjOf(info, d.Call.Fun) == done {
				return []ev{{label: "defer-release", node: d}}
			}
			for _, c := range core.Calls(d, true) {
				if core.ObjOf(info, c.Fun) == done {
					return []ev{{label: "defer-release", node: d}}
				}
			}
			return nil
		}
		if cond != nil {
			if b, ok := core.BinOp(n.(ast.Expr), token.NEQ, token.EQL); ok && core.ObjOf(info, b.X) == aerr && core.IsNil(info, b.Y) && sawAcq {
				failed := (b.Op == token.NEQ) == *cond
				out = append(out, ev{label: map[bool]string{true: "acq-failed", false: "acq-ok"}[failed]})
			}
		}
		for _, c := range core.Calls(n, false) {
			switch {
			case core.CallName(info, c) == rel+".QueryRunner.checkSemaphore":
				sawAcq = true
				out = append(out, ev{label: "acquire", node: c})
			case core.ObjOf(info, c.Fun) == done:
				out = append(out, ev{label: "direct-release", node: c})
			case isWork(c):
				out = append(out, ev{label: "work", node: c})
			}
		}
		// the refusal status may also be stored into the result object field by field before it is returned
		if a, ok := n.(*ast.AssignStmt); ok && len(a.Lhs) == len(a.Rhs) {
			for k, rhs := range a.Rhs {
				if mentionsNameDeep(p, info, f.Decl.Body, rhs, "StatusTooManyRequests", 0) {
					if root := core.ObjOf(info, rootExpr(a.Lhs[k])); root != nil {
						tmRoots[root] = true
					}
				}
			}
		}
		if rs, ok := n.(*ast.ReturnStmt); ok {
			tm := false
			for _, res := range rs.Results {
				if mentionsNameDeep(p, info, f.Decl.Body, res, "StatusTooManyRequests", 0) {
					tm = true
				}
				if root := core.ObjOf(info, rootExpr(res)); root != nil && tmRoots[root] {
					tm = true
				}
			}
			if tm {
				out = append(out, ev{label: "return-too-many"})
			}
		}
		return out
	}
	// the error variable is reused (err): only the test directly after the acquisition counts.
	paths, ok := g.Paths(core.Entry, core.Exit, 20000)
	if !ok {
		r.Undecided(rule, short+".run:paths", where, "too many paths")
		return
	}
	bad := map[string]string{}
	nOK, nFail := 0, 0
	for _, path := range paths {
		sawAcq = false
		tmRoots = map[types.Object]bool{}
		var evs []ev
		state := "" // "", "pending" (acquired, err untested), "ok", "failed"
		for i, n := range path {
			node := g.Nodes[n]
			if node == nil {
				continue
			}
			var cond *bool
			if tk, isC := g.Taken(path, i); isC {
				t := tk
				cond = &t
			}
			for _, e := range cl(node, cond) {
				switch e.label {
				case "acquire":
					state = "pending"
				case "acq-ok", "acq-failed":
					if state != "pending" {
						continue // a later test of the reused error variable
					}
					state = strings.TrimPrefix(e.label, "acq-")
				}
				evs = append(evs, e)
			}
		}
		has := func(l string) int {
			n := 0
			for _, e := range evs {
				if e.label == l {
					n++
				}
			}
			return n
		}
		idx := func(l string) int {
			for i, e := range evs {
				if e.label == l {
					return i
				}
			}
			return -1
		}
		pl := pathLines(p, g, path)
		if has("work") > 0 && (has("acquire") == 0 || idx("work") < idx("acquire")) {
			bad["work-after-acquire"] = "query work is reachable without a slot having been acquired first: " + pl
		}
		if has("direct-release") > 0 {
			bad["release-deferred-once"] = "the release function is called directly (a panic or early return in between leaks the slot; together with a defer it releases twice): " + pl
		}
		switch state {
		case "ok":
			nOK++
			if has("defer-release") != 1 {
				bad["release-deferred-once"] = fmt.Sprintf("a path on which the slot was acquired reaches the end of the function with %d deferred releases: the slot is never given back: %s", has("defer-release"), pl)
			}
			// nothing that can return may precede the defer: the defer must be the first event after acq-ok
			if i, j := idx("acq-ok"), idx("defer-release"); j >= 0 && j != i+1 {
				bad["release-deferred-once"] = "other query work happens between the acquisition and the registration of the release: " + pl
			}
		case "failed":
			nFail++
			if has("work") > 0 || has("defer-release") > 0 {
				bad["refused-does-nothing"] = "on the refused branch the query still runs or a release is registered (releasing a slot that was never taken frees somebody else's): " + pl
			}
			if has("return-too-many") == 0 {
				bad["refused-status"] = "the refused branch does not answer with StatusTooManyRequests: " + pl
			}
		case "pending":
			bad["acquire-tested"] = "the result of the acquisition is not tested: " + pl
		}
	}
	for _, k := range []string{"work-after-acquire", "release-deferred-once", "refused-does-nothing", "refused-status", "acquire-tested"} {
		r.Check(rule, short+".run:"+k, where, bad[k] == "" && nOK > 0 && nFail > 0, bad[k])
	}
	r.Stat("paths_enumerated", len(paths))
	// checkSemaphore: returns TryAddFor on the receiver's semaphore; no-op only when it is nil
	ci := cs.Info()
	fSem := p.FieldObj(rel, "QueryRunner", "sem")
	okTry, okNil := false, false
	{
		cg := core.GraphOf(cs)
		ccl := func(n ast.Node, cond *bool) []ev {
			var out []ev
			if cond != nil {
				if x, y, eq, ok := eqTest(n.(ast.Expr), *cond); ok && core.SelField(ci, x) == fSem && core.IsNil(ci, y) {
					out = append(out, ev{label: map[bool]string{true: "sem-nil", false: "sem-set"}[eq]})
				}
			}
			if rs, ok := n.(*ast.ReturnStmt); ok && len(rs.Results) >= 1 {
				l := "ret-other"
				if c, ok := ast.Unparen(rs.Results[0]).(*ast.CallExpr); ok {
					if rx, m := core.MethodCall(ci, c); m == "TryAddFor" && core.SelField(ci, rx) == fSem {
						l = "ret-try"
					}
				}
				out = append(out, ev{label: l})
			}
			return out
		}
		if ts, ok := traces(cs, cg, ccl, 2000); ok {
			nTry, nNil := 0, 0
			okTry, okNil = true, true
			for _, t := range ts {
				if t.has("sem-nil") && t.has("sem-set") {
					continue
				}
				switch {
				case t.has("sem-set"):
					nTry++
					if !t.has("ret-try") {
						okTry = false // a configured limit is not applied
					}
				case t.has("sem-nil"):
					nNil++
					if t.has("ret-try") {
						okNil = false
					}
				default:
					if t.has("ret-try") {
						okNil = false // TryAddFor on a possibly nil semaphore
					} else {
						okTry = false // returns without consulting the semaphore
					}
				}
			}
			okTry, okNil = okTry && nTry > 0, okNil && nNil > 0
		}
	}
	r.Check(rule, short+".checkSemaphore:uses-own-semaphore", p.Rel(cs.Decl.Pos()), okTry && okNil && fSem != nil, "checkSemaphore must return sem.TryAddFor(timeout) of the runner's semaphore and be a no-op only when none is configured")
	// who may call the work functions
	for _, w := range work {
		if !strings.Contains(w, "/") {
			continue
		}
		n := 0
		var others []string
		for _, fn := range p.AllFuncs() {
			for _, c := range core.Calls(fn.Decl.Body, true) {
				if core.CallName(fn.Info(), c) == w {
					n++
					if fn.Obj != f.Obj {
						others = append(others, fn.Where())
					}
				}
			}
		}
		r.Check("who-may-call", short+":"+w[strings.LastIndex(w, ".")+1:]+"-only-behind-the-gate", where, len(others) == 0 && n > 0, fmt.Sprintf("also called from %v: those queries run without taking a slot", others))
	}
}

// c31Alloc: WithMaxConcurrent receives a channel created once, outside request handlers.
func c31Alloc(r *core.Run, p *core.Prog) {
	const rule = "allocation-site"
	n := 0
	for _, fn := range p.AllFuncs() {
		info := fn.Info()
		core.Walk(fn.Decl.Body, false, func(x ast.Node) bool {
			c, ok := x.(*ast.CallExpr)
			if !ok || !strings.HasSuffix(core.CallName(info, c), ".WithMaxConcurrent") || len(c.Args) != 1 {
				return true
			}
			n++
			o := core.ObjOf(info, c.Args[0])
			okA := false
			why := "argument is not a variable bound to make(chan struct{}, n)"
			if o != nil {
				if d := singleDef(info, fn.Decl.Body, o); d != nil {
					if mk, ok := ast.Unparen(d).(*ast.CallExpr); ok && core.CallName(info, mk) == "builtin.make" && len(mk.Args) == 2 {
						okA = true
					}
				}
			}
			// the enclosing function must not take a request (context / http) — it is set-up code
			sig := fn.Obj.Type().(*types.Signature)
			for i := 0; i < sig.Params().Len(); i++ {
				tn := core.TypeName(sig.Params().At(i).Type())
				if strings.Contains(tn, "context.Context") || strings.Contains(tn, "http.Request") || strings.Contains(tn, "gin.Context") {
					okA, why = false, "the semaphore is created inside a function that handles a request ("+tn+"): every request would get its own limit"
				}
			}
			r.Check(rule, fn.Where()+":semaphore-created-once", p.Rel(c.Pos()), okA, why)
			return true
		})
	}
	if n < 2 {
		r.Undecided(rule, "WithMaxConcurrent-call-sites", "-", fmt.Sprintf("%d call sites (2 on the reference tree)", n))
	}
}
