package props

import (
	"fmt"
	"go/ast"
	"go/token"
	"go/types"
	"sort"
	"strings"

	"gpverif/core"
)

// canon renders an expression in a form that is stable under the refactorings that do not change what it denotes:
// local variables with one assignment are replaced by (the canonical form of) that assignment, parameters by P<i>,
// named results by R<i>; everything else is printed structurally. Two expressions with equal canonical forms inside one
// function (or inside two sibling functions with the same parameter order) compute the same value from the same inputs.
type canon struct {
	info *types.Info
	fn   *core.Fn
	// rename maps identifier names of package-level objects (constants, functions) – used to compare V4/V6 siblings
	rename func(string) string
	// names overrides the rendering of particular variables (roles such as "the iterator", "the iterated map")
	names map[types.Object]string
	busy  map[*types.Var]bool
}

// declaringDef: the initialiser in the statement that declares v (`v := e` / `var v = e`), nil if it has none.
func (c *canon) declaringDef(v *types.Var) ast.Expr {
	var out ast.Expr
	core.Walk(c.fn.Decl.Body, true, func(x ast.Node) bool {
		switch a := x.(type) {
		case *ast.AssignStmt:
			if a.Tok.String() != ":=" {
				return true
			}
			for i, l := range a.Lhs {
				if id, ok := l.(*ast.Ident); ok && c.info.Defs[id] == types.Object(v) && len(a.Rhs) == len(a.Lhs) {
					out = a.Rhs[i]
				}
			}
		case *ast.ValueSpec:
			for i, nm := range a.Names {
				if c.info.Defs[nm] == types.Object(v) && i < len(a.Values) {
					out = a.Values[i]
				}
			}
		}
		return true
	})
	return out
}

func newCanon(f *core.Fn) *canon {
	return &canon{info: f.Info(), fn: f, rename: func(s string) string { return s }, names: map[types.Object]string{}}
}

func (c *canon) soleAssign(v *types.Var) ast.Expr {
	var rhs ast.Expr
	var all []ast.Expr
	n := 0
	seen := map[ast.Node]bool{} // an expanded helper contributes the same statement nodes at each of its call sites
	core.Walk(c.fn.Decl.Body, true, func(x ast.Node) bool {
		if seen[x] {
			return false
		}
		switch x.(type) {
		case *ast.AssignStmt, *ast.ValueSpec, *ast.RangeStmt, *ast.IncDecStmt:
			seen[x] = true
		}
		switch a := x.(type) {
		case *ast.AssignStmt:
			for i, l := range a.Lhs {
				if core.ObjOf(c.info, l) == types.Object(v) {
					n++
					if len(a.Rhs) == len(a.Lhs) {
						rhs = a.Rhs[i]
						all = append(all, a.Rhs[i])
					} else {
						rhs = nil
						all = append(all, nil)
					}
				}
			}
		case *ast.ValueSpec:
			for i, nm := range a.Names {
				if c.info.Defs[nm] == types.Object(v) && i < len(a.Values) {
					n++
					rhs = a.Values[i]
				}
			}
		case *ast.RangeStmt:
			if core.ObjOf(c.info, a.Key) == types.Object(v) || core.ObjOf(c.info, a.Value) == types.Object(v) {
				n += 2
			}
		case *ast.IncDecStmt:
			if core.ObjOf(c.info, a.X) == types.Object(v) {
				n += 2
			}
		}
		return true
	})
	if n == 1 {
		return rhs
	}
	// several definitions that are copies of one statement (a helper expanded at more than one call site, its parameters
	// replaced by the same arguments): still one definition
	if n > 1 && len(all) == n && !c.busy[v] {
		if c.busy == nil {
			c.busy = map[*types.Var]bool{}
		}
		c.busy[v] = true
		defer delete(c.busy, v)
		first := ""
		for i, e := range all {
			if e == nil {
				return nil
			}
			r := c.render(e, 3)
			if i == 0 {
				first = r
			} else if r != first {
				return nil
			}
		}
		return all[0]
	}
	return nil
}

func (c *canon) str(e ast.Expr) string { return c.render(e, 0) }

func (c *canon) render(e ast.Expr, depth int) string {
	if e == nil {
		return ""
	}
	switch x := e.(type) {
	case *ast.ParenExpr:
		return c.render(x.X, depth)
	case *ast.Ident:
		o := c.info.Uses[x]
		if o == nil {
			o = c.info.Defs[x]
		}
		if _, isNil := o.(*types.Nil); isNil {
			if tv, ok := c.info.Types[x]; ok && tv.Type != nil {
				if _, untyped := tv.Type.(*types.Basic); !untyped {
					return "zero<" + types.TypeString(tv.Type, func(*types.Package) string { return "" }) + ">"
				}
			}
			return "nil"
		}
		if v, ok := o.(*types.Var); ok && !v.IsField() && v.Pkg() != nil && v.Parent() != v.Pkg().Scope() {
			if nm, ok := c.names[v]; ok {
				return nm
			}
			sig := c.fn.Obj.Type().(*types.Signature)
			for i := 0; i < sig.Params().Len(); i++ {
				if sig.Params().At(i) == v {
					return fmt.Sprintf("P%d", i)
				}
			}
			for i := 0; i < sig.Results().Len(); i++ {
				if sig.Results().At(i) == v {
					return fmt.Sprintf("R%d", i)
				}
			}
			if sig.Recv() == v {
				return "RECV"
			}
			if nm, ok := c.names[v]; ok {
				return nm
			}
			if depth < 6 {
				if d := c.soleAssign(v); d != nil {
					return c.render(d, depth+1)
				}
				// assigned more than once: named after its declaring definition, so that the rendering does not depend on
				// what the maintainer called it
				if d := c.declaringDef(v); d != nil {
					return "var<" + c.render(d, depth+1) + ">"
				}
				if call, idx := defCall(c.info, c.fn.Decl.Body, v); call != nil {
					return fmt.Sprintf("res%d<%s>", idx, c.render(call, depth+1))
				}
				if c.neverAssigned(v) {
					// `var x T` that only ever holds its zero value
					return "zero<" + types.TypeString(v.Type(), func(*types.Package) string { return "" }) + ">"
				}
			}
			return "local:" + x.Name
		}
		return c.rename(x.Name)
	case *ast.SelectorExpr:
		if id, ok := x.X.(*ast.Ident); ok {
			if _, isPkg := c.info.Uses[id].(*types.PkgName); isPkg {
				return c.rename(id.Name) + "." + c.rename(x.Sel.Name)
			}
		}
		return c.render(x.X, depth) + "." + c.rename(x.Sel.Name)
	case *ast.BasicLit:
		return x.Value
	case *ast.CallExpr:
		var as []string
		for _, a := range x.Args {
			as = append(as, c.render(a, depth))
		}
		return c.render(x.Fun, depth) + "(" + strings.Join(as, ",") + ")"
	case *ast.IndexExpr:
		return c.render(derefAddr(x.X), depth) + "[" + c.render(x.Index, depth) + "]"
	case *ast.SliceExpr:
		return c.render(derefAddr(x.X), depth) + "[" + c.render(x.Low, depth) + ":" + c.render(x.High, depth) + "]"
	case *ast.UnaryExpr:
		return x.Op.String() + c.render(x.X, depth)
	case *ast.StarExpr:
		return "*" + c.render(x.X, depth)
	case *ast.BinaryExpr:
		l, r := c.render(x.X, depth), c.render(x.Y, depth)
		if op := x.Op.String(); (op == "==" || op == "!=") && r < l {
			l, r = r, l // equality is symmetric: one rendering for both operand orders
		}
		return "(" + l + x.Op.String() + r + ")"
	case *ast.CompositeLit:
		if len(x.Elts) == 0 {
			if tv, ok := c.info.Types[x]; ok && tv.Type != nil {
				if _, isStruct := tv.Type.Underlying().(*types.Struct); isStruct {
					return "zero<" + types.TypeString(tv.Type, func(*types.Package) string { return "" }) + ">"
				}
			}
		}
		var es []string
		for _, el := range x.Elts {
			es = append(es, c.render(el, depth))
		}
		return core.Str(x.Type) + "{" + strings.Join(es, ",") + "}"
	case *ast.KeyValueExpr:
		return c.render(x.Key, depth) + ":" + c.render(x.Value, depth)
	}
	return core.Str(e)
}

// enumTests maps the case expressions of `switch tag { case C: }` statements under root to their tag, so that path rules
// can treat `if x == C` chains and switches alike.
func enumTests(root ast.Node) map[ast.Node]ast.Expr {
	out := map[ast.Node]ast.Expr{}
	core.Walk(root, true, func(x ast.Node) bool {
		if sw, ok := x.(*ast.SwitchStmt); ok && sw.Tag != nil {
			for _, cc := range sw.Body.List {
				for _, e := range cc.(*ast.CaseClause).List {
					out[e] = sw.Tag
				}
			}
		}
		return true
	})
	return out
}

// enumCond: a branch condition `subject == K` / `subject != K` / (negated) / `case K` of `switch subject`; returns the
// subject, the constant expression and whether subject equals K on the branch taken.
func enumCond(cases map[ast.Node]ast.Expr, n ast.Node, taken bool) (subject, konst ast.Expr, equal, ok bool) {
	e, isExpr := n.(ast.Expr)
	if !isExpr {
		return nil, nil, false, false
	}
	if tag, isCase := cases[n]; isCase {
		return tag, e, taken, true
	}
	x, y, eq, okE := eqTest(e, taken)
	if okE {
		return x, y, eq, true
	}
	return nil, nil, false, false
}

// cond renders a branch condition together with its outcome in negation normal form: negations are pushed to the atoms
// (De Morgan), `a != b` becomes the negated atom `a == b`, and the operands of && / || are sorted. `!(p && q)` taken and
// `!p || !q` taken, or the else-branch of `x != A && x != B` and the then-branch of `x == A || x == B`, render identically.
func (c *canon) cond(e ast.Expr, truth bool) string {
	e = ast.Unparen(e)
	switch x := e.(type) {
	case *ast.UnaryExpr:
		if x.Op.String() == "!" {
			return c.cond(x.X, !truth)
		}
	case *ast.BinaryExpr:
		switch x.Op.String() {
		case "&&", "||":
			op := x.Op.String()
			if !truth { // De Morgan
				op = map[string]string{"&&": "||", "||": "&&"}[op]
			}
			var parts []string
			var flat func(b ast.Expr)
			flat = func(b ast.Expr) {
				if bb, ok := ast.Unparen(b).(*ast.BinaryExpr); ok && bb.Op == x.Op {
					flat(bb.X)
					flat(bb.Y)
					return
				}
				parts = append(parts, c.cond(b, truth))
			}
			flat(x)
			sort.Strings(parts)
			return op + "{" + strings.Join(parts, ", ") + "}"
		case "!=":
			return c.str(&ast.BinaryExpr{X: x.X, Y: x.Y, Op: token.EQL}) + map[bool]string{true: ":F", false: ":T"}[truth]
		}
	}
	return c.str(e) + map[bool]string{true: ":T", false: ":F"}[truth]
}

// neverAssigned: v is declared without initialiser and never assigned, incremented, ranged into or address-taken.
func (c *canon) neverAssigned(v *types.Var) bool {
	n := 0
	declared := false
	core.Walk(c.fn.Decl.Body, true, func(x ast.Node) bool {
		switch a := x.(type) {
		case *ast.ValueSpec:
			for i, nm := range a.Names {
				if c.info.Defs[nm] == types.Object(v) {
					declared = true
					if i < len(a.Values) {
						n++
					}
				}
			}
		case *ast.AssignStmt:
			for _, l := range a.Lhs {
				if core.ObjOf(c.info, l) == types.Object(v) {
					n++
				}
			}
		case *ast.IncDecStmt:
			if core.ObjOf(c.info, a.X) == types.Object(v) {
				n++
			}
		case *ast.RangeStmt:
			if core.ObjOf(c.info, a.Key) == types.Object(v) || core.ObjOf(c.info, a.Value) == types.Object(v) {
				n++
			}
		case *ast.UnaryExpr:
			if a.Op == token.AND && core.ObjOf(c.info, a.X) == types.Object(v) {
				n++
			}
		}
		return true
	})
	return declared && n == 0
}

// derefAddr: (&x)[i] is x[i] (indexing / slicing through a pointer to an array dereferences it).
func derefAddr(e ast.Expr) ast.Expr {
	if u, ok := ast.Unparen(e).(*ast.UnaryExpr); ok && u.Op == token.AND {
		return u.X
	}
	return e
}
