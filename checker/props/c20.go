package props

import (
	"fmt"
	"go/ast"
	"go/token"
	"go/types"
	"sort"
	"strings"

	"gpverif/core"
)

func init() { register("C20", c20) }

func c20(r *core.Run) {
	r.Expl = "C20 (captured traffic fully accounted for across write-outs): decides (1) in FlowLog.transferAndAggregate every flow-map entry takes, per rotation, exactly one of two paths: emitted (running totals, SetOrUpdate with all four counters of that flow in the callee's order, then Reset) when it has packets, or deleted when it has none — never reset without having been emitted, never emitted without packets, for IPv4 and IPv6 alike; (2) in Manager.rotate, once a capture has been rotated (its flows moved out and reset) every path hands the result to the write-out channel — there is no way around it; (3) NewFlow / UpdateFlow put the packet's size and count on the sent side iff the packet is outgoing, otherwise on the received side, and agree with each other; Flow.Reset clears every counter; (4) the stored key is built from the capture hash without its source port: PutV4String/PutV6String copy exactly [sip] and [dip|dport|proto] as laid out by the EPHash constants; (5) dbData appends exactly one entry per flow to each attribute column and each counter list, and sums every flow into the block summary; (6) every SetOrUpdate call site passes the counters in the order the callee adds them; addToFlowLogV4/V6 look up both orientations before inserting. NOT decided: conservation as arithmetic over schedules, behaviour of the third-party capture source."
	r.Floor = 30
	r.Rules = append(r.Rules, "rotation-path-rule (P2)", "rotated-result-always-sent (P1)", "direction-siblings", "key-projection-layout (P5)", "column-append-once (P2)", "counter-positions")
	p := r.Prog("cgo")
	c20Rotate(r, p)
	c20ManagerRotate(r, p)
	c20FlowCounters(r, p)
	c20KeyProjection(r, p)
	c20DBData(r, p)
	m := ruleSetOrUpdateMapping(r, p)
	ruleSetOrUpdateSites(r, p, m, pkgCapture, pkgGoDB)
	c20Lookup(r, p)
}

func c20Rotate(r *core.Run, p *core.Prog) {
	const rule = "rotation-path-rule"
	f := r.MustFunc(rule, pkgCapture, "FlowLog.transferAndAggregate")
	if f == nil {
		return
	}
	info := f.Info()
	nLoops := 0
	core.Walk(f.Decl.Body, false, func(x ast.Node) bool {
		loop, ok := x.(*ast.RangeStmt)
		if !ok || loop.Value == nil || loop.Key == nil {
			return true
		}
		if _, isMap := info.TypeOf(loop.X).Underlying().(*types.Map); !isMap {
			return true
		}
		nLoops++
		ver := "v4"
		if strings.Contains(core.Str(loop.X), "V6") {
			ver = "v6"
		}
		kv, vv := core.ObjOf(info, loop.Key), core.ObjOf(info, loop.Value)
		wrap := &ast.BlockStmt{List: loop.Body.List}
		g := core.NewGraph(info, wrap)
		cl := func(n ast.Node, cond *bool) []ev {
			var out []ev
			if cond != nil && (core.MentionsObj(info, n, vv) || core.MentionsObj(info, resolveLocal(info, loop.Body, func() ast.Expr { e, _ := normCond(n.(ast.Expr), true); return e }()), vv)) {
				// has-packets test: v.PacketsRcvd > 0 || v.PacketsSent > 0 (or != 0), possibly negated, possibly wrapped in a
				// one-line predicate method of the flow
				c, truth := normCond(n.(ast.Expr), *cond)
				c = ast.Unparen(resolveLocal(info, loop.Body, c)) // a predicate hoisted into a local
				ci := info
				isTest := strings.Contains(core.Str(c), "Packets")
				if call, ok := c.(*ast.CallExpr); ok {
					if rx, _ := core.MethodCall(info, call); rx != nil && core.ObjOf(info, rx) == vv && len(call.Args) == 0 {
						if fo, ok := core.Callee(info, call).(*types.Func); ok {
							if h := p.FnOf(fo); h != nil && len(h.Decl.Body.List) == 1 {
								if rs, ok := h.Decl.Body.List[0].(*ast.ReturnStmt); ok && len(rs.Results) == 1 {
									c, ci, isTest = rs.Results[0], h.Info(), true
								}
							}
						}
					}
				}
				if isTest {
					ds := core.Conjuncts(c, true)
					okForm := len(ds) == 2
					for _, d := range ds {
						b, ok := core.BinOp(d, token.GTR, token.NEQ)
						if !ok {
							okForm = false
							continue
						}
						if k, okc := core.ConstInt(ci, b.Y); !okc || k != 0 || core.SelField(ci, b.X) == nil {
							okForm = false
						}
					}
					if okForm && strings.Contains(core.Str(c), "PacketsRcvd") && strings.Contains(core.Str(c), "PacketsSent") {
						out = append(out, ev{label: map[bool]string{true: "has-packets", false: "no-packets"}[truth]})
					} else {
						out = append(out, ev{label: "odd-test"})
					}
				}
			}
			for _, c := range core.Calls(n, false) {
				switch core.CallName(info, c) {
				case pkgHashmap + ".Map.SetOrUpdate":
					l := "emit"
					for _, a := range c.Args[1:] {
						if sel, ok := ast.Unparen(a).(*ast.SelectorExpr); !ok || core.ObjOf(info, sel.X) != vv {
							l = "emit?"
						}
					}
					wantMap := map[string]string{"v4": "PrimaryMap", "v6": "SecondaryMap"}[ver]
					if !strings.Contains(core.Str(c.Fun), wantMap) {
						l = "emit-wrong-map"
					}
					out = append(out, ev{label: l})
				case pkgCapture + ".Flow.Reset":
					if rx, _ := core.MethodCall(info, c); rx != nil && core.ObjOf(info, rx) == vv {
						out = append(out, ev{label: "reset"})
					}
				case "builtin.delete":
					if len(c.Args) == 2 && core.Str(c.Args[0]) == core.Str(loop.X) && core.ObjOf(info, c.Args[1]) == kv {
						out = append(out, ev{label: "delete"})
					} else {
						out = append(out, ev{label: "delete?"})
					}
				case "pkg/types.Counters.Add":
					out = append(out, ev{label: "totals"})
				case "pkg/types.Key.PutV4String", "pkg/types.Key.PutV6String":
					want := "pkg/types.Key.Put" + strings.ToUpper(ver) + "String"
					if core.CallName(info, c) == want && len(c.Args) == 1 && core.ObjOf(info, c.Args[0]) == kv {
						out = append(out, ev{label: "key"})
					} else {
						out = append(out, ev{label: "key?"})
					}
				}
			}
			return out
		}
		fake := &core.Fn{Prog: p, Pkg: f.Pkg, Decl: &ast.FuncDecl{Body: wrap, Name: f.Decl.Name, Type: &ast.FuncType{}}, Obj: f.Obj, Name: f.Name}
		ts, ok := traces(fake, g, cl, 2000)
		bad := ""
		if ok {
			for _, t := range ts {
				pl := pathLines(p, g, t.path)
				for _, q := range []string{"emit?", "emit-wrong-map", "delete?", "key?", "odd-test"} {
					if t.has(q) {
						bad = q + " on " + pl
					}
				}
				switch {
				case t.has("has-packets"):
					if t.count("emit") != 1 || t.count("reset") != 1 || t.count("totals") != 1 || t.count("key") != 1 || t.has("delete") {
						bad = fmt.Sprintf("a flow with packets is emitted %d times, reset %d times, added to the totals %d times, deleted=%v (exactly once each, not deleted): %s", t.count("emit"), t.count("reset"), t.count("totals"), t.has("delete"), pl)
					} else if !(t.first("key") < t.first("emit") && t.first("emit") < t.first("reset") && t.first("totals") < t.first("reset")) {
						bad = "the flow is reset before its counters were handed to the aggregate: " + pl
					}
				case t.has("no-packets"):
					if t.has("emit") || t.has("reset") || t.has("totals") || t.count("delete") != 1 {
						bad = "a flow without packets in this interval must only be removed from the flow map: " + pl
					}
				default:
					bad = "an entry is handled without testing whether it saw packets: " + pl
				}
			}
		}
		r.Check(rule, "transferAndAggregate:"+ver+":emit-reset-or-delete", p.Rel(loop.Pos()), ok && bad == "", bad)
		return false
	})
	if nLoops != 2 {
		r.Undecided(rule, "transferAndAggregate:loops", p.Rel(f.Decl.Pos()), fmt.Sprintf("%d loops over the flow maps (one per IP version expected)", nLoops))
	}
}

func c20ManagerRotate(r *core.Run, p *core.Prog) {
	const rule = "rotated-result-always-sent"
	f := r.MustFunc(rule, pkgCapture, "Manager.rotate")
	if f == nil {
		return
	}
	info := f.Info()
	sig := f.Obj.Type().(*types.Signature)
	var ch types.Object
	for i := 0; i < sig.Params().Len(); i++ {
		if _, ok := sig.Params().At(i).Type().Underlying().(*types.Chan); ok {
			ch = sig.Params().At(i)
		}
	}
	// the per-interface loop body
	var loop *ast.RangeStmt
	core.Walk(f.Decl.Body, false, func(x ast.Node) bool {
		if rs, ok := x.(*ast.RangeStmt); ok && loop == nil {
			has := false
			core.Walk(rs.Body, false, func(y ast.Node) bool {
				if c, ok := y.(*ast.CallExpr); ok && core.CallName(info, c) == pkgCapture+".Capture.rotate" {
					has = true
				}
				return true
			})
			if has {
				loop = rs
			}
		}
		return true
	})
	if loop == nil || ch == nil {
		r.Undecided(rule, "Manager.rotate:loop", p.Rel(f.Decl.Pos()), "rotation loop / write-out channel not found")
		return
	}
	wrap := &ast.BlockStmt{List: []ast.Stmt{loop}}
	g := core.NewGraph(info, wrap)
	var rot types.Object
	rotNode, sendNodes := -1, []int{}
	for id, n := range g.Nodes {
		if n == nil {
			continue
		}
		if a, ok := n.(*ast.AssignStmt); ok && len(a.Rhs) == 1 {
			if c, ok := a.Rhs[0].(*ast.CallExpr); ok && core.CallName(info, c) == pkgCapture+".Capture.rotate" {
				rot, rotNode = core.ObjOf(info, a.Lhs[0]), id
			}
		}
		if s, ok := n.(*ast.SendStmt); ok && core.ObjOf(info, s.Chan) == ch {
			sendNodes = append(sendNodes, id)
		}
	}
	if rotNode < 0 || len(sendNodes) == 0 {
		r.Check(rule, "Manager.rotate:result-sent", p.Rel(loop.Pos()), false, "rotation result is never sent to the write-out channel")
		return
	}
	// from the rotation, every path to the next iteration / loop exit passes a send of that result
	sends := core.Set(sendNodes)
	okSend := true
	detail := ""
	for _, target := range []int{core.Exit} {
		if g.Reach(rotNode, target, sends) {
			okSend = false
		}
	}
	// back edge: reaching the rotation node again without a send
	if g.ReachStrict(rotNode, rotNode, sends) {
		okSend = false
	}
	if !okSend {
		detail = "after Capture.rotate moved the interval's flows out of the flow log (and reset them) there is a path to the next interface / the end of the rotation that does not send the result to the write-out channel: that interval's traffic is neither written nor in memory"
	}
	carries := false
	for _, sn := range sendNodes {
		if rot != nil && core.MentionsObj(info, g.Nodes[sn], rot) {
			carries = true
		}
	}
	r.Check(rule, "Manager.rotate:result-sent-on-every-path", p.Rel(g.Nodes[rotNode].Pos()), okSend && carries, orStr(detail, "the value sent must carry the rotation result"))
}

func c20FlowCounters(r *core.Run, p *core.Prog) {
	const rule = "direction-siblings"
	type dirMap struct{ outBytes, outPkts, inBytes, inPkts bool }
	check := func(name string, assignOp bool) {
		f := r.MustFunc(rule, pkgCapture, name)
		if f == nil {
			return
		}
		info := f.Info()
		g := core.GraphOf(f)
		cases := enumTests(f.Decl.Body)
		sig := f.Obj.Type().(*types.Signature)
		pType, pSize := sig.Params().At(0), sig.Params().At(1)
		cl := func(n ast.Node, cond *bool) []ev {
			var out []ev
			if cond != nil {
				if subj, k, eq, ok := enumCond(cases, n, *cond); ok && core.ObjOf(info, subj) == pType {
					if o := core.ObjOf(info, selOrIdent(k)); o != nil && o.Name() == "PacketOutgoing" {
						out = append(out, ev{label: map[bool]string{true: "outgoing", false: "other"}[eq]})
					} else {
						out = append(out, ev{label: "tests-other-type"})
					}
				}
				return out
			}
			core.Walk(n, false, func(x ast.Node) bool {
				switch st := x.(type) {
				case *ast.KeyValueExpr:
					if id, ok := st.Key.(*ast.Ident); ok {
						if fv, ok := info.Uses[id].(*types.Var); ok && fv.IsField() {
							l := "field:" + fv.Name()
							if core.MentionsObj(info, resolveLocal(info, f.Decl.Body, st.Value), pSize) {
								l += ":size"
							} else if k, okc := core.ConstInt(info, st.Value); okc && k == 1 {
								l += ":one"
							}
							out = append(out, ev{label: l})
						}
					}
				case *ast.AssignStmt:
					if fv := core.SelField(info, st.Lhs[0]); fv != nil && len(st.Rhs) == 1 {
						l := "field:" + fv.Name()
						if core.MentionsObj(info, resolveLocal(info, f.Decl.Body, st.Rhs[0]), pSize) && (st.Tok == token.ADD_ASSIGN) == assignOp {
							l += ":size"
						} else if k, okc := core.ConstInt(info, st.Rhs[0]); okc && k == 1 && (st.Tok == token.ADD_ASSIGN) == assignOp {
							l += ":one"
						}
						out = append(out, ev{label: l})
					}
				case *ast.IncDecStmt:
					if fv := core.SelField(info, st.X); fv != nil && st.Tok == token.INC {
						out = append(out, ev{label: "field:" + fv.Name() + ":one"})
					}
				}
				return true
			})
			return out
		}
		ts, ok := traces(f, g, cl, 2000)
		if !ok {
			r.Undecided(rule, name+":paths", p.Rel(f.Decl.Pos()), "too many paths")
			return
		}
		bad, nOut, nIn := "", 0, 0
		for _, t := range ts {
			if t.has("outgoing") && t.has("other") {
				continue
			}
			var fields []string
			for _, e := range t.evs {
				if strings.HasPrefix(e.label, "field:") {
					fields = append(fields, strings.TrimPrefix(e.label, "field:"))
				}
			}
			sort.Strings(fields)
			got := strings.Join(fields, ",")
			pl := pathLines(p, g, t.path)
			switch {
			case t.has("outgoing"):
				nOut++
				if got != "BytesSent:size,PacketsSent:one" {
					bad = fmt.Sprintf("an outgoing packet must add its size to BytesSent and one to PacketsSent (only); found [%s] on %s", got, pl)
				}
			case t.has("other"):
				nIn++
				if got != "BytesRcvd:size,PacketsRcvd:one" {
					bad = fmt.Sprintf("a packet that is not outgoing must add its size to BytesRcvd and one to PacketsRcvd (only); found [%s] on %s", got, pl)
				}
			default:
				bad = "counters are updated without the packet direction (pktType == capture.PacketOutgoing) having been tested: " + pl
			}
		}
		r.Check(rule, name+":outgoing-counts-as-sent", p.Rel(f.Decl.Pos()), bad == "" && nOut > 0 && nIn > 0, bad)
	}
	check("NewFlow", false)
	check("Flow.UpdateFlow", true)
	// Reset clears every field
	if f := r.MustFunc(rule, pkgCapture, "Flow.Reset"); f != nil {
		info := f.Info()
		T := p.Type(pkgCapture, "Flow")
		zeroed := map[string]bool{}
		core.Walk(f.Decl.Body, false, func(x ast.Node) bool {
			if a, ok := x.(*ast.AssignStmt); ok && len(a.Lhs) == 1 {
				if fv := core.SelField(info, a.Lhs[0]); fv != nil {
					if k, okc := core.ConstInt(info, a.Rhs[0]); okc && k == 0 {
						zeroed[fv.Name()] = true
					}
				}
			}
			return true
		})
		if T != nil {
			for _, fld := range structFields(T) {
				r.Check("field-coverage", "Flow.Reset:field:"+fld.Name(), p.Rel(f.Decl.Pos()), zeroed[fld.Name()], "Reset leaves "+fld.Name()+" untouched: the next interval starts with stale traffic")
			}
		}
	}
}

func c20KeyProjection(r *core.Run, p *core.Prog) {
	const rule = "key-projection-layout"
	for _, v := range []struct {
		name string
		ver  string
		ip   int64
	}{{"Key.PutV4String", "V4", 4}, {"Key.PutV6String", "V6", 16}} {
		f := r.MustFunc(rule, "pkg/types", v.name)
		if f == nil {
			continue
		}
		info := f.Info()
		get := func(n string) int64 { x, _ := constI(p, pkgCT, "EPHash"+v.ver+n); return x }
		var srcRanges [][2]int64
		var dstRanges [][2]int64
		okShape := true
		core.Walk(f.Decl.Body, false, func(x ast.Node) bool {
			c, ok := x.(*ast.CallExpr)
			if !ok || core.CallName(info, c) != "builtin.copy" || len(c.Args) != 2 {
				return true
			}
			d, ok1 := ast.Unparen(c.Args[0]).(*ast.SliceExpr)
			s, ok2 := ast.Unparen(c.Args[1]).(*ast.SliceExpr)
			if !ok1 || !ok2 {
				okShape = false
				return true
			}
			dl, a1 := core.ConstInt(info, d.Low)
			dh, a2 := core.ConstInt(info, d.High)
			sl, a3 := core.ConstInt(info, s.Low)
			sh, a4 := core.ConstInt(info, s.High)
			if !(a1 && a2 && a3 && a4) {
				okShape = false
				return true
			}
			srcRanges = append(srcRanges, [2]int64{sl, sh})
			dstRanges = append(dstRanges, [2]int64{dl, dh})
			return true
		})
		size, _ := constI(p, pkgCT, "EPHashSize"+v.ver)
		okSrc := okShape && len(srcRanges) == 2 &&
			srcRanges[0] == [2]int64{get("SipStart"), get("SipEnd")} &&
			srcRanges[1] == [2]int64{get("DipStart"), size}
		// destination: key layout sip | dip | dport | proto (widths ip, ip, 2, 1), contiguous from 0
		okDst := okShape && len(dstRanges) == 2 && dstRanges[0] == [2]int64{0, v.ip} && dstRanges[1] == [2]int64{v.ip, 2*v.ip + 3}
		r.Check(rule, v.name+":copies-sip-and-dip-dport-proto", p.Rel(f.Decl.Pos()), okSrc,
			fmt.Sprintf("the stored key must take [sip] = hash[%d:%d] and [dip|dport|proto] = hash[%d:%d] and nothing else (the source port hash[%d:%d] is aggregated away); found %v", get("SipStart"), get("SipEnd"), get("DipStart"), size, get("SPortStart"), get("SPortEnd"), srcRanges))
		r.Check(rule, v.name+":fills-key-contiguously", p.Rel(f.Decl.Pos()), okDst, fmt.Sprintf("destination ranges in the key: %v (want [0,%d) and [%d,%d))", dstRanges, v.ip, v.ip, 2*v.ip+3))
	}
}

func c20DBData(r *core.Run, p *core.Prog) {
	const rule = "column-append-once"
	f := r.MustFunc(rule, pkgGoDB, "dbData")
	if f == nil {
		return
	}
	info := f.Info()
	// innermost loop over a flow list: `for _, flow := range list`
	var loop *ast.RangeStmt
	core.Walk(f.Decl.Body, false, func(x ast.Node) bool {
		if rs, ok := x.(*ast.RangeStmt); ok && rs.Value != nil {
			if strings.HasSuffix(core.TypeName(info.TypeOf(rs.X)), "hashmap.List") {
				loop = rs
			}
		}
		return true
	})
	if loop == nil {
		r.Undecided(rule, "dbData:flow-loop", p.Rel(f.Decl.Pos()), "no loop over a flow list")
		return
	}
	flow := core.ObjOf(info, loop.Value)
	appends := map[string]int{}
	sources := map[string]string{}
	summed := 0
	hasBranch := false
	core.Walk(loop.Body, false, func(x ast.Node) bool {
		switch s := x.(type) {
		case *ast.IfStmt, *ast.BranchStmt, *ast.SwitchStmt:
			hasBranch = true
		case *ast.AssignStmt:
			if len(s.Lhs) == 1 && len(s.Rhs) == 1 {
				if c, ok := s.Rhs[0].(*ast.CallExpr); ok && core.CallName(info, c) == "builtin.append" && len(c.Args) == 2 && core.Str(c.Args[0]) == core.Str(s.Lhs[0]) {
					appends[core.Str(s.Lhs[0])]++
					sources[core.Str(s.Lhs[0])] = core.Str(c.Args[1])
					if !core.MentionsObj(info, c.Args[1], flow) {
						sources[core.Str(s.Lhs[0])] += " (not from the flow)"
					}
				}
			}
		case *ast.CallExpr:
			if core.CallName(info, s) == "pkg/types.Counters.Add" {
				summed++
			}
		}
		return true
	})
	want := map[string]string{
		"dbData[types.DportColIdx]": "GetDport", "dbData[types.ProtoColIdx]": "GetProto", "dbData[types.SIPColIdx]": "GetSIP", "dbData[types.DIPColIdx]": "GetDIP",
	}
	for tgt, getter := range want {
		r.Check(rule, "dbData:"+tgt, p.Rel(loop.Pos()), appends[tgt] == 1 && strings.Contains(sources[tgt], getter),
			fmt.Sprintf("each flow must append exactly one entry to %s taken from %s(); appended %d times from %s", tgt, getter, appends[tgt], sources[tgt]))
	}
	nCounters := 0
	for tgt, n := range appends {
		if _, isAttr := want[tgt]; isAttr {
			continue
		}
		nCounters++
		fieldOK := false
		for _, cf := range counterFields {
			if strings.HasSuffix(sources[tgt], "."+cf) {
				fieldOK = true
			}
		}
		r.Check(rule, "dbData:counter-list:"+tgt, p.Rel(loop.Pos()), n == 1 && fieldOK, fmt.Sprintf("appended %d times from %s", n, sources[tgt]))
	}
	r.Check(rule, "dbData:four-counter-lists", p.Rel(loop.Pos()), nCounters == 4 && summed == 1 && !hasBranch,
		fmt.Sprintf("per flow: one entry in each of the four counter lists (found %d lists), one addition to the block summary (found %d), unconditionally (branch in loop body: %v) — otherwise columns of one block get different lengths", nCounters, summed, hasBranch))
	// the packed columns come from the matching lists
	packs := map[string]string{}
	core.Walk(f.Decl.Body, false, func(x ast.Node) bool {
		if a, ok := x.(*ast.AssignStmt); ok && len(a.Lhs) == 1 && len(a.Rhs) == 1 {
			if c, ok := a.Rhs[0].(*ast.CallExpr); ok && strings.HasSuffix(core.CallName(info, c), "bitpack.Pack") && len(c.Args) == 1 {
				packs[core.Str(a.Lhs[0])] = sources[core.Str(c.Args[0])]
			}
		}
		return true
	})
	for _, cf := range counterFields {
		src := packs["dbData[types."+cf+"ColIdx]"]
		r.Check(rule, "dbData:column:"+cf, p.Rel(f.Decl.Pos()), strings.HasSuffix(src, "."+cf), fmt.Sprintf("column %sColIdx is packed from the list filled with %q", cf, src))
	}
}

// c20Lookup: addToFlowLogV4/V6 update an existing flow under either orientation before inserting a new one.
func c20Lookup(r *core.Run, p *core.Prog) {
	const rule = "both-orientations-looked-up"
	for _, v := range []string{"V4", "V6"} {
		f := r.MustFunc(rule, pkgCapture, "Capture.addToFlowLog"+v)
		if f == nil {
			continue
		}
		info := f.Info()
		g := core.GraphOf(f)
		cl := func(n ast.Node, cond *bool) []ev {
			var out []ev
			if a, ok := n.(*ast.AssignStmt); ok && len(a.Lhs) == 2 && len(a.Rhs) == 1 {
				if ix, ok := ast.Unparen(a.Rhs[0]).(*ast.IndexExpr); ok && strings.Contains(core.Str(ix.X), "flowMap"+v) {
					if strings.Contains(core.Str(ix.Index), "Reverse") {
						out = append(out, ev{label: "lookup-rev"})
					} else {
						out = append(out, ev{label: "lookup-fwd"})
					}
				}
			}
			for _, c := range core.Calls(n, false) {
				switch core.CallName(info, c) {
				case pkgCapture + ".Flow.UpdateFlow":
					out = append(out, ev{label: "update"})
				case pkgCapture + ".NewFlow":
					out = append(out, ev{label: "insert"})
				}
			}
			return out
		}
		ts, ok := traces(f, g, cl, 5000)
		bad := ""
		if ok {
			for _, t := range ts {
				n := t.count("update") + t.count("insert")
				if n != 1 {
					bad = fmt.Sprintf("a packet is counted %d times: %s", n, pathLines(p, g, t.path))
				}
				if t.has("insert") && (!t.has("lookup-rev") || !t.has("lookup-fwd")) {
					bad = "a new flow is inserted without both the packet's own key and the reversed key having been looked up: both directions of a conversation would get separate flows: " + pathLines(p, g, t.path)
				}
			}
		}
		r.Check(rule, "addToFlowLog"+v, p.Rel(f.Decl.Pos()), ok && bad == "", bad)
	}
}
