package props

import (
	"fmt"
	"go/ast"
	"go/types"
	"strings"

	"gpverif/core"
)

// relockHazards: sync.Mutex / sync.RWMutex are not reentrant; a second RLock by the goroutine that already holds a read
// lock deadlocks as soon as a writer arrives in between (the writer waits for the first reader, the second RLock waits
// for the writer). For every lock acquisition x.Lock() / x.RLock() on a value of a module type T that carries the mutex,
// the region up to the matching unlock is searched for
//   (a) calls of methods of T on the same x that themselves lock the receiver, and
//   (b) x being handed — directly or through a module helper that forwards its parameter — to a function outside the
//       module (loggers, formatters, encoders) while T has a LogValue / String / Error / MarshalJSON / MarshalText /
//       Format / GoString method that locks the receiver: those are invoked on the value by the callee.
// The region is path-based: nodes reachable from the acquisition without passing the release of the same x.
func relockHazards(p *core.Prog, info *types.Info, body *ast.BlockStmt) []string {
	var out []string
	g := core.NewGraph(info, body)
	mutexMethod := func(c *ast.CallExpr) (recv ast.Expr, name string) {
		rx, m := core.MethodCall(info, c)
		if rx == nil {
			return nil, ""
		}
		switch m {
		case "Lock", "RLock", "Unlock", "RUnlock":
		default:
			return nil, ""
		}
		if fo, _ := core.Callee(info, c).(*types.Func); fo == nil || fo.Pkg() == nil || fo.Pkg().Path() != "sync" {
			return nil, ""
		}
		return rx, m
	}
	namedOf := func(t types.Type) *types.Named {
		if pt, ok := t.(*types.Pointer); ok {
			t = pt.Elem()
		}
		n, _ := t.(*types.Named)
		return n
	}
	// methods of T that lock their receiver (directly)
	lockingMethods := func(T *types.Named) map[string]bool {
		res := map[string]bool{}
		for i := 0; i < T.NumMethods(); i++ {
			fn := p.FnOf(T.Method(i))
			if fn == nil || fn.Decl.Recv == nil || len(fn.Decl.Recv.List) == 0 || len(fn.Decl.Recv.List[0].Names) == 0 {
				continue
			}
			ro := fn.Info().Defs[fn.Decl.Recv.List[0].Names[0]]
			for _, c := range core.Calls(fn.Decl.Body, true) {
				rx, m := core.MethodCall(fn.Info(), c)
				if rx != nil && (m == "Lock" || m == "RLock") && core.ObjOf(fn.Info(), ast.Unparen(rx)) == ro && ro != nil {
					if fo, _ := core.Callee(fn.Info(), c).(*types.Func); fo != nil && fo.Pkg() != nil && fo.Pkg().Path() == "sync" {
						res[T.Method(i).Name()] = true
					}
				}
			}
		}
		return res
	}
	implicit := []string{"LogValue", "String", "Error", "MarshalJSON", "MarshalText", "Format", "GoString"}
	// does the module function fo hand its k-th parameter to a function outside the module?
	var forwards func(fo *types.Func, k int, depth int) bool
	forwards = func(fo *types.Func, k int, depth int) bool {
		fn := p.FnOf(fo)
		if fn == nil || depth > 2 {
			return false
		}
		sig := fo.Type().(*types.Signature)
		if k >= sig.Params().Len() {
			return false
		}
		po := sig.Params().At(k)
		hi := fn.Info()
		for _, c := range core.Calls(fn.Decl.Body, true) {
			for ai, a := range c.Args {
				if core.ObjOf(hi, ast.Unparen(a)) != types.Object(po) {
					continue
				}
				co, _ := core.Callee(hi, c).(*types.Func)
				if co == nil || p.FnOf(co) == nil {
					return true // dynamic or outside the module
				}
				if forwards(co, ai, depth+1) {
					return true
				}
			}
		}
		return false
	}
	for id, n := range g.Nodes {
		if n == nil {
			continue
		}
		if _, isDefer := n.(*ast.DeferStmt); isDefer {
			continue
		}
		for _, c := range core.Calls(n, false) {
			rx, m := mutexMethod(c)
			if rx == nil || (m != "Lock" && m != "RLock") {
				continue
			}
			T := namedOf(info.TypeOf(rx))
			if T == nil || T.Obj().Pkg() == nil || !strings.HasPrefix(T.Obj().Pkg().Path(), core.ModPath) {
				continue
			}
			xs := core.Str(ast.Unparen(rx))
			lm := lockingMethods(T)
			// region: reachable from the acquisition without passing a release of the same x
			release := map[int]bool{}
			for rid, rn := range g.Nodes {
				if rn == nil {
					continue
				}
				if _, isDefer := rn.(*ast.DeferStmt); isDefer {
					continue
				}
				for _, rc := range core.Calls(rn, false) {
					if rrx, rm := mutexMethod(rc); rrx != nil && (rm == "Unlock" || rm == "RUnlock") && core.Str(ast.Unparen(rrx)) == xs {
						release[rid] = true
					}
				}
			}
			for nid, nn := range g.Nodes {
				if nn == nil || nid == id || release[nid] || !g.Reach(id, nid, release) {
					continue
				}
				for _, cc := range core.Calls(nn, false) {
					if crx, cm := core.MethodCall(info, cc); crx != nil && core.Str(ast.Unparen(crx)) == xs && lm[cm] {
						if co, _ := core.Callee(info, cc).(*types.Func); co != nil && p.FnOf(co) != nil {
							out = append(out, fmt.Sprintf("%s: %s.%s() locks %s again while it is held since %s", p.Rel(cc.Pos()), xs, cm, xs, p.Rel(c.Pos())))
						}
					}
					for ai, a := range cc.Args {
						if core.Str(ast.Unparen(a)) != xs {
							continue
						}
						co, _ := core.Callee(info, cc).(*types.Func)
						handed := co == nil || p.FnOf(co) == nil || forwards(co, ai, 0)
						if !handed {
							continue
						}
						for _, im := range implicit {
							if lm[im] {
								out = append(out, fmt.Sprintf("%s: %s is handed to %s while its lock is held since %s, and %s.%s() — invoked on it by loggers / formatters — locks it again: a writer arriving in between blocks both for good", p.Rel(cc.Pos()), xs, core.CallName(info, cc), p.Rel(c.Pos()), T.Obj().Name(), im))
							}
						}
					}
				}
			}
		}
	}
	return out
}

// relockHazardsIn applies relockHazards to a function and to every function literal in it.
func relockHazardsIn(p *core.Prog, fn *core.Fn) []string {
	out := relockHazards(p, fn.Info(), fn.Decl.Body)
	core.Walk(fn.Decl.Body, true, func(x ast.Node) bool {
		if fl, ok := x.(*ast.FuncLit); ok {
			out = append(out, relockHazards(p, fn.Info(), fl.Body)...)
		}
		return true
	})
	return out
}
