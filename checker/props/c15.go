package props

import (
	"fmt"
	"go/ast"
	"go/token"
	"go/types"
	"strings"

	"gpverif/core"
)

func init() { register("C15", c15) }

const pkgDist = "cmd/global-query/pkg/distributed"

// accumulatorExceptions: last-writer-wins assignments that are order-insensitive for a stated reason.
var accumulatorExceptions = map[string]string{
	"Query": "every host answers the same query arguments: the value is identical for all results",
}

func c15(r *core.Run) {
	r.Expl = "C15 (distributed results independent of reply order): decides accumulator discipline — in aggregateSingleResult (called once per arriving host result) every write to the aggregate (finalResult, row map, interface set) is classified: commutative update (+=, .Add, Merge, set insertion, maps.Copy), min/max under a comparison of accumulator and item, recomputation from accumulator state only, or plain last-writer-wins assignment of an item-derived value; the last kind must be in a frozen exception table with a reason; a failed host is recorded with SetErr before returning and contributes nothing else; (2) the final finalizeResult is deferred unconditionally in aggregateResults, and finalizeResult rebuilds the rows from the row map on every path on which the map is non-empty (sorted, before post-processing and truncation), so the last partial result equals the non-streaming result; Result.End can replace an 'empty' verdict once rows are present; (3) each querier worker emits exactly one result per workload, with the host name set, also on error; (4) Stats.Add / Counters.Add cover every field. NOT decided: equality over all permutations as executed; the hit-count arithmetic; what remote hosts return."
	r.Floor = 18
	r.Rules = append(r.Rules, "accumulator-discipline (P15)", "finalize-path-rule (P1/P2)", "one-result-per-workload (P2)", "field-coverage")
	p := r.Prog("cgo")
	c15Accumulator(r, p)
	c15Finalize(r, p)
	c15Querier(r, p)
	ruleAccumulate(r, p, "pkg/types/workload", "Stats.Add", token.ADD_ASSIGN)
	ruleAccumulate(r, p, "pkg/types", "Counters.Add", token.ADD_ASSIGN)
}

func c15Accumulator(r *core.Run, p *core.Prog) {
	const rule = "accumulator-discipline"
	f := r.MustFunc(rule, pkgDist, "aggregateSingleResult")
	if f == nil {
		return
	}
	info := f.Info()
	sig := f.Obj.Type().(*types.Signature)
	var item, acc types.Object
	accs := map[types.Object]bool{}
	for i := 0; i < sig.Params().Len(); i++ {
		pr := sig.Params().At(i)
		switch pr.Name() {
		case "qr":
			item = pr
		case "finalResult":
			acc = pr
			accs[pr] = true
		case "rowMap", "ifaceMap":
			accs[pr] = true
		}
	}
	if item == nil || acc == nil {
		// fall back on types: first *results.Result is the item, second the accumulator
		n := 0
		for i := 0; i < sig.Params().Len(); i++ {
			if strings.HasSuffix(core.TypeName(sig.Params().At(i).Type()), "results.Result") {
				if n == 0 {
					item = sig.Params().At(i)
				} else {
					acc = sig.Params().At(i)
					accs[acc] = true
				}
				n++
			}
		}
	}
	if item == nil || acc == nil {
		r.Undecided(rule, "aggregateSingleResult:parameters", p.Rel(f.Decl.Pos()), "item / accumulator parameters not identified")
		return
	}
	// aliases of the item: res := qr
	items := map[types.Object]bool{item: true}
	core.Walk(f.Decl.Body, false, func(x ast.Node) bool {
		if a, ok := x.(*ast.AssignStmt); ok && len(a.Lhs) == 1 && len(a.Rhs) == 1 && items[core.ObjOf(info, a.Rhs[0])] {
			if o := core.ObjOf(info, a.Lhs[0]); o != nil {
				items[o] = true
			}
		}
		return true
	})
	rootOf := func(e ast.Expr) types.Object {
		for {
			switch x := ast.Unparen(e).(type) {
			case *ast.SelectorExpr:
				e = x.X
			case *ast.IndexExpr:
				e = x.X
			case *ast.StarExpr:
				e = x.X
			case *ast.UnaryExpr:
				e = x.X // &acc.Field handed to a helper and written through
			default:
				return core.ObjOf(info, e)
			}
		}
	}
	// locals that name a part of the item (any copy) or of the accumulator (only true aliases: `&acc.X`, or a value of
	// pointer / map / slice type) — e.g. the parameters of an expanded helper `extend(&acc.Summary.TimeRange, item.Summary.TimeRange)`
	for changed := true; changed; {
		changed = false
		core.Walk(f.Decl.Body, false, func(x ast.Node) bool {
			a, ok := x.(*ast.AssignStmt)
			if !ok || a.Tok != token.DEFINE || len(a.Lhs) != len(a.Rhs) {
				return true
			}
			for k := range a.Lhs {
				o := core.ObjOf(info, a.Lhs[k])
				if o == nil || items[o] || accs[o] {
					continue
				}
				if _, isCall := ast.Unparen(a.Rhs[k]).(*ast.CallExpr); isCall {
					continue
				}
				root := rootOf(a.Rhs[k])
				switch {
				case items[root]:
					items[o], changed = true, true
				case accs[root]:
					alias := false
					if u, ok := ast.Unparen(a.Rhs[k]).(*ast.UnaryExpr); ok && u.Op == token.AND {
						alias = true
					}
					if t := info.TypeOf(a.Rhs[k]); t != nil {
						switch t.Underlying().(type) {
						case *types.Pointer, *types.Map, *types.Slice:
							alias = true
						}
					}
					if alias {
						accs[o], changed = true, true
					}
				}
			}
			return true
		})
	}
	parents := core.Parents(f.Decl.Body)
	n := 0
	core.Walk(f.Decl.Body, false, func(x ast.Node) bool {
		a, ok := x.(*ast.AssignStmt)
		if !ok {
			return true
		}
		for i, l := range a.Lhs {
			root := rootOf(l)
			if !accs[root] || root == nil {
				continue
			}
			if _, isIdent := ast.Unparen(l).(*ast.Ident); isIdent {
				continue
			}
			n++
			what := core.Str(l)
			fieldName := what[strings.LastIndex(what, ".")+1:]
			key := "aggregateSingleResult:write:" + strings.TrimPrefix(what, root.Name()+".")
			var rhs ast.Expr
			if i < len(a.Rhs) {
				rhs = a.Rhs[i]
			} else if len(a.Rhs) == 1 {
				rhs = a.Rhs[0]
			}
			switch {
			case a.Tok != token.ASSIGN && a.Tok != token.DEFINE:
				r.Check(rule, key, p.Rel(a.Pos()), a.Tok == token.ADD_ASSIGN, "compound update "+a.Tok.String()+" (only += is order-insensitive)")
			case rhs != nil && !mentionsAny(info, rhs, items):
				r.Check(rule, key, p.Rel(a.Pos()), true, "recomputed from accumulator state")
			case rhs != nil && helperRecomputesFromAccumulator(p, info, rhs, accs):
				r.Check(rule, key, p.Rel(a.Pos()), true, "recomputed from accumulator state by a helper that only inserts the item's values into a set")
			default:
				// plain assignment of an item-derived value: min/max under comparison, set insertion, or exception
				if _, isIdx := ast.Unparen(l).(*ast.IndexExpr); isIdx {
					if cl, ok := ast.Unparen(rhs).(*ast.CompositeLit); ok && len(cl.Elts) == 0 {
						r.Check(rule, key, p.Rel(a.Pos()), true, "set insertion")
						continue
					}
				}
				guarded := false
				for pn := parents[ast.Node(a)]; pn != nil; pn = parents[pn] {
					if ifs, ok := pn.(*ast.IfStmt); ok {
						cs := core.Str(ifs.Cond)
						if strings.Contains(cs, "."+fieldName) && mentionsAny(info, ifs.Cond, items) && mentionsAny(info, ifs.Cond, accs) &&
							(strings.Contains(cs, ".Before(") || strings.Contains(cs, ".After(") || strings.Contains(cs, "<") || strings.Contains(cs, ">")) {
							guarded = true
						}
					}
				}
				if guarded {
					r.Check(rule, key, p.Rel(a.Pos()), true, "min/max under comparison")
					continue
				}
				reason, exc := accumulatorExceptions[fieldName]
				r.Check(rule, key, p.Rel(a.Pos()), exc,
					orStr(map[bool]string{true: "frozen exception: " + reason}[exc], fmt.Sprintf("%s = %s: the aggregate keeps whatever the host that replied last reported, so the merged result depends on the order in which hosts reply", what, core.Str(rhs))))
			}
		}
		return true
	})
	if n < 5 {
		r.Undecided(rule, "aggregateSingleResult:writes", p.Rel(f.Decl.Pos()), fmt.Sprintf("only %d writes to the aggregate recognised", n))
	}
	// commutative calls present: MergeRows, Totals.Add, Stats.Add, maps.Copy of HostsStatuses
	calls := map[string]bool{}
	for _, c := range core.Calls(f.Decl.Body, false) {
		calls[core.CallName(info, c)] = true
	}
	for _, must := range []string{pkgResults + ".RowsMap.MergeRows", "pkg/types.Counters.Add", "pkg/types/workload.Stats.Add", "maps.Copy"} {
		r.Check(rule, "aggregateSingleResult:merges-with:"+must[strings.LastIndex(must, "/")+1:], p.Rel(f.Decl.Pos()), calls[must], "rows, totals, statistics and host statuses of every result must be merged with "+must)
	}
	// failed host: on every path on which the item's Err() is non-nil, SetErr(host, …) is called and nothing is merged
	okErr := false
	{
		g := core.GraphOf(f)
		var errVar types.Object
		isErrCall := func(e ast.Expr) bool {
			c, ok := ast.Unparen(e).(*ast.CallExpr)
			if !ok {
				return false
			}
			_, m := core.MethodCall(info, c)
			return m == "Err" && len(c.Args) == 0
		}
		cl := func(n ast.Node, cond *bool) []ev {
			var out []ev
			if a, ok := n.(*ast.AssignStmt); ok && len(a.Lhs) == 1 && len(a.Rhs) == 1 && isErrCall(a.Rhs[0]) {
				errVar = core.ObjOf(info, a.Lhs[0])
			}
			if cond != nil {
				if x, y, eq, ok := eqTest(n.(ast.Expr), *cond); ok && core.IsNil(info, y) && (isErrCall(x) || (errVar != nil && core.ObjOf(info, x) == errVar)) {
					out = append(out, ev{label: map[bool]string{true: "noerr", false: "haserr"}[eq]})
				}
			}
			for _, c := range core.Calls(n, false) {
				switch cn := core.CallName(info, c); {
				case cn == pkgResults+".HostsStatuses.SetErr" && len(c.Args) == 2 && strings.HasSuffix(core.Str(c.Args[0]), ".Hostname"):
					out = append(out, ev{label: "seterr"})
				case cn == pkgResults+".RowsMap.MergeRows" || cn == "pkg/types.Counters.Add" || cn == "pkg/types/workload.Stats.Add":
					out = append(out, ev{label: "merge"})
				}
			}
			return out
		}
		for _, n := range g.Nodes { // learn errVar before enumerating
			if n != nil {
				cl(n, nil)
			}
		}
		if ts, ok := traces(f, g, cl, 20000); ok {
			nErr := 0
			okErr = true
			for _, t := range ts {
				if t.has("haserr") {
					nErr++
					if !t.has("seterr") || t.has("merge") {
						okErr = false
					}
				}
			}
			okErr = okErr && nErr > 0
		}
	}
	r.Check(rule, "aggregateSingleResult:failed-host-recorded", p.Rel(f.Decl.Pos()), okErr, "a result carrying an error must be recorded with HostsStatuses.SetErr(host, err) and contribute nothing else")
}

func c15Finalize(r *core.Run, p *core.Prog) {
	const rule = "finalize-path-rule"
	if f := r.MustFunc(rule, pkgDist, "aggregateResults"); f != nil {
		info := f.Info()
		okDefer := false
		for _, st := range f.Decl.Body.List {
			if d, ok := st.(*ast.DeferStmt); ok {
				for _, c := range core.Calls(d, true) {
					if core.CallName(info, c) == pkgDist+".finalizeResult" {
						okDefer = true
					}
				}
			}
		}
		// the final result of a streaming query equals that of the plain query: the row limit handed to the final (deferred)
		// finalizeResult must not depend on whether a stream sender exists, nor on the cap for partial results
		var sendParam types.Object
		fsig := f.Obj.Type().(*types.Signature)
		for i := 0; i < fsig.Params().Len(); i++ {
			if strings.Contains(core.TypeName(fsig.Params().At(i).Type()), "sse.Sender") || fsig.Params().At(i).Name() == "send" {
				sendParam = fsig.Params().At(i)
			}
		}
		tainted := func(e ast.Node) string {
			why := ""
			core.Walk(e, true, func(x ast.Node) bool {
				if id, ok := x.(*ast.Ident); ok {
					if sendParam != nil && info.Uses[id] == sendParam {
						why = "depends on the stream sender"
					}
					if id.Name == "maxLimitStreaming" {
						why = "is capped by the limit for partial streaming results"
					}
				}
				return true
			})
			return why
		}
		badLimit := ""
		parents := core.Parents(f.Decl.Body)
		for _, st := range f.Decl.Body.List {
			d, ok := st.(*ast.DeferStmt)
			if !ok {
				continue
			}
			for _, c := range core.Calls(d, true) {
				if core.CallName(info, c) != pkgDist+".finalizeResult" || len(c.Args) == 0 {
					continue
				}
				lim := c.Args[len(c.Args)-1]
				if w := tainted(lim); w != "" {
					badLimit = "the limit of the final result " + w
				}
				if o, isVar := core.ObjOf(info, lim).(*types.Var); isVar && !o.IsField() {
					// every assignment to the limit variable, and the conditions it sits under
					core.Walk(f.Decl.Body, true, func(x ast.Node) bool {
						a, ok := x.(*ast.AssignStmt)
						if !ok {
							return true
						}
						for i, l := range a.Lhs {
							if core.ObjOf(info, l) != types.Object(o) {
								continue
							}
							if i < len(a.Rhs) {
								if w := tainted(a.Rhs[i]); w != "" {
									badLimit = fmt.Sprintf("%s: the limit of the final result %s", p.Rel(a.Pos()), w)
								}
							}
							for pn := parents[ast.Node(a)]; pn != nil; pn = parents[pn] {
								if ifs, ok := pn.(*ast.IfStmt); ok {
									if w := tainted(ifs.Cond); w != "" {
										badLimit = fmt.Sprintf("%s: the limit of the final result is changed under a condition that %s", p.Rel(a.Pos()), w)
									}
								}
							}
						}
						return true
					})
				}
			}
		}
		r.Check(rule, "aggregateResults:final-limit-independent-of-streaming", p.Rel(f.Decl.Pos()), badLimit == "" && okDefer, orStr(badLimit, "the final result of a streaming query must equal the result of the same query without streaming: only partial results may be capped"))
		r.Check(rule, "aggregateResults:final-finalize-deferred", p.Rel(f.Decl.Pos()), okDefer, "the final finalizeResult must be deferred at the top level of aggregateResults so that it runs on every exit (channel closed, context cancelled)")
	}
	f := r.MustFunc(rule, pkgDist, "finalizeResult")
	if f == nil {
		return
	}
	info := f.Info()
	g := core.GraphOf(f)
	fRows := p.FieldObj(pkgResults, "Result", "Rows")
	sig := f.Obj.Type().(*types.Signature)
	var rowMap types.Object
	for i := 0; i < sig.Params().Len(); i++ {
		if strings.HasSuffix(core.TypeName(sig.Params().At(i).Type()), "results.RowsMap") {
			rowMap = sig.Params().At(i)
		}
	}
	cl := func(n ast.Node, cond *bool) []ev {
		var out []ev
		if cond != nil {
			e := ast.Unparen(n.(ast.Expr))
			// exactly `len(rowMap) == 0`
			if b, ok := e.(*ast.BinaryExpr); ok && b.Op == token.EQL {
				if la, ok := lenArg(info, b.X); ok && core.ObjOf(info, la) == rowMap {
					if k, okc := core.ConstInt(info, b.Y); okc && k == 0 {
						out = append(out, ev{label: map[bool]string{true: "map-empty", false: "map-nonempty"}[*cond]})
					}
				}
			}
		}
		if a, ok := n.(*ast.AssignStmt); ok && len(a.Lhs) == 1 && core.SelField(info, a.Lhs[0]) == fRows {
			if c, ok := ast.Unparen(a.Rhs[0]).(*ast.CallExpr); ok {
				cn := core.CallName(info, c)
				if (cn == pkgResults+".RowsMap.ToRowsSortedTo" || cn == pkgResults+".RowsMap.ToRowsSorted") && rowMap != nil {
					if rx, _ := core.MethodCall(info, c); rx != nil && core.ObjOf(info, rx) == rowMap {
						out = append(out, ev{label: "rows-rebuilt"})
					}
				}
			}
		}
		return out
	}
	ts, ok := traces(f, g, cl, 2000)
	bad, nR := "", 0
	if ok {
		for _, t := range ts {
			if t.has("rows-rebuilt") {
				nR++
				continue
			}
			if !t.has("map-empty") {
				bad = "a path leaves finalizeResult without rebuilding the rows from the row map although the map may be non-empty (the only permitted shortcut is `len(rowMap) == 0`): a host result that only merged into existing rows is then missing from the final rows: " + pathLines(p, g, t.path)
			}
		}
	}
	r.Check(rule, "finalizeResult:rows-rebuilt-unless-map-empty", p.Rel(f.Decl.Pos()), ok && bad == "" && nR > 0, bad)
	// End is deferred in finalizeResult
	okEnd := false
	for _, d := range g.Defer {
		if core.CallName(info, d.Call) == pkgResults+".Result.End" {
			okEnd = true
		}
	}
	r.Check(rule, "finalizeResult:End-deferred", p.Rel(f.Decl.Pos()), okEnd, "Result.End (duration, displayed hits, status) must run on every exit of finalizeResult")
	// Result.End: on the rows-present path the status can be replaced
	if e := r.MustFunc(rule, pkgResults, "Result.End"); e != nil {
		ei := e.Info()
		fStatus := p.FieldObj(pkgResults, "Result", "Status")
		eg := core.GraphOf(e)
		ecl := func(n ast.Node, cond *bool) []ev {
			var out []ev
			if cond != nil {
				if b, ok := core.BinOp(n.(ast.Expr), token.NEQ, token.EQL, token.GTR); ok {
					if la, ok := lenArg(ei, b.X); ok && core.SelField(ei, la) == fRows {
						has := *cond
						if b.Op == token.EQL {
							has = !has
						}
						out = append(out, ev{label: map[bool]string{true: "has-rows", false: "no-rows"}[has]})
					}
				}
			}
			if a, ok := n.(*ast.AssignStmt); ok && len(a.Lhs) == 1 && core.SelField(ei, a.Lhs[0]) == fStatus {
				out = append(out, ev{label: "status-set"})
			}
			return out
		}
		ets, ok := traces(e, eg, ecl, 2000)
		canReset, setsEmpty := false, true
		if ok {
			for _, t := range ets {
				if t.has("has-rows") && t.has("status-set") {
					canReset = true
				}
				if t.has("no-rows") && !t.has("status-set") {
					setsEmpty = false
				}
			}
		}
		r.Check(rule, "Result.End:empty-verdict-not-sticky", p.Rel(e.Decl.Pos()), ok && canReset && setsEmpty,
			"End is called after every partial result of a streaming query; it flags a result without rows as empty / missing data, so once rows are present there must be a path that replaces that verdict — otherwise the final streaming result keeps 'missing data' while the non-streaming result says 'ok'")
	}
}

func c15Querier(r *core.Run, p *core.Prog) {
	const rule = "one-result-per-workload"
	f := r.MustFunc(rule, "plugins/querier/apiclient", "APIClientQuerier.Query")
	if f == nil {
		return
	}
	info := f.Info()
	// the worker closure: contains `wl, open := <-workloads`
	var body *ast.BlockStmt
	var out types.Object
	core.Walk(f.Decl.Body, true, func(x ast.Node) bool {
		if cc, ok := x.(*ast.CommClause); ok && cc.Comm != nil {
			if a, ok := cc.Comm.(*ast.AssignStmt); ok && len(a.Lhs) == 2 && body == nil {
				body = &ast.BlockStmt{List: cc.Body}
			}
		}
		return true
	})
	core.Walk(f.Decl.Body, false, func(x ast.Node) bool {
		if a, ok := x.(*ast.AssignStmt); ok && len(a.Lhs) == 1 && len(a.Rhs) == 1 {
			if c, ok := a.Rhs[0].(*ast.CallExpr); ok && core.CallName(info, c) == "builtin.make" {
				if _, isChan := info.TypeOf(a.Lhs[0]).Underlying().(*types.Chan); isChan && out == nil {
					out = core.ObjOf(info, a.Lhs[0])
				}
			}
		}
		return true
	})
	if body == nil || out == nil {
		r.Undecided(rule, "Query:worker", p.Rel(f.Decl.Pos()), "worker receive clause / output channel not found")
		return
	}
	g := core.NewGraph(info, body)
	cl := func(n ast.Node, cond *bool) []ev {
		var o []ev
		if cond != nil {
			e := ast.Unparen(n.(ast.Expr))
			if u, ok := e.(*ast.UnaryExpr); ok && u.Op == token.NOT {
				if id, ok := ast.Unparen(u.X).(*ast.Ident); ok && id.Name == "open" {
					o = append(o, ev{label: map[bool]string{true: "closed", false: "open"}[*cond]})
				}
			}
		}
		if s, ok := n.(*ast.SendStmt); ok && core.ObjOf(info, s.Chan) == out {
			o = append(o, ev{label: "send"})
		}
		if a, ok := n.(*ast.AssignStmt); ok && len(a.Lhs) == 1 && strings.HasSuffix(core.Str(a.Lhs[0]), ".Hostname") && strings.HasSuffix(core.Str(a.Rhs[0]), ".Host") {
			o = append(o, ev{label: "hostname"})
		}
		if _, ok := n.(*ast.ReturnStmt); ok {
			o = append(o, ev{label: "return"})
		}
		return o
	}
	fake := &core.Fn{Prog: p, Pkg: f.Pkg, Decl: &ast.FuncDecl{Body: body, Name: f.Decl.Name, Type: &ast.FuncType{}}, Obj: f.Obj, Name: f.Name}
	ts, ok := traces(fake, g, cl, 2000)
	bad, nW := "", 0
	if ok {
		for _, t := range ts {
			if t.has("closed") {
				if t.has("send") {
					bad = "a result is sent although no workload was received"
				}
				continue
			}
			nW++
			if t.count("send") != 1 || !t.has("hostname") || t.first("hostname") > t.first("send") {
				bad = fmt.Sprintf("a received workload leads to %d results (hostname set first: %v): a host is missing from / duplicated in the merged result: %s", t.count("send"), t.has("hostname"), pathLines(p, g, t.path))
			}
		}
	}
	r.Check(rule, "APIClientQuerier.Query:one-result-per-host", p.Rel(f.Decl.Pos()), ok && bad == "" && nW > 0, bad)
}

// helperRecomputesFromAccumulator: rhs is a call helper(acc…, itemValue…) of a module function whose results derive only
// from its accumulator arguments; the item-derived arguments may only be inserted into an accumulator as set members
// (m[k] = struct{}{}), which is order-insensitive.
func helperRecomputesFromAccumulator(p *core.Prog, info *types.Info, rhs ast.Expr, accs map[types.Object]bool) bool {
	c, ok := ast.Unparen(rhs).(*ast.CallExpr)
	if !ok {
		return false
	}
	fo, _ := core.Callee(info, c).(*types.Func)
	h := p.FnOf(fo)
	if h == nil {
		return false
	}
	hi := h.Info()
	sig := h.Obj.Type().(*types.Signature)
	if sig.Params().Len() != len(c.Args) {
		return false
	}
	clean := map[types.Object]bool{}   // parameters bound to accumulators
	tainted := map[types.Object]bool{} // everything that carries item values
	for i, a := range c.Args {
		if o := core.ObjOf(info, a); o != nil && accs[o] {
			clean[sig.Params().At(i)] = true
		} else {
			tainted[sig.Params().At(i)] = true
		}
	}
	if len(clean) == 0 {
		return false
	}
	okShape := true
	for changed := true; changed; {
		changed = false
		mark := func(o types.Object) {
			if o != nil && !tainted[o] && !clean[o] {
				tainted[o] = true
				changed = true
			}
		}
		core.Walk(h.Decl.Body, true, func(x ast.Node) bool {
			switch st := x.(type) {
			case *ast.RangeStmt:
				if mentionsAny(hi, st.X, tainted) {
					mark(core.ObjOf(hi, st.Key))
					mark(core.ObjOf(hi, st.Value))
				}
			case *ast.AssignStmt:
				for i, l := range st.Lhs {
					var r ast.Expr
					if i < len(st.Rhs) {
						r = st.Rhs[i]
					} else if len(st.Rhs) == 1 {
						r = st.Rhs[0]
					}
					if r == nil || !mentionsAny(hi, r, tainted) && !mentionsAny(hi, l, tainted) {
						continue
					}
					if ix, ok := ast.Unparen(l).(*ast.IndexExpr); ok && clean[core.ObjOf(hi, ix.X)] {
						// insertion into the accumulator: only as a set member
						if cl, ok := ast.Unparen(r).(*ast.CompositeLit); !ok || len(cl.Elts) != 0 {
							okShape = false
						}
						continue
					}
					if mentionsAny(hi, r, tainted) {
						root := l
						for {
							if se, ok := ast.Unparen(root).(*ast.SelectorExpr); ok {
								root = se.X
								continue
							}
							if ix, ok := ast.Unparen(root).(*ast.IndexExpr); ok {
								root = ix.X
								continue
							}
							break
						}
						if o := core.ObjOf(hi, root); o != nil && clean[o] {
							okShape = false // item value stored into the accumulator other than as a set member
						} else {
							mark(o)
						}
					}
				}
			}
			return true
		})
	}
	if !okShape {
		return false
	}
	nRet := 0
	core.Walk(h.Decl.Body, false, func(x ast.Node) bool {
		if rs, ok := x.(*ast.ReturnStmt); ok {
			nRet++
			for _, res := range rs.Results {
				if mentionsAny(hi, res, tainted) {
					okShape = false
				}
			}
		}
		return true
	})
	return okShape && nRet > 0
}
