package lz4

// Probe for finding F26 (property C07): place in pkg/goDB/encoder/lz4 and run (cgo build)
//   go test -run TestF26EmptyInputHighLevel ./pkg/goDB/encoder/lz4/
// Compressing an empty input at compression level >= 10 passed a NULL source pointer to
// LZ4_compress_HC, which dereferences it: the process died with SIGSEGV.
// (Found by a sub-agent while seeding a change for C07, not by a static rule.)

import (
	"bytes"
	"testing"
)

func TestF26EmptyInputHighLevel(t *testing.T) {
	for lvl := 0; lvl <= 12; lvl++ {
		e := New(WithCompressionLevel(lvl))
		var w bytes.Buffer
		n, err := e.Compress([]byte{}, make([]byte, 0, 64), &w)
		if err != nil || n != w.Len() {
			t.Fatalf("level %d: n=%d emitted=%d err=%v", lvl, n, w.Len(), err)
		}
		out := make([]byte, 0)
		m, err := e.Decompress(make([]byte, n), out, &w)
		if err != nil || m != 0 {
			t.Fatalf("level %d: decompressing the empty frame: m=%d err=%v", lvl, m, err)
		}
	}
}
