package goDB

// Probe for finding F21a (property C25): a staging directory left behind by a killed merge is
// listed as an interface. Place in pkg/goDB and run: go test -vet=off -count=1 -run TestF21 ./pkg/goDB/

import (
	"os"
	"path/filepath"
	"testing"

	"github.com/els0r/goProbe/v4/pkg/goDB/info"
	"github.com/stretchr/testify/require"
)

func TestF21StageLeftoverIsNotAnInterface(t *testing.T) {
	db := t.TempDir()
	require.NoError(t, os.MkdirAll(filepath.Join(db, "eth0", "2024", "01"), 0o755))
	// what MergeDatabases leaves in the destination when the process is killed
	_, err := os.MkdirTemp(db, ".gpdb-merge-stage-*")
	require.NoError(t, err)

	ifaces, err := info.GetInterfaces(db)
	require.NoError(t, err)
	require.Equal(t, []string{"eth0"}, ifaces)

	src, err := listSourceInterfaces(db)
	require.NoError(t, err)
	require.Equal(t, []string{"eth0"}, src)
}
