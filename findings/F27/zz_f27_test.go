package gpfile

// Probe for finding F27 (property C30): place in pkg/goDB/storage/gpfile and run
//   go test -vet=off -run TestF27RecoveryKeepsEarlierBlocks ./pkg/goDB/storage/gpfile/
// A reader holds the block of column 0, a write-out renames the day directory, the reader then reads
// column 1 of the same block. GPDir.ReadBlockAtIndex recovered by Close() + Open(); Close() returned the
// buffers of all column files to the global pool, the freshly opened column 1 was handed the buffer the
// caller's column-0 slice points into, and the slice was overwritten with column-1 data.
// Fails before a3fc8c4, passes after. (Reported by a sub-agent while seeding a change for C30; the static rule
// buffer-ownership of C30 reports the construct on the tree before the fix.)

import (
	"bytes"
	"path/filepath"
	"testing"

	"github.com/els0r/goProbe/v4/pkg/types"
	"github.com/stretchr/testify/require"
)

func f27Block(ts int64, dir *GPDir, vals [types.ColIdxCount]byte) error {
	var data [types.ColIdxCount][]byte
	for i := range data {
		data[i] = bytes.Repeat([]byte{vals[i]}, 64)
	}
	return dir.WriteBlocks(ts, TrafficMetadata{NumV4Entries: 1}, types.Counters{BytesRcvd: 1}, data)
}

func TestF27RecoveryKeepsEarlierBlocks(t *testing.T) {
	base := t.TempDir()

	w := NewDirWriter(base, 1000)
	require.Nil(t, w.Open())
	require.Nil(t, f27Block(1, w, [types.ColIdxCount]byte{10, 11, 12, 13, 14, 15, 16, 17}))
	require.Nil(t, w.Close())

	_, fullPath := genWritePathForTimestamp(base, 1000)
	ts, suffix, err := ExtractTimestampMetadataSuffix(filepath.Base(fullPath))
	require.Nil(t, err)

	r := NewDirReader(base, ts, suffix)
	require.Nil(t, r.Open())
	col0, err := r.ReadBlockAtIndex(0, 0)
	require.Nil(t, err)
	require.Equal(t, bytes.Repeat([]byte{10}, 64), col0)

	// second write-out (renames the directory)
	w = NewDirWriter(base, 1000)
	require.Nil(t, w.Open())
	require.Nil(t, f27Block(2, w, [types.ColIdxCount]byte{20, 21, 22, 23, 24, 25, 26, 27}))
	require.Nil(t, w.Close())

	col1, err := r.ReadBlockAtIndex(1, 0)
	require.Nil(t, err)
	require.Equal(t, bytes.Repeat([]byte{11}, 64), col1)
	require.Equal(t, bytes.Repeat([]byte{10}, 64), col0, "column 0 damaged by the recovery of column 1")
	require.Nil(t, r.Close())
}
