package encoder

// Probe for finding F23a (property C06): place in pkg/goDB/encoder and run
//   go test -run TestF23EmptyCompressedInput ./pkg/goDB/encoder/
// A block whose on-disk length is recorded as 0 (damaged .blockmeta) while its raw length is
// not: the cgo decoders took &in[0] of an empty slice and the process died with an
// index-out-of-range panic (inside a query worker goroutine).

import (
	"bytes"
	"testing"

	"github.com/els0r/goProbe/v4/pkg/goDB/encoder/encoders"
)

type zeroReader struct{ r *bytes.Reader }

func (z zeroReader) Read(p []byte) (int, error) {
	if len(p) == 0 {
		return 0, nil
	}
	return z.r.Read(p)
}

func TestF23EmptyCompressedInput(t *testing.T) {
	for _, typ := range []encoders.Type{encoders.EncoderTypeLZ4, encoders.EncoderTypeZSTD} {
		enc, err := New(typ)
		if err != nil {
			t.Fatal(err)
		}
		func() {
			defer func() {
				if r := recover(); r != nil {
					t.Errorf("%v: Decompress of empty input panicked: %v", typ, r)
				}
			}()
			// like *os.File, a zero-length read succeeds with (0, nil)
			_, err := enc.Decompress([]byte{}, make([]byte, 16), zeroReader{bytes.NewReader([]byte("rest of the column file"))})
			t.Logf("%v: err=%v", typ, err)
		}()
		enc.Close()
	}
}
