package goDB

// Probe for finding F23b (property C06): place in pkg/goDB and run
//   go test -run 'TestF23' ./pkg/goDB/
// A day directory whose (well-formed) metadata lists zero blocks made the reader index an empty
// block list in GPDir.TimeRange: listing and querying the interface panicked.

import (
	"path/filepath"
	"testing"

	"github.com/els0r/goProbe/v4/pkg/goDB/storage/gpfile"
	"github.com/stretchr/testify/require"
)

func f23DB(t *testing.T) string {
	t.Helper()
	db := t.TempDir()
	w := gpfile.NewDirWriter(filepath.Join(db, "eth0"), 1700006400)
	require.NoError(t, w.Open())
	require.NoError(t, w.Close()) // metadata with nBlocks = 0
	return db
}

func TestF23ListingDayWithoutBlocks(t *testing.T) {
	db := f23DB(t)
	wm, err := NewDBWorkManager(NewMetadataQuery(), db, "eth0", 1)
	require.NoError(t, err)
	require.NotPanics(t, func() { _, _ = wm.ReadMetadata(1700006400, 1700006400+86399) })
}

func TestF23QueryingDayWithoutBlocks(t *testing.T) {
	db := f23DB(t)
	wm, err := NewDBWorkManager(NewMetadataQuery(), db, "eth0", 4)
	require.NoError(t, err)
	require.NotPanics(t, func() { _, _ = wm.CreateWorkerJobs(1700006400, 1700006400+86399) })
}
