package goDB

// Probe for finding F23c (property C06): place in pkg/goDB and run
//   go test -run 'TestF23cIPv4CountExceedsEntries' ./pkg/goDB/
// A block whose metadata claims more IPv4 entries (4) than the counter columns hold (3), with
// empty address columns: 16*3 - 12*4 = 0 satisfies the size equation, nothing flags the block and
// the evaluation loop slices the empty address column.

import (
	"path/filepath"
	"testing"

	"github.com/els0r/goProbe/v4/pkg/goDB/encoder"
	"github.com/els0r/goProbe/v4/pkg/goDB/storage/gpfile"
	"github.com/els0r/goProbe/v4/pkg/types"
	"github.com/els0r/goProbe/v4/pkg/types/hashmap"
	"github.com/fako1024/gotools/bitpack"
	"github.com/stretchr/testify/require"
)

func TestF23cIPv4CountExceedsEntries(t *testing.T) {
	db := t.TempDir()
	const ts = int64(1700006400 + 300)
	w := gpfile.NewDirWriter(filepath.Join(db, "eth0"), ts)
	require.NoError(t, w.Open())
	var data [types.ColIdxCount][]byte
	three := []uint64{1, 2, 3}
	data[types.BytesRcvdColIdx], data[types.BytesSentColIdx] = bitpack.Pack(three), bitpack.Pack(three)
	data[types.PacketsRcvdColIdx], data[types.PacketsSentColIdx] = bitpack.Pack(three), bitpack.Pack(three)
	data[types.ProtoColIdx] = []byte{6, 6, 6}
	data[types.DportColIdx] = []byte{0, 80, 0, 80, 0, 80}
	// sip / dip stay empty; the metadata claims 4 IPv4 entries
	require.NoError(t, w.WriteBlocks(ts, gpfile.TrafficMetadata{NumV4Entries: 4}, types.Counters{}, data))
	require.NoError(t, w.Close())

	sip, err := types.NewAttribute("sip")
	require.NoError(t, err)
	q := NewQuery([]types.Attribute{sip}, nil, types.LabelSelector{})
	wm, err := NewDBWorkManager(q, db, "eth0", 1)
	require.NoError(t, err)
	wm.tFirstCovered, wm.tLastCovered = ts-300, ts+300
	enc, err := encoder.New(defaultEncoderType)
	require.NoError(t, err)
	defer enc.Close()
	res := hashmap.NewAggFlowMapWithMetadata()
	require.NotPanics(t, func() {
		stats, err := wm.readBlocksAndEvaluate(gpfile.NewDirReader(filepath.Join(db, "eth0"), ts, ""), enc, &res)
		require.NoError(t, err)
		require.EqualValues(t, 1, stats.BlocksCorrupted, "the inconsistent block must be skipped and counted")
	})
}
