package node

// Probe for finding F29 (property C10): place in pkg/goDB/conditions/node and run
//   go test -vet=off -run TestF29MappedNetwork ./pkg/goDB/conditions/node/
// `snet = ::ffff:1.2.3.4/24`: conditionBytesAndNetmask decided the address family from the text (contains ':' => IPv6,
// 16 bytes, netmask up to 128) while types.IPStringToBytes decides it from the text too, but differently (contains '.'
// => IPv4, 4 bytes) and its verdict was discarded. The loop that zeroes the host bytes then indexed a 4-byte slice up to
// 15: the process panicked instead of rejecting or accepting the condition. (Reported by a sub-agent; the static rule
// parsed-int-bounds / family-decided-once of C10 reports the construct on the tree before the fix.)

import "testing"

func TestF29MappedNetwork(t *testing.T) {
	for _, v := range []string{"::ffff:1.2.3.4/24", "::1.2.3.4/16", "::ffff:10.0.0.0/8"} {
		func() {
			defer func() {
				if r := recover(); r != nil {
					t.Errorf("snet = %s: panic: %v", v, r)
				}
			}()
			_, _, _, err := conditionBytesAndNetmask(conditionNode{attribute: "snet", comparator: "=", value: v})
			t.Logf("snet = %s: err=%v", v, err)
		}()
	}
}
