package types

// Probe for finding F08 (property C17): place in pkg/types and run
//   go test -run TestF08DirectionRoundTrip ./pkg/types/

import "testing"

func TestF08DirectionRoundTrip(t *testing.T) {
	for _, d := range []Direction{DirectionUnknown, DirectionSum, DirectionIn, DirectionOut, DirectionBoth} {
		if got := DirectionFromString(d.String()); got != d {
			t.Errorf("DirectionFromString(%q) = %v, want %v", d.String(), got, d)
		}
		b, err := d.MarshalJSON()
		if err != nil {
			t.Fatal(err)
		}
		var back Direction
		if err := back.UnmarshalJSON(b); err != nil || back != d {
			t.Errorf("JSON round trip of %v gives %v (%v)", d, back, err)
		}
	}
}
