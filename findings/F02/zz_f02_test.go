package zstd

// Probe for finding F02 (properties C02, C07): place in pkg/goDB/encoder/zstd and run
//   CGO_ENABLED=0 go test -run TestF02ScratchBufferLeaksIntoOutput ./pkg/goDB/encoder/zstd/
// The pure-Go implementation passed the caller's scratch buffer (length 8192 in the storage
// layer) to EncodeAll, which appends: every block was prefixed with the scratch contents.

import (
	"bytes"
	"testing"
)

func TestF02ScratchBufferLeaksIntoOutput(t *testing.T) {
	enc := New()
	defer enc.Close()
	data := bytes.Repeat([]byte("goProbe"), 100)
	scratch := make([]byte, 8192) // what gpfile hands in: bufPool.Get(8192) has length 8192
	var w bytes.Buffer
	n, err := enc.Compress(data, scratch, &w)
	if err != nil {
		t.Fatal(err)
	}
	if n != w.Len() {
		t.Fatalf("reported %d bytes, emitted %d", n, w.Len())
	}
	if n > len(data) {
		t.Fatalf("700 highly compressible bytes became %d bytes", n)
	}
	out := make([]byte, len(data))
	in := make([]byte, n)
	m, err := enc.Decompress(in, out, &w)
	if err != nil {
		t.Fatalf("own output cannot be decoded: %v", err)
	}
	if m != len(data) || !bytes.Equal(out[:m], data) {
		t.Fatal("round trip differs")
	}
}
