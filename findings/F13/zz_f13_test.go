package engine

// Probe for finding F13 (property C16): place in pkg/goDB/engine and run
//   go test -run TestF13RepeatedNegatedInterface ./pkg/goDB/engine/

import "testing"

type f13Lister []string

func (l f13Lister) ListInterfaces() ([]string, error) { return append([]string(nil), l...), nil }

// an interface listed twice and negated: elements were removed from the slice that was being
// ranged over, the second removal sliced beyond the shortened slice and panicked.
func TestF13RepeatedNegatedInterface(t *testing.T) {
	defer func() {
		if r := recover(); r != nil {
			t.Fatalf("interface selection panicked: %v", r)
		}
	}()
	got, err := parseIfaceListWithCommaSeparatedString(f13Lister{"eth0", "eth1"}, "eth0,eth0,eth1,!eth0")
	if err != nil {
		t.Fatal(err)
	}
	if len(got) != 1 || got[0] != "eth1" {
		t.Fatalf("selected %v, want [eth1]", got)
	}
}
