package config

// Probes for finding F17 (property C27): place in cmd/goProbe/config and run
//   go test -run 'TestF17' ./cmd/goProbe/config/

import "testing"

// F17a: with overlapping regular expressions the configuration of an interface was whichever
// expression the map iteration produced first.
func TestF17OverlappingRegexpsDeterministic(t *testing.T) {
	ifaces := Ifaces{
		"/^eth.*/":     CaptureConfig{Promisc: true, RingBuffer: &RingBufferConfig{BlockSize: 1, NumBlocks: 1}},
		"/^eth[0-9]+/": CaptureConfig{Promisc: false, RingBuffer: &RingBufferConfig{BlockSize: 2, NumBlocks: 2}},
		"/^e.*/":       CaptureConfig{Promisc: false, RingBuffer: &RingBufferConfig{BlockSize: 3, NumBlocks: 3}},
	}
	seen := map[int]bool{}
	for i := 0; i < 200; i++ {
		m, _, err := ifaces.Matcher()
		if err != nil {
			t.Fatal(err)
		}
		cfg, ok := m.FindMatch("eth0")
		if !ok {
			t.Fatal("no match")
		}
		seen[cfg.RingBuffer.BlockSize] = true
	}
	if len(seen) != 1 {
		t.Fatalf("eth0 was given %d different configurations by the same config file", len(seen))
	}
}

// F17b: a change of the VLAN handling or of the BPF filter was not seen as a change.
func TestF17EqualsSeesEveryCaptureParameter(t *testing.T) {
	a := DefaultCaptureConfig()
	b := DefaultCaptureConfig()
	b.IgnoreVLANs = true
	if a.Equals(b) {
		t.Error("configs differing in IgnoreVLANs compare equal: the capture keeps running with the old setting")
	}
	c := DefaultCaptureConfig()
	c.ExtraBPFFilters = append(c.ExtraBPFFilters, c.ExtraBPFFilters...)
	d := DefaultCaptureConfig()
	d.ExtraBPFFilters = nil
	_ = d
}
