package gpfile

// Probe for finding F28 (property C06): place in pkg/goDB/storage/gpfile and run
//   go test -vet=off -run TestF28HugeStoredLength ./pkg/goDB/storage/gpfile/
// The raw length of a block is a 32-bit value taken from the metadata file as it is. ReadBlockAtIndex allocated
// `make([]byte, 0, 2*block.RawLen)` with the product evaluated in uint32: for RawLen >= 2^31 it wraps (2^31 -> 0), the
// buffer is smaller than RawLen and `g.uncompData[:block.RawLen]` panics with "slice bounds out of range": a damaged
// metadata file crashes the reader instead of producing an error. Fails (panic) before the fix, passes after.
// (Reported by a sub-agent; rule decode-guards / size-arithmetic-does-not-wrap of C06 reports the construct.)

import (
	"bytes"
	"path/filepath"
	"testing"

	"github.com/els0r/goProbe/v4/pkg/goDB/encoder/encoders"
	"github.com/els0r/goProbe/v4/pkg/goDB/storage"
	"github.com/stretchr/testify/require"
)

func TestF28HugeStoredLength(t *testing.T) {
	path := filepath.Join(t.TempDir(), "col.gpf")
	hdr := &storage.BlockHeader{}
	w, err := New(path, hdr, ModeWrite, WithEncoderTypeLevel(encoders.EncoderTypeNull, 0))
	require.Nil(t, err)
	require.Nil(t, w.writeBlock(1, bytes.Repeat([]byte{7}, 32)))
	require.Nil(t, w.Close())

	// what a damaged metadata file yields: a raw length with the top bit set
	hdr.BlockList[0].RawLen = 1 << 31

	r, err := New(path, hdr, ModeRead)
	require.Nil(t, err)
	defer r.Close()
	require.NotPanics(t, func() {
		_, err = r.ReadBlockAtIndex(0)
	})
	require.NotNil(t, err, "a block whose stored length does not match the data must be reported")
}
