package gpfile

// Probe for finding F01 (property C01): place in pkg/goDB/storage/gpfile and run
//   go test -run TestF01IncompressibleLargeBlock ./pkg/goDB/storage/gpfile/
// Incompressible data larger than the 4 KiB bufio buffer: the LZ4 attempt has
// already reached the file when writeBlock falls back to the null encoder.

import (
	"bytes"
	"math/rand"
	"testing"

	"github.com/els0r/goProbe/v4/pkg/types"
)

func TestF01IncompressibleLargeBlock(t *testing.T) {
	dir := t.TempDir()
	rng := rand.New(rand.NewSource(1))
	var data [types.ColIdxCount][]byte
	for i := range data {
		data[i] = make([]byte, 10000)
		rng.Read(data[i])
	}
	w := NewDirWriter(dir, 1700000000)
	if err := w.Open(); err != nil {
		t.Fatal(err)
	}
	if err := w.WriteBlocks(1700000000, TrafficMetadata{}, types.Counters{}, data); err != nil {
		t.Fatal(err)
	}
	if err := w.Close(); err != nil {
		t.Fatal(err)
	}
	r := NewDirReader(dir, 1700000000, "")
	if err := r.Open(); err != nil {
		t.Fatal(err)
	}
	defer r.Close()
	for i := types.ColumnIndex(0); i < types.ColIdxCount; i++ {
		got, err := r.ReadBlockAtIndex(i, 0)
		if err != nil {
			t.Fatalf("col %d: %v", i, err)
		}
		if !bytes.Equal(got, data[i]) {
			t.Fatalf("col %d: block read back differs from what was written", i)
		}
	}
}
