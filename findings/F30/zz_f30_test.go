package node

// Probe for finding F30 (property C10, recorded, not repaired): place in pkg/goDB/conditions/node and run
//   go test -vet=off -run TestF30AndNot ./pkg/goDB/conditions/node/
// conditions.SanitizeUserInput applies its conversion table by ranging over a Go map. The word forms are matched
// together with the blanks around them (`\s+and\s+`, `(^|\s+)not\s+`), so in `a and not b` the two patterns compete for
// the blank between "and" and "not": whichever the map yields first consumes it and the other no longer matches.
// The canonical form is therefore one of two strings, chosen by the map iteration order of the run — "…and!dport…" or
// "…&not dport…" — and neither parses: a condition written with two documented spellings is always rejected, with
// an error message that changes from run to run. The symbol form `a & !b` is unaffected.

import (
	"testing"
	"time"

	"github.com/els0r/goProbe/v4/pkg/goDB/conditions"
)

func TestF30AndNot(t *testing.T) {
	in := "sip = 1.2.3.4 and not dport = 80"
	forms := map[string]int{}
	rejected := 0
	for i := 0; i < 200; i++ {
		s := conditions.SanitizeUserInput(in)
		forms[s]++
		if _, _, err := ParseAndInstrument(s, time.Second); err != nil {
			rejected++
		}
	}
	t.Logf("canonical forms: %v, rejected %d/200", forms, rejected)
	if len(forms) != 1 {
		t.Errorf("the canonical form of %q depends on the map iteration order: %v", in, forms)
	}
	if rejected > 0 {
		t.Errorf("%q is rejected (%d/200) although `sip = 1.2.3.4 & !dport = 80` is accepted", in, rejected)
	}
}
