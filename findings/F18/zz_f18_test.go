package distributed

// Probes for finding F18 (property C15): place in cmd/global-query/pkg/distributed and run
//   go test -run 'TestF18' ./cmd/global-query/pkg/distributed/

import (
	"context"
	"net/netip"
	"testing"
	"time"

	"github.com/danielgtaylor/huma/v2/sse"
	"github.com/els0r/goProbe/v4/pkg/query"
	"github.com/els0r/goProbe/v4/pkg/results"
	"github.com/els0r/goProbe/v4/pkg/types"
	"github.com/els0r/goProbe/v4/pkg/types/workload"
)

func f18Host(name string, first, last int64, rows int) *results.Result {
	r := results.New()
	r.Start()
	r.Hostname = name
	r.HostsStatuses[name] = results.Status{Code: types.StatusOK}
	r.Summary.First, r.Summary.Last = time.Unix(first, 0), time.Unix(last, 0)
	r.Summary.Stats = &workload.Stats{}
	for i := 0; i < rows; i++ {
		r.Rows = append(r.Rows, results.Row{
			Labels:     results.Labels{Hostname: name},
			Attributes: results.Attributes{SrcIP: netip.MustParseAddr("10.0.0.1"), DstIP: netip.MustParseAddr("10.0.0.2"), IPProto: 6, DstPort: 80},
			Counters:   types.Counters{BytesRcvd: 1, PacketsRcvd: 1},
		})
	}
	return r
}

func f18Merge(t *testing.T, order []*results.Result, streaming bool) *results.Result {
	t.Helper()
	stmt := &query.Statement{NumResults: 100, SortBy: results.SortPackets, Direction: types.DirectionBoth}
	ch := make(chan *results.Result, len(order))
	for _, r := range order {
		ch <- r
	}
	close(ch)
	if streaming {
		return aggregateResults(context.Background(), stmt, ch, sse.Sender(func(sse.Message) error { return nil }))
	}
	return aggregateResults(context.Background(), stmt, ch, nil)
}

// F18a: the covered time range of the merged result was that of whichever host replied last.
func TestF18TimeRangeIndependentOfReplyOrder(t *testing.T) {
	a := func() *results.Result { return f18Host("a", 1000, 5000, 1) }
	b := func() *results.Result { return f18Host("b", 2000, 9000, 1) }
	ab := f18Merge(t, []*results.Result{a(), b()}, false)
	ba := f18Merge(t, []*results.Result{b(), a()}, false)
	if !ab.Summary.First.Equal(ba.Summary.First) || !ab.Summary.Last.Equal(ba.Summary.Last) {
		t.Fatalf("time range depends on reply order: [a,b] -> %v..%v, [b,a] -> %v..%v",
			ab.Summary.First.Unix(), ab.Summary.Last.Unix(), ba.Summary.First.Unix(), ba.Summary.Last.Unix())
	}
}

// F18b: a streaming query whose first reply is empty kept the "no data" status although rows followed.
func TestF18StreamingStatusEqualsNonStreaming(t *testing.T) {
	mk := func() []*results.Result {
		return []*results.Result{f18Host("a", 1000, 5000, 0), f18Host("b", 1000, 5000, 1)}
	}
	plain := f18Merge(t, mk(), false)
	stream := f18Merge(t, mk(), true)
	if plain.Status.Code != stream.Status.Code {
		t.Fatalf("final status differs: without streaming %q, with streaming %q", plain.Status.Code, stream.Status.Code)
	}
}
