package goDB

// Probe for finding F19 (property C11): place in pkg/goDB and run
//   go test -run TestF19ManyDaysFewWorkers -timeout 120s ./pkg/goDB/
// 2100 day directories and one processing unit: CreateWorkerJobs puts one workload per 32 days on a
// channel of capacity 64*units before any worker exists; the 65th send blocks forever.

import (
	"path/filepath"
	"testing"
	"time"

	"github.com/els0r/goProbe/v4/pkg/goDB/storage/gpfile"
	"github.com/els0r/goProbe/v4/pkg/types"
	"github.com/stretchr/testify/require"
)

func TestF19ManyDaysFewWorkers(t *testing.T) {
	db := t.TempDir()
	const nDays = 2100
	start := int64(946684800) // 2000-01-01
	var data [types.ColIdxCount][]byte
	for d := int64(0); d < nDays; d++ {
		ts := start + d*86400 + 300
		w := gpfile.NewDirWriter(filepath.Join(db, "eth0"), ts)
		require.NoError(t, w.Open())
		require.NoError(t, w.WriteBlocks(ts, gpfile.TrafficMetadata{}, types.Counters{}, data))
		require.NoError(t, w.Close())
	}
	wm, err := NewDBWorkManager(NewMetadataQuery(), db, "eth0", 1)
	require.NoError(t, err)
	done := make(chan error, 1)
	go func() {
		_, err := wm.CreateWorkerJobs(start, start+nDays*86400)
		done <- err
	}()
	select {
	case err := <-done:
		require.NoError(t, err)
	case <-time.After(30 * time.Second):
		t.Fatal("CreateWorkerJobs did not return within 30s: the work queue is full and no worker has been started yet")
	}
}
