package capture

// Probe for finding F11 (property C23): place in pkg/capture and run
//   go test -run TestF11BufferRecordOverlap ./pkg/capture/
// The record of an item is hash+8 bytes long (flag, hash, type, aux, errno, 4-byte size)
// but the cursor advanced by hash+7: the flag byte of the next record overwrote the top
// byte of the previous packet size.

import (
	"testing"

	"github.com/els0r/goProbe/v4/pkg/capture/capturetypes"
)

func TestF11BufferRecordOverlap(t *testing.T) {
	pool := NewLocalBufferPool(1, 1<<20)
	buf := NewLocalBuffer(pool)
	buf.Assign(make([]byte, 1<<16))
	var h4 capturetypes.EPHashV4
	var h6 capturetypes.EPHashV6
	if !buf.Add(h4[:], 1, 1500, true, 0, 0) {
		t.Fatal("add v4 refused")
	}
	if !buf.Add(h6[:], 1, 60, false, 0, 0) {
		t.Fatal("add v6 refused")
	}
	_, _, size, isV4, _, _, ok := buf.Next()
	if !ok || !isV4 {
		t.Fatal("unexpected first item")
	}
	if size != 1500 {
		t.Fatalf("packet size of first item read back as %d, want 1500", size)
	}
}
