//go:build !slimcap_nomock
// +build !slimcap_nomock

package capture

// Probe for finding F14 (property C21): place in pkg/capture and run
//   go test -run TestF14IPv6PacketBufferedDuringPause ./pkg/capture/
// An IPv6 packet that arrives while the capture is paused (three-point lock held) was put into
// the local buffer flagged as IPv4: only the first 13 bytes of its 37-byte key were kept and it
// was added to the IPv4 flow map as a bogus flow.

import (
	"net"
	"testing"

	"github.com/els0r/goProbe/v4/cmd/goProbe/config"
	"github.com/els0r/goProbe/v4/pkg/capture/capturetypes"
	"github.com/fako1024/slimcap/capture"
)

type f14Source struct {
	capture.SourceZeroCopy
	c    *Capture
	pkts []capture.Packet
}

func (s *f14Source) NextIPPacketZeroCopy() (capture.IPLayer, capture.PacketType, uint32, error) {
	if len(s.pkts) > 0 {
		pkt := s.pkts[0]
		s.pkts = s.pkts[1:]
		return pkt.IPLayer(), pkt.Type(), pkt.TotalLen(), nil
	}
	// no more traffic: the holder of the lock is done and requests the unlock
	if err := s.c.capLock.Unlock(); err != nil {
		return nil, 0, 0, err
	}
	return nil, 0, 0, capture.ErrCaptureUnblocked
}
func (s *f14Source) Unblock() error                { return nil }
func (s *f14Source) Stats() (capture.Stats, error) { return capture.Stats{}, nil }
func (s *f14Source) Close() error                  { return nil }

func TestF14IPv6PacketBufferedDuringPause(t *testing.T) {
	pkt, err := capture.BuildPacket(net.ParseIP("2001:db8::1"), net.ParseIP("2001:db8::2"), 45002, 22, capturetypes.TCP,
		make([]byte, 20), capture.PacketOutgoing, 120)
	if err != nil {
		t.Fatal(err)
	}
	c := newCapture("f14", config.CaptureConfig{}, nil)
	src := &f14Source{c: c, pkts: []capture.Packet{pkt}}
	c.SetSourceInitFn(func(*Capture) (Source, error) { return src, nil })
	pool := NewLocalBufferPool(1, config.DefaultLocalBufferSizeLimit)
	if err := c.run(pool); err != nil {
		t.Fatal(err)
	}
	buf := NewLocalBuffer(pool)
	buf.Assign(pool.Get(initialBufferSize)) // what the lock holder's request carries
	errs := make(chan error, 8)
	if err := c.bufferPackets(buf, errs); err != nil {
		t.Fatal(err)
	}
	if n4, n6 := len(c.flowLog.flowMapV4), len(c.flowLog.flowMapV6); n4 != 0 || n6 != 1 {
		t.Fatalf("one IPv6 packet buffered during the pause ended up as %d IPv4 and %d IPv6 flows", n4, n6)
	}
}
