package goDB

// Probe for finding F20 (property C08, KNOWN FINDING, not fixed): place in pkg/goDB and run
//   go test -run 'TestF20' ./pkg/goDB/
// One block with an IPv4 flow 1.2.3.4 -> 5.6.7.8:80 and an IPv6 flow 2001:db8::1 -> 2001:db8::2:80.
// The scan is pruned to one IP version whenever any leaf of the condition names an address of that
// version, even under '|' and for '!=' leaves.

import (
	"path/filepath"
	"testing"
	"time"

	"github.com/els0r/goProbe/v4/pkg/goDB/conditions/node"
	"github.com/els0r/goProbe/v4/pkg/goDB/encoder"
	"github.com/els0r/goProbe/v4/pkg/goDB/storage/gpfile"
	"github.com/els0r/goProbe/v4/pkg/types"
	"github.com/els0r/goProbe/v4/pkg/types/hashmap"
	"github.com/stretchr/testify/require"
)

func f20Count(t *testing.T, cond string) int {
	t.Helper()
	db := t.TempDir()
	const ts = int64(1700006400 + 300)
	fm := hashmap.NewAggFlowMap()
	fm.PrimaryMap.Set(types.NewV4KeyStatic([4]byte{1, 2, 3, 4}, [4]byte{5, 6, 7, 8}, []byte{0, 80}, 6), types.Counters{BytesRcvd: 1, PacketsRcvd: 1})
	v6a := [16]byte{0x20, 0x01, 0x0d, 0xb8, 15: 1}
	v6b := [16]byte{0x20, 0x01, 0x0d, 0xb8, 15: 2}
	fm.SecondaryMap.Set(types.NewV6KeyStatic(v6a, v6b, []byte{0, 80}, 6), types.Counters{BytesRcvd: 1, PacketsRcvd: 1})
	w := gpfile.NewDirWriter(filepath.Join(db, "eth0"), ts)
	require.NoError(t, w.Open())
	data, upd := dbData(fm)
	require.NoError(t, w.WriteBlocks(ts, upd.Traffic, upd.Counts, data))
	require.NoError(t, w.Close())

	n, _, err := node.ParseAndInstrument(cond, time.Second)
	require.NoError(t, err)
	sip, _ := types.NewAttribute("sip")
	q := NewQuery([]types.Attribute{sip}, n, types.LabelSelector{})
	wm, err := NewDBWorkManager(q, db, "eth0", 1)
	require.NoError(t, err)
	wm.tFirstCovered, wm.tLastCovered = ts-300, ts+300
	enc, err := encoder.New(defaultEncoderType)
	require.NoError(t, err)
	defer enc.Close()
	res := hashmap.NewAggFlowMapWithMetadata()
	_, err = wm.readBlocksAndEvaluate(gpfile.NewDirReader(filepath.Join(db, "eth0"), ts, ""), enc, &res)
	require.NoError(t, err)
	return res.Len()
}

func TestF20DisjunctionWithAddressLeaf(t *testing.T) {
	require.Equal(t, 2, f20Count(t, "dport = 80"))
	require.Equal(t, 2, f20Count(t, "sip = 1.2.3.4 | dport = 80"), "both flows go to port 80")
}

func TestF20NegatedAddressLeaf(t *testing.T) {
	require.Equal(t, 1, f20Count(t, "sip != 9.9.9.9 & sip = 1.2.3.4"))
	require.Equal(t, 2, f20Count(t, "sip != 9.9.9.9"), "neither flow has source 9.9.9.9")
}
