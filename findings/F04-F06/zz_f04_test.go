package node

// Probes for findings F04, F05, F06 (properties C09, C10, C29): place in pkg/goDB/conditions/node and run
//   go test -run 'TestF0[456]' ./pkg/goDB/conditions/node/

import (
	"bytes"
	"testing"
	"time"

	"github.com/els0r/goProbe/v4/pkg/types"
)

// F04: a negative prefix length indexed condBytes[-2] and panicked instead of being rejected.
func TestF04NegativeNetmask(t *testing.T) {
	defer func() {
		if r := recover(); r != nil {
			t.Fatalf("preparing the condition panicked: %v", r)
		}
	}()
	_, _, err := ParseAndInstrument("snet = 10.0.0.0/-9", time.Second)
	if err == nil {
		t.Fatal("negative prefix length accepted")
	}
}

// F05: evaluating a network condition masked a byte inside the key it was given.
func TestF05EvaluationMutatesKey(t *testing.T) {
	n, _, err := ParseAndInstrument("snet = 10.1.128.0/17", time.Second)
	if err != nil {
		t.Fatal(err)
	}
	key := types.NewV4KeyStatic([4]byte{10, 1, 255, 7}, [4]byte{1, 2, 3, 4}, []byte{0, 80}, 6)
	before := append([]byte(nil), key...)
	n.Evaluate(key)
	if !bytes.Equal(before, key) {
		t.Fatalf("flow key changed by evaluation: %v -> %v", before, []byte(key))
	}
}

// F06: an IPv4 network matched an IPv6 flow whose address starts with the same bytes.
func TestF06FamilyMismatch(t *testing.T) {
	for _, cond := range []string{"snet = 32.1.0.0/16", "dnet = 32.1.13.0/21", "snet = 0.0.0.0/0"} {
		n, _, err := ParseAndInstrument(cond, time.Second)
		if err != nil {
			t.Fatal(err)
		}
		ip := [16]byte{0x20, 0x01, 0x0d, 0xb8, 0, 0, 0, 0, 0, 0, 0, 0, 0, 0, 0, 1} // 2001:db8::1
		key := types.NewV6KeyStatic(ip, ip, []byte{0, 80}, 6)
		if n.Evaluate(key) {
			t.Errorf("%q is true for the IPv6 flow 2001:db8::1", cond)
		}
	}
}
