package workload

// Probe for finding F09 (properties C06, C15): place in pkg/types/workload and run
//   go test -run TestF09StatsAdd ./pkg/types/workload/
// Stats.Add dropped BytesLoaded and added BlocksProcessed twice.

import "testing"

func TestF09StatsAdd(t *testing.T) {
	a := &Stats{}
	a.Add(&Stats{BytesLoaded: 10, BytesDecompressed: 20, BlocksProcessed: 3, BlocksCorrupted: 1, DirectoriesProcessed: 2, Workloads: 1})
	if a.BytesLoaded != 10 || a.BlocksProcessed != 3 || a.BytesDecompressed != 20 || a.BlocksCorrupted != 1 || a.DirectoriesProcessed != 2 || a.Workloads != 1 {
		t.Fatalf("sum differs from the only summand: %+v", a.LogValue())
	}
}
