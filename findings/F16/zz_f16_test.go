package goDB

// Probes for finding F16 (property C12): place in pkg/goDB and run
//   go test -run 'TestF16' ./pkg/goDB/
// Four blocks at +300 .. +1200 of one day, each with 1 flow, 7 drops, 100 bytes received.

import (
	"path/filepath"
	"testing"

	"github.com/els0r/goProbe/v4/pkg/goDB/storage/gpfile"
	"github.com/els0r/goProbe/v4/pkg/types"
	"github.com/els0r/goProbe/v4/pkg/types/hashmap"
	"github.com/stretchr/testify/require"
)

const f16Day = int64(1700006400) // 2023-11-15 00:00:00 UTC

func f16DB(t *testing.T) string {
	t.Helper()
	db := t.TempDir()
	w := gpfile.NewDirWriter(filepath.Join(db, "eth0"), f16Day)
	require.NoError(t, w.Open())
	for i := int64(1); i <= 4; i++ {
		fm := hashmap.NewAggFlowMap()
		fm.PrimaryMap.Set(types.NewV4KeyStatic([4]byte{10, 0, 0, 1}, [4]byte{10, 0, 0, 2}, []byte{0, 80}, 6),
			types.Counters{BytesRcvd: 100, BytesSent: 1, PacketsRcvd: 1, PacketsSent: 1})
		data, upd := dbData(fm)
		require.NoError(t, w.WriteBlocks(f16Day+300*i, gpfile.TrafficMetadata{NumV4Entries: 1, NumDrops: 7}, upd.Counts, data))
	}
	require.NoError(t, w.Close())
	return db
}

func f16Meta(t *testing.T, db string, first, last int64) *InterfaceMetadata {
	t.Helper()
	wm, err := NewDBWorkManager(NewMetadataQuery(), db, "eth0", 1)
	require.NoError(t, err)
	m, err := wm.ReadMetadata(first, last)
	require.NoError(t, err)
	return m
}

// F16a: the drops of the blocks outside the range were not subtracted from the day total.
func TestF16DropsOfExcludedBlocks(t *testing.T) {
	m := f16Meta(t, f16DB(t), f16Day+600, f16Day+900) // exactly blocks 2 and 3
	require.EqualValues(t, 2, m.Traffic.NumV4Entries)
	require.EqualValues(t, 200, m.Counts.BytesRcvd)
	require.EqualValues(t, 14, m.Traffic.NumDrops, "two blocks in range with 7 drops each")
}

// F16b: an upper bound that falls between two blocks kept the first block after it.
func TestF16UpperBoundBetweenBlocks(t *testing.T) {
	m := f16Meta(t, f16DB(t), f16Day+300, f16Day+700) // blocks 1 and 2 (300, 600); 900 is outside
	require.EqualValues(t, 2, m.Traffic.NumV4Entries, "blocks with timestamp in [first,last]")
	require.EqualValues(t, 200, m.Counts.BytesRcvd)
}

// an upper bound before the first block of the last day must not crash
func TestF16UpperBoundBeforeFirstBlock(t *testing.T) {
	m := f16Meta(t, f16DB(t), f16Day-600, f16Day+100)
	require.EqualValues(t, 0, m.Traffic.NumV4Entries)
	require.EqualValues(t, 0, m.Counts.BytesRcvd)
}
