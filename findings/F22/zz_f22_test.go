package goDB

// Probe for finding F22 (property C24): place in pkg/goDB and run
//   go test -run TestF22DryRunCreatesNothing ./pkg/goDB/
// A dry run created the destination directory (and a staging directory inside it).

import (
	"context"
	"os"
	"path/filepath"
	"testing"

	"github.com/stretchr/testify/require"
)

func TestF22DryRunCreatesNothing(t *testing.T) {
	src := t.TempDir()
	writeDay(t, src, "eth0", 1700006400, map[int64]uint64{1700006400 + 300: 10})
	dst := filepath.Join(t.TempDir(), "does-not-exist-yet")
	_, err := MergeDatabases(context.Background(), MergeOptions{SourcePath: src, DestinationPath: dst, DryRun: true})
	require.NoError(t, err)
	_, statErr := os.Stat(dst)
	require.True(t, os.IsNotExist(statErr), "a dry run created %s", dst)
}
