package results

// Probes for findings F10 and F24 (property C14): place in pkg/results and run
//   go test -run 'TestF10|TestF24' ./pkg/results/

import (
	"testing"
	"time"
)

// F10: equal instants in different time zones compared unequal with != and were then neither
// Before nor After each other, so the remaining tie-breaks were skipped: a<b and b<a both false
// for rows that differ in host name.
func TestF10LabelsLessTimeZones(t *testing.T) {
	ts := time.Unix(1700000000, 0)
	a := Labels{Timestamp: ts.UTC(), Hostname: "hostA"}
	b := Labels{Timestamp: ts.In(time.FixedZone("x", 3600)), Hostname: "hostB"}
	if !a.Less(b) || b.Less(a) {
		t.Fatalf("a.Less(b)=%v b.Less(a)=%v, want true/false (same instant, hostA < hostB)", a.Less(b), b.Less(a))
	}
}

// F24: labels that differ only in the host id were unordered.
func TestF24LabelsLessHostID(t *testing.T) {
	a := Labels{Hostname: "h", Iface: "eth0", HostID: "1"}
	b := Labels{Hostname: "h", Iface: "eth0", HostID: "2"}
	if a.Less(b) == b.Less(a) {
		t.Fatalf("labels differing in HostID are not ordered: a<b=%v b<a=%v", a.Less(b), b.Less(a))
	}
}
