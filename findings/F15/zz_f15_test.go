package csvimport

// Probe for finding F15 (property C26): place in cmd/gpdb/pkg/csvimport and run
//   go test -run TestF15RowsSharingAKey ./cmd/gpdb/pkg/csvimport/
// Two accepted rows with the same interface, timestamp and flow key: the second overwrote the
// first (Map.Set) although both are reported as imported.

import (
	"context"
	"os"
	"path/filepath"
	"testing"

	"github.com/els0r/goProbe/v4/pkg/goDB/encoder/encoders"
	"github.com/stretchr/testify/require"
)

func TestF15RowsSharingAKey(t *testing.T) {
	inputPath := filepath.Join(t.TempDir(), "input.csv")
	outPath := t.TempDir()
	content := "time,iface,sip,dip,dport,proto,packets received,packets sent,data vol. received,data vol. sent\n" +
		"1711929900,eth0,10.0.0.1,10.0.0.2,443,TCP,3,2,300,200\n" +
		"1711929900,eth0,10.0.0.1,10.0.0.2,443,TCP,4,1,400,100\n"
	require.NoError(t, os.WriteFile(inputPath, []byte(content), 0o600))
	summary, err := Import(context.Background(), Options{InputPath: inputPath, OutputPath: outPath, EncoderType: encoders.EncoderTypeLZ4})
	require.NoError(t, err)
	require.Equal(t, 2, summary.RowsImported)
	desc := mustSingleDayDescriptor(t, filepath.Join(outPath, "eth0"))
	c, err := readDayCounters(filepath.Join(outPath, "eth0"), desc)
	require.NoError(t, err)
	require.EqualValues(t, 700, c[1711929900].BytesRcvd, "counters of rows sharing a key must be summed")
	require.EqualValues(t, 300, c[1711929900].BytesSent)
	require.EqualValues(t, 7, c[1711929900].PacketsRcvd)
	require.EqualValues(t, 3, c[1711929900].PacketsSent)
}
