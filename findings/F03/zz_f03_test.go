package gpfile

// Probe for finding F03 (property C03): place in pkg/goDB/storage/gpfile and run
//   go test -run TestF03NonMonotoneTimestamp ./pkg/goDB/storage/gpfile/
// A block with a timestamp earlier than the previous one is accepted; the signed delta
// is only checked against the upper bound, so it is stored as a huge uint32 and the
// timestamp is read back altered.

import (
	"testing"

	"github.com/els0r/goProbe/v4/pkg/types"
)

func TestF03NonMonotoneTimestamp(t *testing.T) {
	dir := t.TempDir()
	var data [types.ColIdxCount][]byte
	for i := range data {
		data[i] = []byte{1, 2, 3, 4}
	}
	w := NewDirWriter(dir, 1700000000)
	if err := w.Open(); err != nil {
		t.Fatal(err)
	}
	var werr error
	for _, ts := range []int64{1700000600, 1700000300} {
		if err := w.WriteBlocks(ts, TrafficMetadata{}, types.Counters{}, data); err != nil {
			werr = err
		}
	}
	if err := w.Close(); err != nil {
		werr = err
	}
	if werr != nil {
		t.Logf("write history rejected: %v", werr)
		return // rejected with an error: fine
	}
	r := NewDirReader(dir, 1700000000, "")
	if err := r.Open(); err != nil {
		t.Fatal(err)
	}
	defer r.Close()
	got := r.BlockMetadata[0].Blocks()
	if len(got) != 2 || got[0].Timestamp != 1700000600 || got[1].Timestamp != 1700000300 {
		t.Fatalf("accepted history read back altered: %+v", got)
	}
}
