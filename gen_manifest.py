#!/usr/bin/env python3
"""Regenerates MANIFEST.json from the table below (kept next to the checks so the two cannot drift)."""
import json

CLAIMS = {
 # id: (technique, level text, level note)
 "C01": ("CFG path enumeration with an event automaton (emit/seek/reset/flush/commit) over GPFile.writeBlock; packed-layout table extraction",
         "Decides structural necessary conditions of the property on every control-flow path of the write/commit code: offset accounting, rollback before re-encoding, flush before commit, recorded length/encoder = emitting call. Not the byte-level round trip itself (compression libraries are trusted).",
         "go/types + go/cfg; semantics of bufio.Writer (Reset discards only buffered bytes), io.Seeker; frozen anchor table in checker/props"),
 "C02": ("per-path event automaton over Compress/Decompress of every Encoder implementation, run once per build configuration (cgo, CGO_ENABLED=0; thorough: noliblz4, nolibzstd, CI tags)",
         "Decides the sibling contract all four build-tag-selected implementations must share so that what reaches the file is exactly the library's frame (scratch hygiene for append-style APIs, capacity-guarded reslice, one Write whose count is reported, short-read check, decoded length returned, no &x[0] on a possibly empty parameter). Mutual readability of the third-party frame formats is NOT decided.",
         "go/packages under each build configuration (cgo files through the cgo-processed sources); table of append-style third-party functions (klauspost zstd EncodeAll/DecodeAll)"),
 "C07": ("same encoder-contract automaton per implementation and configuration, plus the encoder.New type table (each constant -> implementation whose Type() returns it; default rejects)",
         "Decides count-reported = count-written, written bytes = library output only, read-length check, decoded-length return, for every implementation and configuration. The byte-level round trip for all inputs and levels is library behaviour and NOT decided.",
         "as C02"),
 "C03": ("narrowing-conversion guard dominance (CFG), decoder size-guard derivation from the extracted layout, writer/reader layout table comparison",
         "Decides that every narrowing conversion stored by GPDir.Marshal is guarded on every side its source type can exceed, that Unmarshal's size guards use constants covering what the decoder consumes (derived from the code) and dominate all accesses, that the duplicate-timestamp test dominates AddBlock, and that Open propagates decode errors. Equality of re-read histories as values is not decided.",
         "go/types + go/cfg; frozen anchors GPDir.Marshal/Unmarshal/Open, GPFile.writeBlock"),
 "C04": ("per-path event-order automaton over the commit protocol (create-temp, marshal, close, rename, dir rename; column close before commit; commit only after all writes), error-disposition analysis, who-may-write and field-role rules",
         "Decides only that the protocol the crash-recovery argument relies on is the one in the code, on every control-flow path; the state of the files at each system-call boundary is NOT decided (needs crash-point enumeration, outside this technique family).",
         "go/types + go/cfg; POSIX rename atomicity within one directory; frozen anchors in gpfile and goDB"),
 "C05": ("error-disposition analysis of every error-returning call in the storage layer (CFG: first use of the error variable on every path) plus the commit-protocol path automaton",
         "Decides that no storage error is dropped before it is tested/returned, that no header/summary/metadata commit is reachable on a path where an earlier step failed. Behaviour under each injected fault is NOT decided.",
         "go/types + go/cfg; one frozen exception per (function, callee) with reason"),
 "C30": ("commit-protocol path automaton, committed-offset field-role rule, reader retry-once path rule",
         "Decides the immutability facts the per-day snapshot argument needs (committed bytes never rewritten; metadata replaced only by rename of a complete temp file, single writer) and that the reader's reopen recovery retries exactly once. The interleavings themselves are NOT decided.",
         "go/types + go/cfg"),
 "C09": ("abstract truth-table enumeration of every comparison closure over the order types (lt/eq/gt, length equality) of its compared pairs; syntactic alias tracking for stores through the key; table extraction for connectives, comparator complement, negation normal form and desugaring; dominance of lower/upper guards on the parsed prefix length",
         "Exhaustive for the finite abstraction of each leaf closure and connective (comparison-only code, so behaviour depends only on the order type): every (attribute, comparator) closure has the comparator's truth table on the attribute's own getter, with IP-family guard, and stores nothing through the key. Does not decide the truth of whole formulas on concrete keys nor the masking arithmetic.",
         "go/types; the abstraction is sound only for closures whose control flow is comparison-only - any other construct is reported as undecided (fails)"),
 "C10": ("constant regexps of the operator grammar compiled and applied, at analysis time, to every spelling extracted from the help text (accepted under its own base operator, claimed by no other); guard dominance on token accesses; path rule on parseConditional",
         "Decides the documented-spelling clause exactly for the tables as written, plus parser totality (no unguarded token access, errors and trailing tokens rejected). Meaning preservation / idempotence of the canonical form and behaviour on arbitrary strings are NOT decided.",
         "go/types; Go regexp semantics (the same engine the program uses); help text must stay a constant string with the two operator tables"),
 "C13": ("per-iteration path rule over TimeBinner.BinTime (exactly one MergeRow, label rebuilt by time.Unix before merging whenever the timestamp is set), field coverage of Counters.Add, guard dominance on user bin sizes",
         "Decides the structural conditions for conservation and one-row-per-bin; the ceiling arithmetic of BinTimestamp and CalcTimeBinSize are NOT decided.",
         "go/types + go/cfg; time.Unix yields the single Local location"),
 "C14": ("exhaustive truth-table enumeration of the 14 comparator closures of results.By over the order type of their keys; lexicographic-chain / field-coverage rule on Labels.Less and Attributes.Less; time-equality rule; sort-dominates-limit",
         "Decides that every comparator orders by the documented key with a fixed tie-break, that the tie-break consults every label/attribute field exactly once without == on time.Time, and that sorting precedes truncation. That sort.Sort realises the order is trusted.",
         "go/types + go/cfg; frozen key table per (sort, direction)"),
 "C17": ("constant-table extraction (switch / map literal) of String and FromString for the three enumerations, checked to be mutually inverse on every declared constant; struct-tag and source agreement of the auxiliary marshal structs",
         "Exact for the enumeration clause (every value maps to its name and back). Round trips of whole Args/Statement/Result values are NOT decided.",
         "go/types constant evaluation"),
 "C06": ("CFG dominance over the 'block broken' gate protocol of readBlocksAndEvaluate (relational guard on the disk-derived IPv4 count, every use of disk-derived counts behind the gate, every mark reaches a counting gate), Engler-style contradiction rule on GPDir.TimeRange callers (has-blocks test), encoder &x[0] rule, decode guards derived from the layout, read-path rule, field coverage",
         "Decides the guard structure a crash-free reader needs and the accounting of skipped blocks; 'never crashes for all byte-level mutations' as such needs arithmetic bounds reasoning or fuzzing and is NOT decided.",
         "go/types + go/cfg; bitpack.Len/UnpackInto are total (read once, trusted)"),
 "C12": ("exhaustive evaluation of BlocksBefore / BlocksAfter / the query block filter over the order type of a block's timestamp against the bound; value-origin rule on the blocks handed to the subtraction; field coverage of the per-block statistics and of Add/Sub",
         "Decides that the listing subtracts exactly the blocks the query skips and that the subtracted statistics are complete. The sums as numbers and day-boundary arithmetic are NOT decided.",
         "go/types; block lists are sorted by timestamp (writer appends; C03 rejects non-monotone histories)"),
 "C08": ("interpretation of the scan-restriction function over its finite enum domain (all child restrictions x node kinds; leaves over all comparators), symbolic linear evaluation of the column index expressions, constant flag tables, per-iteration path rule for row/total accounting, positional agreement of counter arguments",
         "Exhaustive for the pruning clause over the value domain {none, v4, v6}; structural for key/condition population, flag tables, accounting and counter positions. Equality with an independent aggregation over all databases and conditions is NOT decided.",
         "go/types + go/cfg; column layout 'IPv4 entries first' (dbData)"),
 "C16": ("range-mutation hazard rule (reassignment of a slice inside a range over it) plus shape rules for the selection / negation / regexp code",
         "Decides the crash shape (removal while ranging) is absent and negations are applied after selections over the whole result. Set equality of the selection for all argument lists is NOT decided.",
         "go/types"),
 "C26": ("who-may-call rule (no overwriting Map.Set in csvimport), per-iteration path rule for row accounting and the time-regression guard, sorted-before-write rule, counter positions",
         "Decides that every row read is counted exactly once, imported iff inserted additively, regressions are rejected before insertion, blocks are written in ascending time and flushed before success. That stored rows equal the file's as values is NOT decided.",
         "go/types + go/cfg"),
 "C27": ("dominance rule final-writeout-before-close in Manager.update, map-order hazard rule on IfaceMatcher.FindMatch, field coverage of CaptureConfig.Equals / RingBufferConfig.Equals, diff-set rule in updateSelected",
         "Decides the ordering, determinism and change-detection conditions; convergence over update sequences and the data written are NOT decided.",
         "go/types + go/cfg"),
 "C31": ("per-path acquire/release automaton over both query entry points, who-may-call on the work functions, allocation-site rule for the semaphore",
         "Decides that every path that acquired a slot has exactly one deferred release registered before any further return, that the refused branch does no work and answers 'too many requests', and that no caller bypasses the gate. Counts under real schedules (channel semantics of TryAddFor) are trusted, not decided.",
         "go/types + go/cfg; concurrency.Semaphore.TryAddFor returns a release function iff it acquired"),
 "C15": ("accumulator-discipline classification of every write in aggregateSingleResult (commutative / min-max under comparison / recomputed / last-writer-wins with frozen exceptions), path rules on finalizeResult and Result.End, one-result-per-workload path rule in the API querier, field coverage",
         "Decides that no item-derived value is stored last-writer-wins, that rows are rebuilt from the row map whenever it is non-empty and that an 'empty' verdict is not sticky, i.e. the structural conditions for order independence and streaming = non-streaming. Equality over all permutations as executed is NOT decided.",
         "go/types + go/cfg; one frozen exception (Query) with reason"),
 "C21": ("type-directed argument agreement at the LocalBuffer.Add call sites, per-item path rule over the drain loop, whole-loop path rule 'every exit consumed the unlock request exactly once', packed layout rules of C23",
         "Decides that buffered packets keep their IP version, key, type, size and parse status and are forwarded exactly once, and that the unlock handshake is consumed exactly once on every exit. Interleavings with the third-party three-point lock are NOT decided.",
         "go/types + go/cfg"),
 "C19": ("guard-restricted reachability for every constant index / slice of the IP layer (bounds hint or truncation guard on every path), frozen RFC offset oracle, mirror-image rule on the port section, V4/V6 sibling comparison, table-dimension bounds in isCommonPort, hash reversal layout",
         "Decides that no constant access to the header can be out of bounds behind the fixed-header hint, that offsets are the RFC ones, and that the port rule is mirror-symmetric (the structural reason a conversation's two directions yield mirrored keys). Packets shorter than the fixed IP header are a precondition on the capture source and NOT covered.",
         "go/types + go/cfg; RFC 791 / 8200 / 9293 / 768 offsets frozen in the checker"),
 "C20": ("per-entry path rule over FlowLog.transferAndAggregate (emit+reset xor delete), reachability rule 'rotation result always reaches the write-out channel', direction siblings NewFlow/UpdateFlow, key projection layout, once-per-flow column appends in dbData, counter positions at all SetOrUpdate sites, two-orientation lookup",
         "Decides the structural conservation conditions on every path; conservation as arithmetic over packet sequences and rotation schedules is NOT decided.",
         "go/types + go/cfg"),
 "C22": ("interpretation of the comparison-only port heuristic over a complete set of order-type representatives (mirror symmetry), exhaustive table extraction of the TCP-flag and ICMP-type classifiers over the byte domain against RFC numbers, reversed-key insertion sites, hash reversal layout",
         "Exhaustive over the finite quotient of the heuristics' inputs: opposite verdicts for mirrored packets, handshake and ICMP tables. Address-based heuristics (broadcast/multicast) are taken as given.",
         "go/types; the interpreter handles only comparison-only code and reports anything else as undecided"),
 "C23": ("per-path packed-record layout extraction (index/slice/unsafe-cast/copy at cursor+const) with writer/reader table comparison",
         "Decides that every field LocalBuffer.Add stores lies inside the cursor stride, fields are disjoint, and Add/Next agree on offset, width, stride and version flag per role; refusal stores nothing. Exact for the layout clause (the one the defect F11 lived in); FIFO behaviour over operation sequences is not decided.",
         "go/types + go/cfg; gc/amd64 sizes for unsafe casts"),
 "C11": ("channel-capacity provenance rule for the work queue (capacity derived from the item count vs. consumers started later), per-workload path rule over the worker closure, accumulator-discipline classification of the fan-in goroutine, shared-write rule over worker-reachable closures",
         "Decides the termination shape of the work queue, the worker protocol (Add before spawn, deferred Done, at most one result message per workload, close after all producers), commutative fan-in and the absence of writes to shared state from concurrently evaluated code. Equality of results across worker counts as executed, and absence of every deadlock, are NOT decided.",
         "go/types + go/cfg; semantics of buffered channels, sync.WaitGroup; frozen anchors DBWorkManager.CreateWorkerJobs/ExecuteWorkerReadJobs/readBlocksAndEvaluate, aggregateQueryResults"),
 "C18": ("sibling cross-check by normalised syntax-tree comparison (Set vs SetOrUpdate, Merge's inlined traversal vs Iter.Next), key-ownership dataflow rule (slot cut from the map's own arena, copy of the caller's bytes, arena grown before, position advanced), parameter-to-counter position table",
         "Decides key ownership, sibling agreement of the two insertion paths and of the two traversals, counter-position agreement and the evacuation test of lookups. Map semantics under growth as executed, exactly-once iteration and load-factor arithmetic are NOT decided.",
         "go/types syntax trees of pkg/types/hashmap; frozen anchors Map.Set, Map.SetOrUpdate, Map.Merge, Iter.Next, Map.Get"),
 "C24": ("exhaustive evaluation of the day-plan function over its 12 reachable boolean input states and of the per-timestamp block choice over its 8 states by an interpreter over the syntax tree (finite domains, no program execution), per-day path rule over the counters, guard-restricted reachability for the dry-run flag, path-root derivation for every write sink of the copy / stage / commit helpers",
         "Decides that the decision tables in the code are the documented ones, that every processed day is counted exactly once under the counter of its action (also in a dry run), that no modifying call of MergeDatabases is reachable in a dry run, that the helpers write only below their destination / stage parameter and that every non-failing commit installs the staged day. The resulting database contents, idempotence and completeness arithmetic are NOT decided.",
         "go/types + go/cfg; table of file-modifying os functions; frozen anchors planDayMerge, mergeSnapshots, MergeDatabases, commitStagedDay, stageCopyDay, rebuildDayToStage, copyDir, copyFile"),
 "C25": ("per-path order automaton over commitStagedDay (backup rename before install, backup removed iff success), staging who-may-write rule over MergeDatabases, constant evaluation of the merge's reserved name patterns against the name predicates of every directory lister",
         "Decides the swap order and the namespace separation between merge leftovers and listers (necessary for 'an interrupted merge neither duplicates nor hides data'). The state at each crash point is NOT decided; six listers accept leftover names today (known finding F21, listed in known_findings.json).",
         "go/types + go/cfg; rename(2) atomicity; frozen lister table (info.GetInterfaces, listSourceInterfaces, walkDB, listInterfaceDays, locateDayDirectory, binarySearchPrefix)"),
 "C28": ("constant-table extraction of the relative-time unit switch, accumulator-provenance rule (only unit*number / duration seconds added; only the accumulator subtracted from now; no calendar arithmetic), sibling agreement of the two range parsers, order rule over ParseTimeArgument's fallbacks",
         "Decides the unit table, the fixed-duration arithmetic, first<=last rejection in both range parsers, and the documented fallback order relative -> Unix integer -> layouts in local zone. Round-tripping of each layout (time package), layout ambiguity and DST behaviour of absolute local times are NOT decided.",
         "go/types + go/cfg; frozen anchors parseRelativeTime, ParseTimeArgument, ParseTimeRange, ParseTimeRangeCollectErrors"),
 "C29": ("effect rule (no field assignment / delete / clear / mutating method) over everything FlowLog.Aggregate reaches, lock pairing path rule over GetFlowMaps, input-vs-result write rule over the live condition filter, sibling agreement Aggregate vs transferAndAggregate",
         "Decides that the live-query path is read-only on capture state, that the filter writes only its fresh result map and that live data is keyed and accumulated exactly like rotated data. Grouping of live rows by the query attributes (observation F25) and schedules between write-outs are NOT decided.",
         "go/types + go/cfg; frozen anchors FlowLog.Aggregate, FlowLog.transferAndAggregate, Capture.flowMap, Manager.GetFlowMaps, the live filter in pkg/capture"),
}

NOT_APPLICABLE = {}

def main():
    props = [json.loads(l) for l in open('properties.jsonl')]
    checks, na = [], []
    for p in props:
        pid = p['id']
        if pid in CLAIMS:
            tech, text, note = CLAIMS[pid]
            checks.append({
                "property_id": pid,
                "quick_cmd": f"./check.sh {pid} quick",
                "thorough_cmd": f"./check.sh {pid} thorough",
                "evidence_file": f"/verif/evidence/{pid}.json",
                "replay_cmd_template": f"./check.sh {pid} quick  # report: {{path}}",
                "engine": "gpcheck",
                "level_claimed": {"category": "other", "text": text, "design_ref": f"DESIGN.md §3 {pid}"},
                "level_note": note,
                "technique": "static analysis: " + tech,
            })
        else:
            na.append({"property_id": pid, "reason": NOT_APPLICABLE.get(pid, "no check registered yet: the static rule for this property is not implemented at this commit (see DESIGN.md §3 for the planned structural clause)")})
    m = {
        "version": 1,
        "setup_cmd": "cd checker && env -u GOSUMDB -u GOTOOLCHAIN GOWORK=off GOFLAGS=-mod=mod GOPROXY=off go build -o ../bin/gpcheck .",
        "hooks": {"guard": "verif", "enable": "none needed: static analysis reads the source; no instrumentation of /repo exists",
                  "baseline_off_cmd": "for m in . ./plugins/contrib; do (cd /repo/$m && go test -json -vet=off -count=1 -timeout 25m ./...); done",
                  "source_commits": [], "add_only": True},
        "engines": [{"name": "gpcheck", "path": "checker", "serves_properties": sorted(CLAIMS),
                     "kind_free_text": "repository-specific static analyser (go/packages + go/types + go/cfg + go/ssa, x/tools v0.29.0); one process per property, analyses /repo's working tree on every run"}],
        "checks": checks,
        "not_applicable": na,
        "notes": "All claims are level 'other': each check decides named structural clauses (necessary conditions) of its property, listed in evidence coverage.explanation and DESIGN.md §3, never the run-time behaviour itself. Genuine defects found are in known_findings.json (fixed: entries name the fix: commit in /repo).",
    }
    json.dump(m, open('MANIFEST.json', 'w'), indent=1)
    print(len(checks), "checks,", len(na), "not applicable")

main()
