#!/bin/sh
# usage: ./check.sh Cnn [quick|thorough]
# Builds the checker if needed and decides property Cnn from /repo's current source.
set -u
cd "$(dirname "$0")" || exit 2
PROP="$1"; TIER="${2:-${VERIF_TIER:-quick}}"
unset GOSUMDB GOTOOLCHAIN GOWORK
export GOFLAGS=-mod=mod GOPROXY=off GOWORK=off
if [ ! -x bin/gpcheck ] || [ -n "$(find checker -name '*.go' -newer bin/gpcheck 2>/dev/null | head -1)" ]; then
  (cd checker && go build -o ../bin/gpcheck .) || { echo "cannot build checker"; exit 2; }
fi
exec bin/gpcheck -prop "$PROP" -tier "$TIER" -repo "${VERIF_REPO:-/repo}" -verif "$(pwd)"
